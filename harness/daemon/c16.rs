// Verification harness for C16 (only configured / dynamically permitted neighbours get a
// session, set up right).  Child of `crate::event::verif_event`, so it reaches the private
// `accept_connection`, `Global`, `Peer`, `PeerSession`, `PeerParams`, `GrpcService` items.
//
// Case kinds (syntax: lean/Rbgp/Accept/Codec.lean):
//   (neg (caps..) (caps..) (sm (f n)..))      PeerCodec::negotiate both ways, PeerFsm effective
//                                             send-max both ways, negotiate_gr / negotiate_llgr both ways
//   (contains (net xbytes mask) (ip xbytes))  IpNet::contains
//   (hist global groups peers ops)            add_peer/apply_peer_group, accept_connection over real
//                                             loopback sockets, PeerSession::run, the gRPC handlers
#![allow(dead_code, unused_imports, clippy::all)]

use super::super::*;

#[path = "/verif/harness/common/sexp.rs"]
mod sexp;
use sexp::Term;

use crate::fsm::{Input as FsmInput, Output as FsmOutput, PeerFsm, PeerFsmOutput, Role};
use std::net::{IpAddr, Ipv4Addr, Ipv6Addr, SocketAddr};
use std::str::FromStr;

// ------------------------------------------------------------------ families / capabilities

fn fam_raw(f: Family) -> u32 {
    ((f.afi() as u32) << 16) | f.safi() as u32
}
fn fam_t(f: Family) -> Term {
    Term::nat(fam_raw(f))
}
fn fam_of(t: &Term) -> Option<Family> {
    let n = t.as_u64()?;
    if n >= (1u64 << 32) || (n & 0xff00) != 0 {
        return None;
    }
    Some(Family::new((n >> 16) as u16, (n & 0xff) as u8))
}
fn u_of(t: &Term, max: u64) -> Option<u64> {
    let n = t.as_u64()?;
    if n > max { None } else { Some(n) }
}

fn cap_of(t: &Term) -> Option<packet::Capability> {
    use packet::Capability as C;
    match t.head()? {
        "rr" if t.as_atom().is_some() => Some(C::RouteRefresh),
        "extmsg" if t.as_atom().is_some() => Some(C::ExtendedMessage),
        "err" if t.as_atom().is_some() => Some(C::EnhancedRouteRefresh),
        "fqdn" if t.as_atom().is_some() => Some(C::Fqdn {
            hostname: "h".into(),
            domain: "d".into(),
        }),
        "mp" => match t.tagged("mp")? {
            [f] => Some(C::MultiProtocol(fam_of(f)?)),
            _ => None,
        },
        "as4" => match t.tagged("as4")? {
            [n] => Some(C::FourOctetAsNumber(u_of(n, u32::MAX as u64)? as u32)),
            _ => None,
        },
        "enh" => {
            let mut v = Vec::new();
            for e in t.tagged("enh")? {
                match e.as_list()? {
                    [f, a] => v.push((fam_of(f)?, u_of(a, 65535)? as u16)),
                    _ => return None,
                }
            }
            Some(C::ExtendedNexthop(v))
        }
        "addpath" => {
            let mut v = Vec::new();
            for e in t.tagged("addpath")? {
                match e.as_list()? {
                    [f, m] => v.push((fam_of(f)?, u_of(m, 255)? as u8)),
                    _ => return None,
                }
            }
            Some(C::AddPath(v))
        }
        "gr" => match t.tagged("gr")? {
            [fl, tm, fams] => {
                let mut v = Vec::new();
                for e in fams.as_list()? {
                    match e.as_list()? {
                        [f, x] => v.push((fam_of(f)?, u_of(x, 255)? as u8)),
                        _ => return None,
                    }
                }
                Some(C::GracefulRestart {
                    flags: u_of(fl, 255)? as u8,
                    restart_time: u_of(tm, 65535)? as u16,
                    families: v,
                })
            }
            _ => None,
        },
        "llgr" => {
            let mut v = Vec::new();
            for e in t.tagged("llgr")? {
                match e.as_list()? {
                    [f, x, tm] => v.push((fam_of(f)?, u_of(x, 255)? as u8, u_of(tm, u32::MAX as u64)? as u32)),
                    _ => return None,
                }
            }
            Some(C::LongLivedGracefulRestart(v))
        }
        "unk" => match t.tagged("unk")? {
            [c, b] => Some(C::Unknown {
                code: u_of(c, 255)? as u8,
                bin: b.as_bytes()?,
            }),
            _ => None,
        },
        _ => None,
    }
}

fn caps_of(t: &Term) -> Option<Vec<packet::Capability>> {
    t.as_list()?.iter().map(cap_of).collect()
}

fn cap_t(c: &packet::Capability) -> Term {
    use packet::Capability as C;
    match c {
        C::MultiProtocol(f) => Term::tag("mp", vec![fam_t(*f)]),
        C::RouteRefresh => Term::atom("rr"),
        C::ExtendedNexthop(v) => Term::tag(
            "enh",
            v.iter().map(|(f, a)| Term::list(vec![fam_t(*f), Term::nat(*a)])).collect(),
        ),
        C::ExtendedMessage => Term::atom("extmsg"),
        C::GracefulRestart {
            flags,
            restart_time,
            families,
        } => Term::tag(
            "gr",
            vec![
                Term::nat(*flags),
                Term::nat(*restart_time),
                Term::list(
                    families
                        .iter()
                        .map(|(f, x)| Term::list(vec![fam_t(*f), Term::nat(*x)]))
                        .collect(),
                ),
            ],
        ),
        C::FourOctetAsNumber(n) => Term::tag("as4", vec![Term::nat(*n)]),
        C::AddPath(v) => Term::tag(
            "addpath",
            v.iter().map(|(f, m)| Term::list(vec![fam_t(*f), Term::nat(*m)])).collect(),
        ),
        C::EnhancedRouteRefresh => Term::atom("err"),
        C::LongLivedGracefulRestart(v) => Term::tag(
            "llgr",
            v.iter()
                .map(|(f, x, t)| Term::list(vec![fam_t(*f), Term::nat(*x), Term::nat(*t)]))
                .collect(),
        ),
        C::Fqdn { .. } => Term::atom("fqdn"),
        C::Unknown { code, bin } => Term::tag("unk", vec![Term::nat(*code), Term::bytes(bin)]),
    }
}

/// Canonical form of a *locally built* capability list: `build_local_cap` iterates a hash map,
/// so MultiProtocol entries and the tuples inside AddPath / ExtendedNexthop come in hash order.
/// Sort MP entries by family (keeping them where the first MP entry was), sort the tuples.
fn canon_caps(caps: &[packet::Capability]) -> Term {
    use packet::Capability as C;
    let mut mps: Vec<u32> = caps
        .iter()
        .filter_map(|c| if let C::MultiProtocol(f) = c { Some(fam_raw(*f)) } else { None })
        .collect();
    mps.sort();
    let mut out = Vec::new();
    let mut mp_done = false;
    for c in caps {
        match c {
            C::MultiProtocol(_) => {
                if !mp_done {
                    mp_done = true;
                    for f in &mps {
                        out.push(Term::tag("mp", vec![Term::nat(*f)]));
                    }
                }
            }
            C::AddPath(v) => {
                let mut v = v.clone();
                v.sort_by_key(|(f, m)| (fam_raw(*f), *m));
                out.push(cap_t(&C::AddPath(v)));
            }
            C::ExtendedNexthop(v) => {
                let mut v = v.clone();
                v.sort_by_key(|(f, a)| (fam_raw(*f), *a));
                out.push(cap_t(&C::ExtendedNexthop(v)));
            }
            other => out.push(cap_t(other)),
        }
    }
    Term::list(out)
}

// ------------------------------------------------------------------ neg

fn codec_t(c: &mut bgp::PeerCodec) -> Term {
    let mut fams: Vec<(u32, bool, bool, bool)> = c
        .families_iter()
        .collect::<Vec<_>>()
        .into_iter()
        .map(|f| {
            let s = c.family_state(f).unwrap();
            (fam_raw(f), s.addpath_rx, s.addpath_tx, c.extended_nexthop(f))
        })
        .collect();
    fams.sort();
    // what the encoder does with it: an IPv4 unicast withdrawal goes into MP_UNREACH iff extended
    // next hop is used for IPv4 unicast, otherwise into the withdrawn-routes field.
    let msg = bgp::Message::Update(bgp::Update::Unreach {
        family: Family::IPV4,
        entries: vec![packet::PathNlri::new(packet::Nlri::V4(packet::bgp::Ipv4Net {
            addr: Ipv4Addr::new(10, 0, 0, 0),
            mask: 8,
        }))],
    });
    let mut buf = bytes::BytesMut::with_capacity(4096);
    let enh = match c.encode_to(&msg, &mut buf) {
        Ok(_) if buf.len() >= 21 => Term::boolean(buf[19] == 0 && buf[20] == 0),
        _ => Term::atom("encode-failed"),
    };
    Term::tag(
        "codec",
        vec![
            Term::list(
                fams.into_iter().map(|(f, rx, tx, e)| Term::list(vec![Term::nat(f), Term::boolean(rx), Term::boolean(tx), Term::boolean(e)]))
                    .collect(),
            ),
            Term::boolean(c.extended_length),
            enh,
            Term::boolean(!c.two_byte_as),
        ],
    )
}

fn sm_of(t: &Term) -> Option<FnvHashMap<Family, usize>> {
    let mut h = FnvHashMap::default();
    for e in t.tagged("sm")? {
        match e.as_list()? {
            [f, n] => {
                h.insert(fam_of(f)?, u_of(n, 1 << 20)? as usize);
            }
            _ => return None,
        }
    }
    Some(h)
}

/// Drive the real PeerFsm: connect, remote OPEN carrying `remote`, KEEPALIVE.
/// Returns (codec handed out by SessionNegotiated, effective_max of SessionEstablished).
fn fsm_establish(
    local: &[packet::Capability],
    remote: &[packet::Capability],
    sm: &FnvHashMap<Family, usize>,
) -> (Option<bgp::PeerCodec>, Option<Vec<(u32, usize)>>) {
    let mut fsm = PeerFsm::new(0x0101_0101, 65001, local.to_vec(), 90, 0, sm.clone());
    let _ = fsm.process(Role::Passive, FsmInput::Connected(false));
    let open = bgp::Message::Open(bgp::Open {
        as_number: 65002,
        holdtime: HoldTime::new(90).unwrap(),
        router_id: 0x0202_0202,
        capability: remote.to_vec(),
    });
    let mut codec = None;
    for o in fsm.process(Role::Passive, FsmInput::MessageReceived(open)) {
        if let PeerFsmOutput::Connection(_, FsmOutput::SessionNegotiated(c)) = o {
            codec = Some(c);
        }
    }
    let mut emax = None;
    for o in fsm.process(Role::Passive, FsmInput::MessageReceived(bgp::Message::Keepalive)) {
        if let PeerFsmOutput::Connection(_, FsmOutput::SessionEstablished { effective_max, .. }) = o {
            let mut v: Vec<(u32, usize)> = effective_max.iter().map(|(f, n)| (fam_raw(*f), *n)).collect();
            v.sort();
            emax = Some(v);
        }
    }
    (codec, emax)
}

fn emax_t(e: Option<Vec<(u32, usize)>>) -> Term {
    match e {
        None => Term::atom("not-established"),
        Some(v) => Term::list(
            v.into_iter()
                .map(|(f, n)| Term::list(vec![Term::nat(f), Term::nat(n as u64)]))
                .collect(),
        ),
    }
}

fn gr_t(g: Option<NegotiatedGr>) -> Term {
    match g {
        None => Term::atom("none"),
        Some(g) => Term::tag(
            "gr",
            vec![
                Term::list(g.families.iter().map(|f| fam_t(*f)).collect()),
                Term::nat(g.restart_time.as_secs()),
                Term::boolean(g.notification_enabled),
            ],
        ),
    }
}
fn llgr_t(g: Option<NegotiatedLlgr>) -> Term {
    match g {
        None => Term::atom("none"),
        Some(g) => Term::tag(
            "llgr",
            g.families
                .iter()
                .map(|(f, d)| Term::list(vec![fam_t(*f), Term::nat(d.as_secs())]))
                .collect(),
        ),
    }
}

fn make_tables() -> TableHandle {
    Arc::new(TableManager::new(1))
}

fn empty_context() -> Arc<std::sync::Mutex<PeerContext>> {
    let fsm = PeerFsm::new(1, 1, vec![], 90, 0, FnvHashMap::default());
    Arc::new(std::sync::Mutex::new(PeerContext {
        conn_arbiter: Arc::new(std::sync::Mutex::new(ConnArbiter::new(fsm))),
        active_connect_cancel_tx: None,
        active_connect_join_handle: None,
        gr_state: crate::gr::GrState::new(),
        gr_restart_timer: None,
        llgr_family_timers: FnvHashMap::default(),
        rtc_state: crate::rtc::RtcState::new(),
        rtc_eor_timer: None,
    }))
}

fn run_neg(rt: &tokio::runtime::Runtime, l: &Term, r: &Term, sm: &Term) -> Option<String> {
    let local = caps_of(l)?;
    let remote = caps_of(r)?;
    let sm = sm_of(sm)?;
    // (1) the public packet API, both directions
    let mut lr = bgp::PeerCodec::negotiate(&local, &remote);
    let mut rl = bgp::PeerCodec::negotiate(&remote, &local);
    // (2) the FSM, both directions (same configured send-max on both ends)
    let (fc_lr, em_lr) = fsm_establish(&local, &remote, &sm);
    let (fc_rl, em_rl) = fsm_establish(&remote, &local, &sm);
    // the codec the FSM hands to the session must be the one the packet API computes
    let same = |a: &mut bgp::PeerCodec, b: Option<bgp::PeerCodec>| match b {
        Some(mut b) => codec_t(a).to_string() == codec_t(&mut b).to_string(),
        None => false,
    };
    let fsm_same = same(&mut lr, fc_lr) && same(&mut rl, fc_rl);
    // (3) GR / LLGR negotiation of the session, both directions
    let (gl, gr_, ll, lr_) = rt.block_on(async {
        let tables = make_tables();
        let addr = IpAddr::V4(Ipv4Addr::new(127, 0, 0, 9));
        let mut a = PeerSession::new_for_test(addr, empty_context(), tables.clone());
        a.local_cap = local.clone();
        let mut b = PeerSession::new_for_test(addr, empty_context(), tables);
        b.local_cap = remote.clone();
        (
            a.negotiate_gr(&remote),
            b.negotiate_gr(&local),
            a.negotiate_llgr(&remote),
            b.negotiate_llgr(&local),
        )
    });
    Some(
        Term::tag(
            "neg",
            vec![
                codec_t(&mut lr),
                codec_t(&mut rl),
                Term::boolean(fsm_same),
                emax_t(em_lr),
                emax_t(em_rl),
                gr_t(gl),
                gr_t(gr_),
                llgr_t(ll),
                llgr_t(lr_),
            ],
        )
        .to_string(),
    )
}

// ------------------------------------------------------------------ contains

fn ip_of(t: &Term) -> Option<IpAddr> {
    match t.tagged("ip")? {
        [b] => {
            let b = b.as_bytes()?;
            match b.len() {
                4 => Some(IpAddr::V4(Ipv4Addr::new(b[0], b[1], b[2], b[3]))),
                16 => {
                    let mut a = [0u8; 16];
                    a.copy_from_slice(&b);
                    Some(IpAddr::V6(Ipv6Addr::from(a)))
                }
                _ => None,
            }
        }
        _ => None,
    }
}
fn ip_t(a: &IpAddr) -> Term {
    match a {
        IpAddr::V4(a) => Term::tag("ip", vec![Term::bytes(&a.octets())]),
        IpAddr::V6(a) => Term::tag("ip", vec![Term::bytes(&a.octets())]),
    }
}
fn ip_key(a: &IpAddr) -> Vec<u8> {
    match a {
        IpAddr::V4(a) => a.octets().to_vec(),
        IpAddr::V6(a) => a.octets().to_vec(),
    }
}
fn net_of(t: &Term) -> Option<packet::IpNet> {
    match t.tagged("net")? {
        [b, m] => {
            let a = ip_of(&Term::tag("ip", vec![b.clone()]))?;
            Some(packet::IpNet::new(a, u_of(m, 255)? as u8))
        }
        _ => None,
    }
}

fn run_contains(n: &Term, a: &Term) -> Option<String> {
    let net = net_of(n)?;
    let addr = ip_of(a)?;
    Some(Term::tag("ok", vec![Term::boolean(net.contains(&addr))]).to_string())
}

// ------------------------------------------------------------------ hist: configuration

fn fams_of(t: &Term, tag: &str) -> Option<FnvHashMap<Family, u8>> {
    let mut h = FnvHashMap::default();
    for e in t.tagged(tag)? {
        match e.as_list()? {
            [f, m] => {
                h.insert(fam_of(f)?, u_of(m, 255)? as u8);
            }
            _ => return None,
        }
    }
    Some(h)
}
fn pl_of(t: &Term) -> Option<FnvHashMap<Family, u32>> {
    let mut h = FnvHashMap::default();
    for e in t.tagged("pl")? {
        match e.as_list()? {
            [f, m] => {
                h.insert(fam_of(f)?, u_of(m, u32::MAX as u64)? as u32);
            }
            _ => return None,
        }
    }
    Some(h)
}
fn opt_of<'a>(t: &'a Term) -> Option<Option<&'a Term>> {
    if t.as_atom() == Some("none") {
        return Some(None);
    }
    match t.tagged("some")? {
        [x] => Some(Some(x)),
        _ => None,
    }
}
fn gr_cfg_of(t: &Term) -> Option<Option<GrPeerConfig>> {
    match opt_of(t)? {
        None => Some(None),
        Some(x) => match x.as_list()? {
            [tm, n, fams] => Some(Some(GrPeerConfig {
                restart_time: u_of(tm, 65535)? as u16,
                notification_enabled: n.as_bool()?,
                families: fams.as_list()?.iter().map(fam_of).collect::<Option<Vec<_>>>()?,
            })),
            _ => None,
        },
    }
}
fn llgr_cfg_of(t: &Term) -> Option<Option<LlgrPeerConfig>> {
    match opt_of(t)? {
        None => Some(None),
        Some(x) => {
            let mut v = Vec::new();
            for e in x.as_list()? {
                match e.as_list()? {
                    [f, tm] => v.push((fam_of(f)?, u_of(tm, u32::MAX as u64)? as u32)),
                    _ => return None,
                }
            }
            Some(Some(LlgrPeerConfig { families: v }))
        }
    }
}
fn cluster_of(t: &Term) -> Option<Option<Ipv4Addr>> {
    match opt_of(t)? {
        None => Some(None),
        Some(x) => Some(Some(Ipv4Addr::from(u_of(x, u32::MAX as u64)? as u32))),
    }
}

struct GroupCase {
    name: String,
    group: PeerGroup,
}

/// (group name as local_asn hold passive rs rrclient cluster (fams..) (sm..) gr llgr (nets ..))
fn group_of(t: &Term) -> Option<GroupCase> {
    match t.tagged("group")? {
        [name, asn, lasn, hold, passive, rs, rrc, cluster, fams, sm, gr, llgr, nets] => {
            let mut dynamic_peers = Vec::new();
            for n in nets.tagged("nets")? {
                // any length 0..255: the AddDynamicNeighbor handler (IpNet::from_str) decides what is admitted
                dynamic_peers.push(DynamicPeer { prefix: net_of(n)? });
            }
            Some(GroupCase {
                name: name.as_atom()?.to_string(),
                group: PeerGroup {
                    as_number: u_of(asn, u32::MAX as u64)? as u32,
                    dynamic_peers,
                    route_server_client: rs.as_bool()?,
                    holdtime: match opt_of(hold)? {
                        None => None,
                        Some(h) => Some(u_of(h, 65535)?),
                    },
                    local_asn: u_of(lasn, u32::MAX as u64)? as u32,
                    passive: passive.as_bool()?,
                    route_reflector: RouteReflectorConfig {
                        route_reflector_client: rrc.as_bool()?,
                        route_reflector_cluster_id: cluster_of(cluster)?,
                    },
                    multihop_ttl: None,
                    ttl_security: None,
                    auth_password: None,
                    connect_retry_time: None,
                    families: fams_of(fams, "fams")?,
                    send_max: sm_of(sm)?,
                    graceful_restart: gr_cfg_of(gr)?,
                    llgr: llgr_cfg_of(llgr)?,
                },
            })
        }
        _ => None,
    }
}

struct PeerCase {
    params: PeerParams,
    group: Option<String>,
    /// added with the AddPeer request (then `holdtime` is the request's hold_time, 0 = not set)
    api: bool,
}

/// The AddPeer request for a neighbour marked `api`.  None = the case cannot be said with a request
/// (same conditions as `Codec.apiExpressible`: no prefix limits, no GR / LLGR block, a send-max only for
/// configured families, an add-path mode whose send bit says the same as the send-max): an ill-formed case.
/// hold_time and send_max go into the request as they are: validating them is `try_from`'s business.
fn api_peer_of(pc: &PeerCase) -> Option<api::Peer> {
    let p = &pc.params;
    if !p.prefix_limits.is_empty() || p.graceful_restart.is_some() || p.llgr.is_some() {
        return None;
    }
    let mut fams: Vec<(Family, u8)> = p.families.iter().map(|(f, m)| (*f, *m)).collect();
    fams.sort_by_key(|(f, _)| fam_raw(*f));
    for (f, m) in &fams {
        let sm = p.send_max.get(f).copied().unwrap_or(0);
        if *m > 3 || (m & 2 != 0) != (sm > 0) {
            return None;
        }
    }
    if p.send_max.keys().any(|f| !p.families.contains_key(f)) {
        return None;
    }
    let afi_safis = fams
        .iter()
        .map(|(f, m)| api::AfiSafi {
            config: Some(api::AfiSafiConfig {
                family: Some(api::Family {
                    afi: f.afi() as i32,
                    safi: f.safi() as i32,
                }),
                enabled: true,
            }),
            add_paths: Some(api::AddPaths {
                config: Some(api::AddPathsConfig {
                    receive: m & 1 != 0,
                    send_max: p.send_max.get(f).copied().unwrap_or(0).min(u32::MAX as usize) as u32,
                }),
                ..Default::default()
            }),
            ..Default::default()
        })
        .collect();
    Some(api::Peer {
        conf: Some(api::PeerConf {
            neighbor_address: p.remote_addr.to_string(),
            peer_asn: p.expected_remote_asn,
            local_asn: p.local_asn,
            peer_group: pc.group.clone().unwrap_or_default(),
            admin_down: p.admin_down,
            ..Default::default()
        }),
        timers: Some(api::Timers {
            config: Some(api::TimersConfig {
                hold_time: p.holdtime,
                ..Default::default()
            }),
            ..Default::default()
        }),
        transport: Some(api::Transport {
            passive_mode: p.passive,
            remote_port: p.remote_port as u32,
            ..Default::default()
        }),
        route_server: Some(api::RouteServer {
            route_server_client: p.rs_client,
            ..Default::default()
        }),
        route_reflector: Some(api::RouteReflector {
            route_reflector_client: p.route_reflector.route_reflector_client,
            route_reflector_cluster_id: p
                .route_reflector
                .route_reflector_cluster_id
                .map(|a| a.to_string())
                .unwrap_or_default(),
        }),
        apply_policy: p.export_policy.as_ref().map(|(d, names)| api::ApplyPolicy {
            export_policy: Some(api::PolicyAssignment {
                default_action: match d {
                    table::Disposition::Accept => api::RouteAction::Accept as i32,
                    _ => api::RouteAction::Reject as i32,
                },
                policies: names
                    .iter()
                    .map(|n| api::Policy {
                        name: n.clone(),
                        ..Default::default()
                    })
                    .collect(),
                ..Default::default()
            }),
            ..Default::default()
        }),
        afi_safis,
        ..Default::default()
    })
}

/// (peer ip expected local_asn hold passive rs rrclient cluster admin_down (fams..) (sm..) (pl..) gr llgr pol group cfg|api)
fn peer_of(t: &Term) -> Option<PeerCase> {
    match t.tagged("peer")? {
        [ip, exp, lasn, hold, passive, rs, rrc, cluster, down, fams, sm, pl, gr, llgr, pol, group, via] => {
            let api = match via.as_atom()? {
                "api" => true,
                "cfg" => false,
                _ => return None,
            };
            if api {
                // `Codec.apiExpressible`, on the lists as written (before the maps hide repetitions)
                let raw = |t: &Term, tag: &str| -> Option<Vec<(u32, u64)>> {
                    t.tagged(tag)?
                        .iter()
                        .map(|e| match e.as_list()? {
                            [f, n] => Some((fam_raw(fam_of(f)?), n.as_u64()?)),
                            _ => None,
                        })
                        .collect()
                };
                let (rf, rs_) = (raw(fams, "fams")?, raw(sm, "sm")?);
                let distinct = rs_.iter().enumerate().all(|(i, e)| rs_[i + 1..].iter().all(|x| x.0 != e.0));
                let within = rs_.iter().all(|e| rf.iter().any(|f| f.0 == e.0));
                let modes = rf
                    .iter()
                    .all(|f| f.1 <= 3 && ((f.1 & 2 != 0) == rs_.iter().any(|e| e.0 == f.0 && e.1 > 0)));
                if !(distinct && within && modes) {
                    return None;
                }
            }
            // none | (some accept|reject (policy names..))
            let export_policy = match opt_of(pol)? {
                None => None,
                Some(d) => match d.as_list()? {
                    [disp, names] => Some((
                        match disp.as_atom()? {
                            "accept" => table::Disposition::Accept,
                            "reject" => table::Disposition::Reject,
                            _ => return None,
                        },
                        names
                            .as_list()?
                            .iter()
                            .map(|n| n.as_atom().map(|x| x.to_string()))
                            .collect::<Option<Vec<String>>>()?,
                    )),
                    _ => return None,
                },
            };
            Some(PeerCase {
                params: PeerParams {
                    remote_addr: ip_of(ip)?,
                    // nothing listens there: the active-connect retry loop (spawned by the
                    // real code after a disconnect) only ever gets ECONNREFUSED
                    remote_port: 1,
                    expected_remote_asn: u_of(exp, u32::MAX as u64)? as u32,
                    local_asn: u_of(lasn, u32::MAX as u64)? as u32,
                    passive: passive.as_bool()?,
                    rs_client: rs.as_bool()?,
                    route_reflector: RouteReflectorConfig {
                        route_reflector_client: rrc.as_bool()?,
                        route_reflector_cluster_id: cluster_of(cluster)?,
                    },
                    delete_on_disconnected: false,
                    admin_down: down.as_bool()?,
                    state: SessionState::Idle,
                    holdtime: u_of(hold, if api { u32::MAX as u64 } else { 65535 })?,
                    connect_retry_time: PeerParams::DEFAULT_CONNECT_RETRY_TIME,
                    multihop_ttl: None,
                    ttl_security: None,
                    password: None,
                    families: fams_of(fams, "fams")?,
                    send_max: sm_of(sm)?,
                    prefix_limits: pl_of(pl)?,
                    graceful_restart: gr_cfg_of(gr)?,
                    llgr: llgr_cfg_of(llgr)?,
                    bfd_config: None,
                    neighbor_interface: None,
                    bind_interface: None,
                    export_policy,
                },
                group: match opt_of(group)? {
                    None => None,
                    Some(g) => Some(g.as_atom()?.to_string()),
                },
                api,
            })
        }
        _ => None,
    }
}

fn role_t(r: PeerRole) -> Term {
    Term::atom(match r {
        PeerRole::Ebgp => "ebgp",
        PeerRole::Ibgp => "ibgp",
        PeerRole::IbgpRrClient => "rr-client",
        PeerRole::RsClient => "rs-client",
        PeerRole::ConfedEbgp => "confed",
    })
}

fn sorted_pairs<V: Copy + Into<u128>>(h: impl Iterator<Item = (Family, V)>) -> Term {
    let mut v: Vec<(u32, u128)> = h.map(|(f, n)| (fam_raw(f), n.into())).collect();
    v.sort();
    Term::list(
        v.into_iter()
            .map(|(f, n)| Term::list(vec![Term::nat(f), Term::nat(n)]))
            .collect(),
    )
}

fn cluster_t(c: Option<Ipv4Addr>) -> Term {
    Term::opt(c.map(|a| Term::nat(u32::from(a))))
}

/// Resolved configuration of a neighbour as stored in `Global.peers`.
fn peer_cfg_t(p: &Peer, g: &Global) -> Term {
    let send_max = {
        let ctx = p.context.lock().unwrap();
        let arb = ctx.conn_arbiter.lock().unwrap();
        sorted_pairs(arb.fsm().configured_send_max().iter().map(|(f, n)| (*f, *n as u64)))
    };
    let pol = match p.state.export_policy.load_full() {
        None => Term::atom("none"),
        Some(a) => Term::tag(
            "some",
            vec![Term::list(vec![
                Term::atom(match a.disposition {
                    table::Disposition::Accept => "accept",
                    table::Disposition::Reject => "reject",
                    _ => "other",
                }),
                Term::list(a.policies.iter().map(|p| Term::atom(p.name.to_string())).collect()),
            ])],
        ),
    };
    Term::tag(
        "cfg",
        vec![
            Term::nat(p.config.expected_remote_asn),
            Term::nat(p.config.local_asn),
            Term::nat(p.config.holdtime as u128),
            Term::boolean(p.config.passive),
            Term::boolean(p.config.route_server_client),
            Term::boolean(p.config.route_reflector.route_reflector_client),
            cluster_t(p.config.route_reflector.route_reflector_cluster_id),
            Term::boolean(p.config.delete_on_disconnected),
            canon_caps(&p.config.local_cap),
            send_max,
            sorted_pairs(p.config.prefix_limits.iter().map(|(f, n)| (*f, *n))),
            pol,
            role_t(p.peer_role(g)),
        ],
    )
}

fn snapshot(g: &Global) -> Term {
    let mut v: Vec<(Vec<u8>, Term)> = g
        .peers
        .iter()
        .map(|(a, p)| {
            let (sa, sp) = {
                let ctx = p.context.lock().unwrap();
                let arb = ctx.conn_arbiter.lock().unwrap();
                (arb.active_close_tx.is_some(), arb.passive_close_tx.is_some())
            };
            (
                ip_key(a),
                Term::list(vec![
                    ip_t(a),
                    Term::boolean(p.admin_down),
                    Term::boolean(p.config.delete_on_disconnected),
                    Term::boolean(sa),
                    Term::boolean(sp),
                ]),
            )
        })
        .collect();
    v.sort_by(|a, b| (a.0.len(), &a.0).cmp(&(b.0.len(), &b.0)));
    Term::list(v.into_iter().map(|x| x.1).collect())
}

// ------------------------------------------------------------------ hist: sockets

struct Net {
    l4: tokio::net::TcpListener,
    l6: Option<tokio::net::TcpListener>,
}

/// One pair of listening sockets per process: a fresh listener per case would leave every
/// ephemeral port of 127.0.0.1 in TIME_WAIT after a few ten thousand cases.
static LISTENERS: std::sync::OnceLock<(std::net::TcpListener, Option<std::net::TcpListener>)> = std::sync::OnceLock::new();

/// bind(127.0.0.1:0) with real-time retries: when other checks running on the machine have
/// momentarily used up the ephemeral ports (TIME_WAIT), wait instead of failing the case.
fn bind_loopback_retry() -> std::net::TcpListener {
    let t0 = std::time::Instant::now();
    loop {
        match std::net::TcpListener::bind("127.0.0.1:0") {
            Ok(l) => return l,
            Err(e) if t0.elapsed() < std::time::Duration::from_secs(120) => {
                let _ = e;
                std::thread::sleep(std::time::Duration::from_millis(250));
            }
            Err(e) => panic!("bind loopback: {e}"),
        }
    }
}

fn case_net() -> Option<Net> {
    let (l4, l6) = LISTENERS.get_or_init(|| {
        let l4 = bind_loopback_retry();
        l4.set_nonblocking(true).expect("nonblocking");
        let l6 = std::net::TcpListener::bind("[::1]:0").ok();
        if let Some(l) = &l6 {
            l.set_nonblocking(true).expect("nonblocking");
        }
        (l4, l6)
    });
    // register a duplicate of the descriptor with this case's runtime
    let l4 = tokio::net::TcpListener::from_std(l4.try_clone().ok()?).ok()?;
    let l6 = match l6 {
        Some(l) => Some(tokio::net::TcpListener::from_std(l.try_clone().ok()?).ok()?),
        None => None,
    };
    Some(Net { l4, l6 })
}

async fn pair_from(net: &Net, src: IpAddr) -> std::io::Result<(TcpStream, TcpStream)> {
    let (sock, listener) = match src {
        IpAddr::V4(_) => (tokio::net::TcpSocket::new_v4()?, &net.l4),
        IpAddr::V6(_) => (
            tokio::net::TcpSocket::new_v6()?,
            net.l6.as_ref().ok_or_else(|| std::io::Error::other("no ::1"))?,
        ),
    };
    // source ports still in TIME_WAIT may be taken again
    sock.set_reuseaddr(true)?;
    sock.bind(SocketAddr::new(src, 0))?;
    let laddr = listener.local_addr()?;
    let (c, s) = tokio::join!(sock.connect(laddr), listener.accept());
    let c = c?;
    let (s, from) = s?;
    if from.ip() != src || from.port() != c.local_addr()?.port() {
        return Err(std::io::Error::other("accepted a foreign connection"));
    }
    // the remote end goes away with a reset: no TIME_WAIT entry is left behind
    let _ = socket2::SockRef::from(&c).set_linger(Some(std::time::Duration::from_secs(0)));
    Ok((c, s))
}

/// The remote end's view of the connection: BGP messages as they arrive.
struct Remote {
    buf: bytes::BytesMut,
    codec: bgp::PeerCodec,
}

enum Seen {
    Msg(bgp::Message),
    Closed(usize),
    Timeout,
    Bad(&'static str),
}

impl Remote {
    fn new() -> Self {
        Remote {
            buf: bytes::BytesMut::with_capacity(4096),
            codec: bgp::PeerCodec::new(),
        }
    }
    async fn next(&mut self, client: &mut TcpStream, wait: Duration) -> Seen {
        use tokio::io::AsyncReadExt;
        loop {
            match self.codec.try_parse(&mut self.buf) {
                Ok(Some(p)) => {
                    return match bgp::validate_message(p, true) {
                        Ok(it) => match it.into_iter().next() {
                            Some(m) => Seen::Msg(m),
                            None => Seen::Bad("no-message"),
                        },
                        Err(_) => Seen::Bad("invalid-message"),
                    };
                }
                Ok(None) => {}
                Err(_) => return Seen::Bad("unparsable"),
            }
            match tokio::time::timeout(wait, client.read_buf(&mut self.buf)).await {
                Ok(Ok(0)) | Ok(Err(_)) => return Seen::Closed(self.buf.len()),
                Ok(Ok(_)) => {}
                Err(_) => return Seen::Timeout,
            }
        }
    }
}

fn seen_t(s: &Seen) -> Term {
    match s {
        Seen::Msg(bgp::Message::Open(o)) => Term::tag(
            "open",
            vec![
                Term::nat(o.as_number),
                Term::nat(o.holdtime.seconds()),
                Term::nat(o.router_id),
                canon_caps(&o.capability),
            ],
        ),
        Seen::Msg(bgp::Message::Notification(n)) => Term::tag(
            "notif",
            vec![Term::nat(n.notification_code()), Term::nat(n.notification_subcode())],
        ),
        Seen::Msg(bgp::Message::Keepalive) => Term::atom("keepalive"),
        Seen::Msg(bgp::Message::Update(bgp::Update::EndOfRib(_))) => Term::atom("end-of-rib"),
        Seen::Msg(bgp::Message::Update(_)) => Term::atom("update"),
        Seen::Msg(_) => Term::atom("other-message"),
        Seen::Closed(n) => Term::tag("closed", vec![Term::nat(*n as u64)]),
        Seen::Timeout => Term::atom("timeout"),
        Seen::Bad(w) => Term::atom(*w),
    }
}

/// What the remote end sees first on the connection.
async fn read_first_message(client: &mut TcpStream) -> Term {
    seen_t(&Remote::new().next(client, Duration::from_secs(5)).await)
}

async fn send_msg(client: &mut TcpStream, m: &bgp::Message) -> bool {
    use tokio::io::AsyncWriteExt;
    let mut out = bytes::BytesMut::with_capacity(4096);
    bgp::PeerCodec::new().encode_to(m, &mut out).is_ok() && client.write_all(&out).await.is_ok()
}

/// The remote end answers the OPEN with its own (AS `asn`, hold time `hold`, the same capabilities
/// with its own 4-octet AS), then a KEEPALIVE if it is not turned away, waits for the End-of-RIB of
/// the established session and goes away.
async fn remote_dialogue(client: &mut TcpStream, asn: u32, hold: u16) -> Vec<Term> {
    let mut remote = Remote::new();
    let first = remote.next(client, Duration::from_secs(5)).await;
    let mut seen = vec![seen_t(&first)];
    let Seen::Msg(bgp::Message::Open(o)) = first else { return seen };
    let caps: Vec<packet::Capability> = o
        .capability
        .iter()
        .map(|c| match c {
            packet::Capability::FourOctetAsNumber(_) => packet::Capability::FourOctetAsNumber(asn),
            c => c.clone(),
        })
        .collect();
    let Some(ht) = HoldTime::new(hold) else { return seen };
    // from here on the remote end parses with what the two OPENs negotiate
    remote.codec = bgp::PeerCodec::negotiate(&caps, &o.capability);
    if !send_msg(
        client,
        &bgp::Message::Open(bgp::Open {
            as_number: asn,
            holdtime: ht,
            router_id: 0x0202_0202,
            capability: caps,
        }),
    )
    .await
    {
        seen.push(Term::atom("send-failed"));
        return seen;
    }
    let second = remote.next(client, Duration::from_secs(5)).await;
    seen.push(seen_t(&second));
    if !matches!(second, Seen::Msg(bgp::Message::Keepalive)) {
        return seen;
    }
    if !send_msg(client, &bgp::Message::Keepalive).await {
        seen.push(Term::atom("send-failed"));
        return seen;
    }
    // Established: the End-of-RIB markers of the (empty) initial table dump
    let third = remote.next(client, Duration::from_secs(5)).await;
    seen.push(seen_t(&third));
    seen
}

struct Live {
    session: PeerSession,
    client: TcpStream,
}

fn sess_t(s: &PeerSession) -> Term {
    let mut pl: Vec<(u32, u32)> = s.prefix_counters.iter().map(|(f, (m, _))| (fam_raw(*f), *m)).collect();
    pl.sort();
    Term::tag(
        "sess",
        vec![
            role_t(s.export_ctx.role),
            Term::nat(s.export_ctx.local_asn),
            canon_caps(&s.local_cap),
            Term::list(
                pl.into_iter()
                    .map(|(f, m)| Term::list(vec![Term::nat(f), Term::nat(m)]))
                    .collect(),
            ),
            cluster_t(s.cluster_id),
            Term::nat(s.export_ctx.confederation_id),
            Term::boolean(s.is_restarting),
        ],
    )
}

/// Names of the groups with a dynamic prefix containing `a` (sorted).
fn matching_groups(g: &Global, a: &IpAddr) -> Vec<String> {
    let mut v: Vec<String> = g
        .peer_group
        .iter()
        .filter(|(_, pg)| pg.dynamic_peers.iter().any(|d| d.prefix.contains(a)))
        .map(|(n, _)| n.clone())
        .collect();
    v.sort();
    v
}

/// Harness glue for the ambiguous case (several groups match): is the neighbour that the real
/// code created consistent with group `pg` (field by field, capabilities through the real
/// `build_local_cap`)?
fn consistent_with(p: &Peer, pg: &PeerGroup, g: &Global) -> bool {
    let own = if pg.local_asn != 0 { pg.local_asn } else { g.asn };
    let local_asn = match &g.confederation {
        Some(c) if !c.members.contains(&pg.as_number) && pg.as_number != own => c.id,
        _ => own,
    };
    let caps = PeerParams::build_local_cap(
        p.config.remote_addr,
        local_asn,
        &pg.families,
        pg.graceful_restart.as_ref(),
        pg.llgr.as_ref(),
    );
    let sm_ok = {
        let ctx = p.context.lock().unwrap();
        let arb = ctx.conn_arbiter.lock().unwrap();
        *arb.fsm().configured_send_max() == pg.send_max
    };
    p.config.expected_remote_asn == pg.as_number
        && p.config.local_asn == local_asn
        && p.config.holdtime == pg.holdtime.unwrap_or(PeerParams::DEFAULT_HOLD_TIME)
        && p.config.route_server_client == pg.route_server_client
        && p.config.route_reflector.route_reflector_client == pg.route_reflector.route_reflector_client
        && p.config.route_reflector.route_reflector_cluster_id == pg.route_reflector.route_reflector_cluster_id
        && p.config.passive == pg.passive
        && canon_caps(&p.config.local_cap) == canon_caps(&caps)
        && sm_ok
        && p.config.prefix_limits.is_empty()
}

/// loopback source addresses that can be bound offline: 127.x.y.z (z not 0 / 255) and ::1
fn loop_ip_of(t: &Term) -> Option<IpAddr> {
    let a = ip_of(t)?;
    let ok = match a {
        IpAddr::V4(a) => {
            let o = a.octets();
            o[0] == 127 && o[3] != 0 && o[3] != 255
        }
        IpAddr::V6(a) => a == Ipv6Addr::LOCALHOST,
    };
    if ok { Some(a) } else { None }
}

fn role_of(t: &Term) -> Option<Role> {
    match t.as_atom()? {
        "A" => Some(Role::Active),
        "P" => Some(Role::Passive),
        _ => None,
    }
}

async fn run_hist(gt: &Term, groups: &Term, peers: &Term, ops: &Term) -> Option<String> {
    // ---- global
    let (asn, rid, confed) = match gt.tagged("global")? {
        [a, r, c] => (u_of(a, u32::MAX as u64)? as u32, u_of(r, u32::MAX as u64)? as u32, c),
        _ => return None,
    };
    let confed = match opt_of(confed)? {
        None => None,
        Some(c) => match c.as_list()? {
            [id, members] => Some(ConfederationConfig {
                // the configuration loader never installs a confederation with identifier 0
                id: u_of(id, u32::MAX as u64).filter(|x| *x != 0)? as u32,
                members: members
                    .as_list()?
                    .iter()
                    .map(|m| u_of(m, u32::MAX as u64).map(|x| x as u32))
                    .collect::<Option<FnvHashSet<u32>>>()?,
            }),
            _ => return None,
        },
    };
    let groups: Vec<GroupCase> = groups.tagged("groups")?.iter().map(group_of).collect::<Option<_>>()?;
    let peers: Vec<PeerCase> = peers.tagged("peers")?.iter().map(peer_of).collect::<Option<_>>()?;
    let ops = ops.tagged("ops")?;
    // validate ops before touching anything, so that an ill-formed case is (bad-case) on both sides
    for o in ops {
        match o.head()? {
            "connect" => match o.tagged("connect")? {
                [a, r] => {
                    loop_ip_of(a)?;
                    role_of(r)?;
                }
                _ => return None,
            },
            "disc" => match o.tagged("disc")? {
                [s] => {
                    s.as_u64()?;
                }
                _ => return None,
            },
            "discx" => match o.tagged("discx")? {
                [s, a, h] => {
                    s.as_u64()?;
                    u_of(a, u32::MAX as u64)?;
                    let h = u_of(h, 65535)?;
                    if h == 1 || h == 2 {
                        return None;
                    }
                }
                _ => return None,
            },
            h @ ("enable" | "disable" | "delete" | "shutdown" | "reset") => match o.tagged(h)? {
                [a] => {
                    ip_of(a)?;
                }
                _ => return None,
            },
            _ => return None,
        }
    }

    let (active_tx, _active_rx) = mpsc::unbounded_channel::<TcpStream>();
    let (kernel_tx, _kernel_rx) = mpsc::unbounded_channel();
    let (bfd_tx, _bfd_rx) = mpsc::unbounded_channel();
    let mut g = Global::new(kernel_tx, bfd_tx);
    g.asn = asn;
    g.router_id = Ipv4Addr::from(rid);
    g.confederation = confed;
    // the policies a neighbour may name: p1 and p2 exist, anything else does not
    for (name, disp) in [("p1", table::Disposition::Accept), ("p2", table::Disposition::Reject)] {
        let stmt = format!("{name}-stmt");
        g.ptable
            .add_statement(&stmt, Vec::new(), Some(disp), table::Actions::default())
            .ok()?;
        g.ptable.add_policy(name, vec![stmt]).ok()?;
    }
    // groups are installed without their dynamic prefixes; those go through the real handler below
    let mut group_nets: Vec<(String, Vec<packet::IpNet>)> = Vec::new();
    for mut gc in groups {
        let nets: Vec<packet::IpNet> = std::mem::take(&mut gc.group.dynamic_peers).into_iter().map(|d| d.prefix).collect();
        // HashMap::insert: a later group of the same name replaces the earlier one, prefixes included
        group_nets.retain(|(n, _)| *n != gc.name);
        group_nets.push((gc.name.clone(), nets));
        g.peer_group.insert(gc.name, gc.group);
    }
    let global: GlobalHandle = Arc::new(tokio::sync::RwLock::new(g));
    let tables = make_tables();
    let svc = GrpcService::new(
        Arc::new(tokio::sync::Notify::new()),
        active_tx.clone(),
        global.clone(),
        tables.clone(),
    );
    // ---- dynamic prefixes: the real AddDynamicNeighbor handler (IpNet::from_str on the textual prefix)
    let mut nets_added = Vec::new();
    for (name, nets) in group_nets {
        let mut flags = Vec::new();
        for n in nets {
            let ok = svc
                .add_dynamic_neighbor(tonic::Request::new(api::AddDynamicNeighborRequest {
                    dynamic_neighbor: Some(api::DynamicNeighbor {
                        prefix: n.to_string(),
                        peer_group: name.clone(),
                    }),
                }))
                .await
                .is_ok();
            flags.push(Term::boolean(ok));
        }
        nets_added.push(Term::list(flags));
    }
    // ---- configured neighbours: those marked `api` through the real AddPeer handler
    // (PeerParams::try_from(&api::Peer), apply_peer_group, add_peer), the others through the
    // configuration-loading sequence (apply_peer_group, then add_peer) on the parameters themselves
    let mut added = Vec::new();
    for pc in peers {
        if pc.api {
            let api_peer = api_peer_of(&pc)?;
            let ok = svc
                .add_peer(tonic::Request::new(api::AddPeerRequest { peer: Some(api_peer) }))
                .await
                .is_ok();
            added.push(Term::boolean(ok));
        } else {
            let mut g = global.write().await;
            let mut params = pc.params;
            if let Some(pg) = pc.group.as_deref().and_then(|n| g.peer_group.get(n)) {
                params.apply_peer_group(pg);
            }
            added.push(Term::boolean(g.add_peer(params, None).is_ok()));
        }
    }
    let setup = {
        let g = global.read().await;
        let mut v: Vec<(Vec<u8>, Term)> = g
            .peers
            .iter()
            .map(|(a, p)| (ip_key(a), Term::list(vec![ip_t(a), Term::boolean(p.admin_down), peer_cfg_t(p, &g)])))
            .collect();
        v.sort_by(|a, b| (a.0.len(), &a.0).cmp(&(b.0.len(), &b.0)));
        Term::tag(
            "setup",
            vec![Term::list(added), Term::list(nets_added), Term::list(v.into_iter().map(|x| x.1).collect())],
        )
    };
    let Some(net) = case_net() else {
        return Some("(harness-cannot-listen)".into());
    };

    let mut live: Vec<Option<Live>> = Vec::new();
    let mut steps = Vec::new();
    let mut aborted = false;
    for o in ops {
        if aborted {
            steps.push(Term::list(vec![Term::atom("aborted"), Term::list(vec![])]));
            continue;
        }
        let res = match o.head()? {
            "connect" => {
                let [a, r] = o.tagged("connect")? else { return None };
                let addr = ip_of(a)?;
                let role = role_of(r)?;
                let (mut client, server) = match pair_from(&net, addr).await {
                    Ok(p) => p,
                    Err(_) => return Some("(harness-cannot-bind)".into()),
                };
                let (known, cands) = {
                    let g = global.read().await;
                    (g.peers.contains_key(&addr), matching_groups(&g, &addr))
                };
                match accept_connection(&global, &tables, server, role).await {
                    None => {
                        // the stream was dropped: the remote end must see EOF with nothing sent
                        match read_first_message(&mut client).await {
                            Term::List(l) if l.first().and_then(|x| x.as_atom()) == Some("closed") => {
                                Term::tag("reject", vec![l[1].clone()])
                            }
                            other => Term::tag("reject-but", vec![other]),
                        }
                    }
                    Some(session) => {
                        let sid = live.len();
                        let g = global.read().await;
                        let res = if !known && cands.len() > 1 {
                            aborted = true;
                            let ok = g.peers.get(&addr).is_some_and(|p| {
                                cands
                                    .iter()
                                    .any(|n| g.peer_group.get(n).is_some_and(|pg| consistent_with(p, pg, &g)))
                            });
                            Term::tag(
                                "accept-amb",
                                vec![
                                    Term::nat(sid as u64),
                                    Term::list(cands.iter().map(|n| Term::atom(n.clone())).collect()),
                                    Term::boolean(ok),
                                ],
                            )
                        } else {
                            let cfg = match g.peers.get(&addr) {
                                Some(p) => peer_cfg_t(p, &g),
                                None => Term::atom("no-peer"),
                            };
                            Term::tag("accept", vec![Term::nat(sid as u64), sess_t(&session), cfg])
                        };
                        drop(g);
                        live.push(Some(Live { session, client }));
                        res
                    }
                }
            }
            "disc" => {
                let [s] = o.tagged("disc")? else { return None };
                let sid = s.as_u64()? as usize;
                match live.get_mut(sid).and_then(|x| x.take()) {
                    None => Term::atom("no-session"),
                    Some(Live { session, mut client }) => {
                        // The real session task: OPEN exchange start, then the remote end goes away.
                        let run = session.run(global.clone(), active_tx.clone());
                        let script = async move {
                            let first = read_first_message(&mut client).await;
                            drop(client);
                            first
                        };
                        let (done, first) = tokio::join!(tokio::time::timeout(Duration::from_secs(10), run), script);
                        if done.is_err() {
                            Term::tag("disc-timeout", vec![first])
                        } else {
                            Term::tag("disc", vec![first])
                        }
                    }
                }
            }
            "discx" => {
                let [s, a, h] = o.tagged("discx")? else { return None };
                let sid = s.as_u64()? as usize;
                let (asn, hold) = (a.as_u64()? as u32, h.as_u64()? as u16);
                match live.get_mut(sid).and_then(|x| x.take()) {
                    None => Term::atom("no-session"),
                    Some(Live { session, mut client }) => {
                        let run = session.run(global.clone(), active_tx.clone());
                        let script = async move {
                            let seen = remote_dialogue(&mut client, asn, hold).await;
                            drop(client);
                            seen
                        };
                        let (done, seen) = tokio::join!(tokio::time::timeout(Duration::from_secs(10), run), script);
                        if done.is_err() {
                            Term::tag("disc-timeout", seen)
                        } else {
                            Term::tag("disc", seen)
                        }
                    }
                }
            }
            h @ ("enable" | "disable" | "delete" | "shutdown" | "reset") => {
                let [a] = o.tagged(h)? else { return None };
                let address = ip_of(a)?.to_string();
                let ok = match h {
                    "enable" => svc
                        .enable_peer(tonic::Request::new(api::EnablePeerRequest { address }))
                        .await
                        .is_ok(),
                    "disable" => svc
                        .disable_peer(tonic::Request::new(api::DisablePeerRequest {
                            address,
                            ..Default::default()
                        }))
                        .await
                        .is_ok(),
                    "delete" => svc
                        .delete_peer(tonic::Request::new(api::DeletePeerRequest {
                            address,
                            ..Default::default()
                        }))
                        .await
                        .is_ok(),
                    "shutdown" => svc
                        .shutdown_peer(tonic::Request::new(api::ShutdownPeerRequest {
                            address,
                            ..Default::default()
                        }))
                        .await
                        .is_ok(),
                    _ => svc
                        .reset_peer(tonic::Request::new(api::ResetPeerRequest {
                            address,
                            soft: false,
                            ..Default::default()
                        }))
                        .await
                        .is_ok(),
                };
                Term::tag("api", vec![Term::atom(if ok { "ok" } else { "notfound" })])
            }
            _ => return None,
        };
        // after an ambiguous accept the state depends on hash order: not reported
        let snap = if aborted { Term::list(vec![]) } else { snapshot(&*global.read().await) };
        steps.push(Term::list(vec![res, snap]));
    }
    Some(Term::tag("hist", vec![setup, Term::list(steps)]).to_string())
}

// ------------------------------------------------------------------ entry

fn run_case(line: &str) -> String {
    let Some(t) = Term::parse(line) else {
        return "(bad-case)".into();
    };
    let rt = tokio::runtime::Builder::new_current_thread()
        .enable_all()
        .build()
        .expect("runtime");
    let r = match t.head() {
        Some("neg") => match t.tagged("neg") {
            Some([l, r, sm]) => run_neg(&rt, l, r, sm),
            _ => None,
        },
        Some("contains") => match t.tagged("contains") {
            Some([n, a]) => run_contains(n, a),
            _ => None,
        },
        Some("hist") => match t.tagged("hist") {
            Some([g, gs, ps, ops]) => rt.block_on(run_hist(g, gs, ps, ops)),
            _ => None,
        },
        _ => None,
    };
    drop(rt);
    r.unwrap_or_else(|| "(bad-case)".into())
}

#[test]
fn verif_main() {
    let (Ok(prop), Ok(inp), Ok(out)) = (
        std::env::var("VERIF_PROP"),
        std::env::var("VERIF_IN"),
        std::env::var("VERIF_OUT"),
    ) else {
        return; // not invoked by /verif/check
    };
    if prop != "C16" {
        return;
    }
    // keep panics of the code under test out of the log
    std::panic::set_hook(Box::new(|_| {}));
    sexp::run_lines(&inp, &out, |l| {
        let l = l.to_string();
        std::panic::catch_unwind(std::panic::AssertUnwindSafe(move || run_case(&l)))
            .unwrap_or_else(|_| "(panic)".into())
    });
}
