// harness module for C16 (not written yet)
