// C11 at the socket.  A `(wire ...)` case starts the daemon the way `main.rs` does — a TOML configuration
// file is written, read back with `config::read_from_file` and handed to `crate::event::main(conf, false,
// /*graceful-restart*/ true, api_addr)` — and then talks to it over real loopback TCP connections from
// 127.0.0.(2+p), one remote speaker per configured peer.  Nothing of the daemon is called or read from
// inside: every observation is what arrives at the speakers' sockets.
//
//   real code executed: config parsing, `Global::serve` start-up (apply_config, add_peer from the
//     neighbor list, the Restarting-Speaker block: RestartingDeferral::new, start_deferral_families,
//     install), listener, accept_connection, PeerSession::run / session_loop / run_select, the OPEN
//     sent (R-bit of the graceful-restart capability), on_established (initial dump + End-of-RIB
//     scheduling), rx_update -> insert_route, process_effects -> RestartingDeferral ->
//     process_restarting_outputs -> end_deferral_families, the spawned selection-deferral timer task
//     (it elapses in real time), the export path down to the bytes written.
//   the harness's own part: the remote speakers (OPEN / KEEPALIVE / UPDATE / End-of-RIB frames written,
//     frames read and decoded), waiting for quiescence after each step.
//
// Events:  (est p (f..))  speaker p connects and completes the OPEN exchange; its graceful-restart
//                         capability lists the families f.. (none: no GR capability)
//          (eor p f)      speaker p sends the End-of-RIB marker of family f
//          (wd p)         speaker p's connection is closed (a connection is made first if it has none)
//          (ins p f n) / (rm p f n)   speaker p announces / withdraws prefix n of family f
//          timer          wait until the configured selection-deferral time has elapsed since the last est
// Observation: per step, per speaker, the frames that arrived:  (open r|n) (reach f n) (unreach f n)
//          (eor f) (notif c s) eof; KEEPALIVEs are not reported.
#![allow(dead_code)]

use super::*;
use tokio::io::{AsyncReadExt, AsyncWriteExt};

const LOCAL_ASN: u32 = 65001;
fn speaker_asn(p: u64) -> u32 {
    65010 + p as u32
}
const FAM_NAME: [&str; 3] = ["ipv4-unicast", "ipv6-unicast", "ipv4-multicast"];
const FAM_AFI_SAFI: [(u16, u8); 3] = [(1, 1), (2, 1), (1, 2)];

fn frame(ty: u8, body: &[u8]) -> Vec<u8> {
    let mut f = vec![0xffu8; 16];
    f.extend_from_slice(&((19 + body.len()) as u16).to_be_bytes());
    f.push(ty);
    f.extend_from_slice(body);
    f
}

fn open_frame(p: u64, gr_fams: &[u64]) -> Vec<u8> {
    let asn = speaker_asn(p);
    let mut caps: Vec<u8> = Vec::new();
    for (afi, safi) in FAM_AFI_SAFI {
        caps.extend_from_slice(&[1, 4]);
        caps.extend_from_slice(&afi.to_be_bytes());
        caps.extend_from_slice(&[0, safi]);
    }
    caps.extend_from_slice(&[65, 4]);
    caps.extend_from_slice(&asn.to_be_bytes());
    if !gr_fams.is_empty() {
        // graceful restart: restart time 120 s, forwarding state preserved for every family listed
        let mut v: Vec<u8> = vec![0x00, 120];
        for f in gr_fams {
            let (afi, safi) = FAM_AFI_SAFI[*f as usize];
            v.extend_from_slice(&afi.to_be_bytes());
            v.extend_from_slice(&[safi, 0x80]);
        }
        caps.extend_from_slice(&[64, v.len() as u8]);
        caps.extend_from_slice(&v);
    }
    let mut body: Vec<u8> = vec![4];
    body.extend_from_slice(&(asn as u16).to_be_bytes());
    body.extend_from_slice(&240u16.to_be_bytes());
    body.extend_from_slice(&[10, 0, 0, 100 + p as u8]);
    body.push((caps.len() + 2) as u8);
    body.push(2);
    body.push(caps.len() as u8);
    body.extend_from_slice(&caps);
    frame(1, &body)
}

fn prefix_bytes(f: u64, n: u64) -> Vec<u8> {
    if f == 1 {
        // 2001:db8:<n+1>::/48
        vec![48, 0x20, 0x01, 0x0d, 0xb8, 0x00, (n + 1) as u8]
    } else {
        // 10.<n+1>.0.0/16
        vec![16, 10, (n + 1) as u8]
    }
}

fn prefix_idx(f: u64, b: &[u8]) -> Option<u64> {
    (0..MAX_PFX).find(|n| prefix_bytes(f, *n) == b)
}

fn update_body(withdrawn: &[u8], attrs: &[u8], nlri: &[u8]) -> Vec<u8> {
    let mut b: Vec<u8> = Vec::new();
    b.extend_from_slice(&(withdrawn.len() as u16).to_be_bytes());
    b.extend_from_slice(withdrawn);
    b.extend_from_slice(&(attrs.len() as u16).to_be_bytes());
    b.extend_from_slice(attrs);
    b.extend_from_slice(nlri);
    frame(2, &b)
}

fn base_attrs(p: u64) -> Vec<u8> {
    let mut a: Vec<u8> = vec![0x40, 1, 1, 0];
    a.extend_from_slice(&[0x40, 2, 6, 2, 1]);
    a.extend_from_slice(&speaker_asn(p).to_be_bytes());
    a
}

fn announce_frame(p: u64, f: u64, n: u64) -> Vec<u8> {
    let mut a = base_attrs(p);
    let pb = prefix_bytes(f, n);
    if f == 0 {
        a.extend_from_slice(&[0x40, 3, 4, 10, 0, 0, 1 + p as u8]);
        update_body(&[], &a, &pb)
    } else {
        let (afi, safi) = FAM_AFI_SAFI[f as usize];
        let mut v: Vec<u8> = Vec::new();
        v.extend_from_slice(&afi.to_be_bytes());
        v.push(safi);
        if afi == 2 {
            v.push(16);
            v.extend_from_slice(&[0x20, 0x01, 0x0d, 0xb8, 0xff, 0, 0, 0, 0, 0, 0, 0, 0, 0, 0, 1 + p as u8]);
        } else {
            v.push(4);
            v.extend_from_slice(&[10, 0, 0, 1 + p as u8]);
        }
        v.push(0);
        v.extend_from_slice(&pb);
        a.extend_from_slice(&[0x80, 14, v.len() as u8]);
        a.extend_from_slice(&v);
        update_body(&[], &a, &[])
    }
}

fn withdraw_frame(f: u64, n: u64) -> Vec<u8> {
    let pb = prefix_bytes(f, n);
    if f == 0 {
        update_body(&pb, &[], &[])
    } else {
        let (afi, safi) = FAM_AFI_SAFI[f as usize];
        let mut v: Vec<u8> = Vec::new();
        v.extend_from_slice(&afi.to_be_bytes());
        v.push(safi);
        v.extend_from_slice(&pb);
        let mut a: Vec<u8> = vec![0x80, 15, v.len() as u8];
        a.extend_from_slice(&v);
        update_body(&[], &a, &[])
    }
}

fn eor_frame(f: u64) -> Vec<u8> {
    if f == 0 {
        update_body(&[], &[], &[])
    } else {
        let (afi, safi) = FAM_AFI_SAFI[f as usize];
        let mut a: Vec<u8> = vec![0x80, 15, 3];
        a.extend_from_slice(&afi.to_be_bytes());
        a.push(safi);
        update_body(&[], &a, &[])
    }
}

fn fam_of_afi_safi(afi: u16, safi: u8) -> Option<u64> {
    FAM_AFI_SAFI.iter().position(|x| *x == (afi, safi)).map(|i| i as u64)
}

/// prefixes of an NLRI field (no path ids: Add-Path is not negotiated)
fn split_prefixes(mut b: &[u8]) -> Option<Vec<Vec<u8>>> {
    let mut out = Vec::new();
    while !b.is_empty() {
        let bits = b[0] as usize;
        let n = 1 + bits.div_ceil(8);
        if b.len() < n {
            return None;
        }
        out.push(b[..n].to_vec());
        b = &b[n..];
    }
    Some(out)
}

/// What one UPDATE frame tells the speaker.
fn decode_update(body: &[u8]) -> Option<Vec<Term>> {
    let mut out = Vec::new();
    if body.len() < 4 {
        return None;
    }
    let wl = u16::from_be_bytes([body[0], body[1]]) as usize;
    if body.len() < 2 + wl + 2 {
        return None;
    }
    let withdrawn = &body[2..2 + wl];
    let al = u16::from_be_bytes([body[2 + wl], body[3 + wl]]) as usize;
    if body.len() < 4 + wl + al {
        return None;
    }
    let mut attrs = &body[4 + wl..4 + wl + al];
    let nlri = &body[4 + wl + al..];
    if wl == 0 && al == 0 && nlri.is_empty() {
        return Some(vec![Term::tag("eor", vec![Term::nat(0u64)])]);
    }
    let pfx_t = |kind: &str, f: u64, b: &[u8]| -> Term {
        match prefix_idx(f, b) {
            Some(n) => Term::tag(kind, vec![Term::nat(f), Term::nat(n)]),
            None => Term::tag(kind, vec![Term::nat(f), Term::atom("other")]),
        }
    };
    for p in split_prefixes(withdrawn)? {
        out.push(pfx_t("unreach", 0, &p));
    }
    let mut n_attrs = 0;
    while !attrs.is_empty() {
        if attrs.len() < 3 {
            return None;
        }
        let flags = attrs[0];
        let ty = attrs[1];
        let (len, hdr) = if flags & 0x10 != 0 {
            if attrs.len() < 4 {
                return None;
            }
            (u16::from_be_bytes([attrs[2], attrs[3]]) as usize, 4)
        } else {
            (attrs[2] as usize, 3)
        };
        if attrs.len() < hdr + len {
            return None;
        }
        let v = &attrs[hdr..hdr + len];
        n_attrs += 1;
        if ty == 14 {
            if v.len() < 5 {
                return None;
            }
            let afi = u16::from_be_bytes([v[0], v[1]]);
            let safi = v[2];
            let nhl = v[3] as usize;
            if v.len() < 5 + nhl {
                return None;
            }
            let rest = &v[4 + nhl + 1..];
            match fam_of_afi_safi(afi, safi) {
                Some(f) => {
                    for p in split_prefixes(rest)? {
                        out.push(pfx_t("reach", f, &p));
                    }
                }
                None => out.push(Term::atom("reach-other-family")),
            }
        } else if ty == 15 {
            if v.len() < 3 {
                return None;
            }
            let afi = u16::from_be_bytes([v[0], v[1]]);
            let safi = v[2];
            match fam_of_afi_safi(afi, safi) {
                Some(f) => {
                    if v.len() == 3 && al == hdr + len && wl == 0 && nlri.is_empty() {
                        out.push(Term::tag("eor", vec![Term::nat(f)]));
                    } else {
                        for p in split_prefixes(&v[3..])? {
                            out.push(pfx_t("unreach", f, &p));
                        }
                    }
                }
                None => out.push(Term::atom("unreach-other-family")),
            }
        }
        attrs = &attrs[hdr + len..];
    }
    let _ = n_attrs;
    for p in split_prefixes(nlri)? {
        out.push(pfx_t("reach", 0, &p));
    }
    Some(out)
}

/// Does the OPEN carry the graceful-restart capability with the Restart State bit?
fn open_rbit(body: &[u8]) -> Option<bool> {
    if body.len() < 10 {
        return None;
    }
    let optlen = body[9] as usize;
    let mut opt = body.get(10..10 + optlen)?;
    while opt.len() >= 2 {
        let (pt, pl) = (opt[0], opt[1] as usize);
        let pv = opt.get(2..2 + pl)?;
        if pt == 2 {
            let mut c = pv;
            while c.len() >= 2 {
                let (code, cl) = (c[0], c[1] as usize);
                let cv = c.get(2..2 + cl)?;
                if code == 64 && cl >= 2 {
                    return Some(cv[0] & 0x80 != 0);
                }
                c = &c[2 + cl..];
            }
        }
        opt = &opt[2 + pl..];
    }
    Some(false)
}

struct Speaker {
    stream: Option<TcpStream>,
    buf: Vec<u8>,
    eof_reported: bool,
}

impl Speaker {
    /// complete frames received so far, decoded; KEEPALIVEs dropped
    fn take(&mut self) -> (Vec<Term>, usize) {
        let mut out = Vec::new();
        let mut pos = 0;
        let mut keepalives = 0;
        let buf = &self.buf;
        while buf.len() >= pos + 19 {
            let len = u16::from_be_bytes([buf[pos + 16], buf[pos + 17]]) as usize;
            if len < 19 || buf.len() < pos + len {
                break;
            }
            let body = &buf[pos + 19..pos + len];
            match buf[pos + 18] {
                1 => out.push(Term::tag(
                    "open",
                    vec![Term::atom(match open_rbit(body) {
                        Some(true) => "r",
                        Some(false) => "n",
                        None => "malformed",
                    })],
                )),
                2 => match decode_update(body) {
                    Some(v) => out.extend(v),
                    None => out.push(Term::atom("update-malformed")),
                },
                3 => {
                    let (c, s) = if body.len() >= 2 { (body[0], body[1]) } else { (0, 0) };
                    out.push(Term::tag("notif", vec![Term::nat(c as u64), Term::nat(s as u64)]));
                }
                4 => keepalives += 1,
                _ => out.push(Term::atom("other-message")),
            }
            pos += len;
        }
        self.buf.drain(..pos);
        (out, keepalives)
    }
}

struct Wire {
    port: u16,
    speakers: Vec<Speaker>,
    /// frames per speaker of the current step
    step_rx: Vec<Vec<Term>>,
    keepalives: Vec<usize>,
}

/// Quiescence is counted in scheduler turns, not in wall-clock time: everything (the daemon's tasks and
/// the speakers) runs on this one thread, and every turn lets all ready tasks run; a loaded machine
/// stretches the turns but does not lose any.
const QUIET_TURNS: usize = 16;

impl Wire {
    /// read whatever is there from every speaker until nothing has arrived for QUIET_TURNS turns
    async fn settle(&mut self) {
        let mut quiet = 0usize;
        let hard = tokio::time::Instant::now() + Duration::from_secs(30);
        loop {
            let mut got = false;
            for (i, sp) in self.speakers.iter_mut().enumerate() {
                let mut closed = false;
                if let Some(st) = sp.stream.as_mut() {
                    let mut tmp = [0u8; 16384];
                    loop {
                        match st.try_read(&mut tmp) {
                            Ok(0) => {
                                closed = true;
                                break;
                            }
                            Ok(n) => {
                                sp.buf.extend_from_slice(&tmp[..n]);
                                got = true;
                            }
                            Err(e) if e.kind() == std::io::ErrorKind::WouldBlock => break,
                            Err(_) => {
                                closed = true;
                                break;
                            }
                        }
                    }
                }
                let (fr, ka) = sp.take();
                self.step_rx[i].extend(fr);
                self.keepalives[i] += ka;
                if closed {
                    sp.stream = None;
                    if !sp.eof_reported {
                        sp.eof_reported = true;
                        self.step_rx[i].push(Term::atom("eof"));
                        got = true;
                    }
                }
            }
            if got {
                quiet = 0;
            } else {
                quiet += 1;
            }
            if quiet >= QUIET_TURNS || tokio::time::Instant::now() >= hard {
                return;
            }
            tokio::time::sleep(Duration::from_millis(2)).await;
        }
    }

    /// (tried for up to two minutes: the box may be out of ephemeral ports for a while)
    async fn connect(&mut self, p: u64) -> bool {
        for k in 0..120u64 {
            if self.connect_once(p).await {
                return true;
            }
            tokio::time::sleep(Duration::from_millis(200 + 20 * k.min(40))).await;
        }
        false
    }

    async fn connect_once(&mut self, p: u64) -> bool {
        let sock = match tokio::net::TcpSocket::new_v4() {
            Ok(s) => s,
            Err(_) => return false,
        };
        let _ = sock.set_reuseaddr(true);
        if sock.bind(SocketAddr::new(peer_addr(p), 0)).is_err() {
            return false;
        }
        let to = SocketAddr::new(IpAddr::V4(Ipv4Addr::LOCALHOST), self.port);
        match tokio::time::timeout(Duration::from_secs(20), sock.connect(to)).await {
            Ok(Ok(st)) => {
                let _ = st.set_nodelay(true);
                self.speakers[p as usize] = Speaker {
                    stream: Some(st),
                    buf: Vec::new(),
                    eof_reported: false,
                };
                true
            }
            _ => false,
        }
    }

    async fn send(&mut self, p: u64, bytes: &[u8]) -> bool {
        match self.speakers[p as usize].stream.as_mut() {
            Some(st) => st.write_all(bytes).await.is_ok(),
            None => false,
        }
    }

    /// wait until the speaker has received `want` more KEEPALIVEs / an OPEN (handshake progress)
    async fn await_progress(&mut self, p: u64, pred: impl Fn(&Wire) -> bool) -> bool {
        let hard = tokio::time::Instant::now() + Duration::from_secs(30);
        loop {
            self.settle().await;
            if pred(self) {
                return true;
            }
            if self.speakers[p as usize].stream.is_none() || tokio::time::Instant::now() >= hard {
                return false;
            }
        }
    }
}

fn toml_config(case: &WCase, port: u16, dur: Option<f64>) -> String {
    let mut s = String::new();
    s.push_str("[global.config]\n");
    s.push_str(&format!("as = {LOCAL_ASN}\nrouter-id = \"1.0.0.1\"\nport = {port}\n"));
    s.push_str("local-address-list = [\"127.0.0.1\"]\n");
    s.push_str("[global.graceful-restart.config]\nenabled = true\n");
    if let Some(d) = dur {
        s.push_str(&format!("stale-routes-time = {d:?}\n"));
    }
    // the last entry of a peer counts (as in the other C11 stream)
    let mut cfg: FnvHashMap<u64, Vec<u64>> = FnvHashMap::default();
    for (p, fs) in &case.peers {
        cfg.insert(*p, fs.clone());
    }
    for p in 0..MAX_PEER {
        let gr = cfg.get(&p).cloned().unwrap_or_default();
        s.push_str("[[neighbors]]\n[neighbors.config]\n");
        s.push_str(&format!(
            "neighbor-address = \"{}\"\npeer-as = {}\n",
            peer_addr(p),
            speaker_asn(p)
        ));
        s.push_str("[neighbors.transport.config]\npassive-mode = true\n");
        if !gr.is_empty() {
            s.push_str("[neighbors.graceful-restart.config]\nenabled = true\nrestart-time = 120\n");
        }
        for f in 0..MAX_FAM {
            s.push_str("[[neighbors.afi-safis]]\n[neighbors.afi-safis.config]\n");
            s.push_str(&format!("afi-safi-name = \"{}\"\n", FAM_NAME[f as usize]));
            if gr.contains(&f) {
                s.push_str("[neighbors.afi-safis.mp-graceful-restart.config]\nenabled = true\n");
            }
        }
    }
    s
}

pub(super) struct WCase {
    peers: Vec<(u64, Vec<u64>)>,
    dur: Option<u64>,
    evs: Vec<Ev>,
}

pub(super) fn wcase_of(t: &Term) -> Option<WCase> {
    let l = t.as_list()?;
    if l.len() != 4 || l[0].as_atom()? != "wire" {
        return None;
    }
    // same shape as a `(case ...)`
    let mut l2 = l.to_vec();
    l2[0] = Term::atom("case");
    let c = case_of(&Term::list(l2))?;
    // only the events a remote speaker can cause; est only for a speaker that is not up, routes only
    // from one that is
    let mut up = [false; MAX_PEER as usize];
    for e in &c.evs {
        match e {
            Ev::Est(p, _) => {
                if up[*p as usize] {
                    return None;
                }
                up[*p as usize] = true;
            }
            Ev::Wd(p) => up[*p as usize] = false,
            Ev::Eor(p, _) | Ev::Ins(p, _, _) | Ev::Rm(p, _, _) => {
                if !up[*p as usize] {
                    return None;
                }
            }
            Ev::Timer => {}
            _ => return None,
        }
    }
    // the timer elapses in real time: a case that waits for it names a short time, a case that does not
    // names one that cannot elapse while it runs (or none / 0 = disabled)
    let has_timer = c.evs.iter().any(|e| matches!(e, Ev::Timer));
    if has_timer && !matches!(c.dur, Some(1..=5)) {
        return None;
    }
    if !has_timer && matches!(c.dur, Some(1..=119)) {
        return None;
    }
    Some(WCase {
        peers: c.peers,
        dur: c.dur,
        evs: c.evs,
    })
}

static WIRE_SEQ: std::sync::atomic::AtomicU64 = std::sync::atomic::AtomicU64::new(0);

/// A slow or busy machine (other checks running, ports in TIME_WAIT, the port picked for the daemon taken
/// by somebody else in between) must never turn into a wrong observation or a panic: the case is tried
/// again, and if the environment still does not allow it, it is reported as `(wire-inconclusive why)`,
/// which the checker accepts.  What the daemon itself sends or fails to send is never hidden this way:
/// only failures to set up (port, listener, TCP connect) and the overall time limit are.
pub(super) async fn run_wire(case: WCase) -> String {
    let mut why = "setup";
    for attempt in 0..4 {
        if attempt > 0 {
            tokio::time::sleep(Duration::from_millis(500 * attempt)).await;
        }
        match tokio::time::timeout(Duration::from_secs(400), run_wire_inner(&case)).await {
            Ok(s) if s.starts_with("(wire-setup-failed") => {
                why = "setup";
                continue;
            }
            Ok(s) => return s,
            Err(_) => {
                why = "timeout";
                continue;
            }
        }
    }
    eprintln!("verif harness: wire case inconclusive ({why})");
    format!("(wire-inconclusive {why})")
}

/// (the daemon takes its BGP port from the configuration file and refuses 0, so a free one is probed for;
///  when the box is out of ephemeral ports — AddrInUse — this waits up to two minutes)
async fn free_port() -> Option<u16> {
    for k in 0..240u64 {
        if let Ok(l) = tokio::net::TcpListener::bind("127.0.0.1:0").await
            && let Ok(a) = l.local_addr()
        {
            return Some(a.port());
        }
        tokio::time::sleep(Duration::from_millis(100 + 10 * k.min(90))).await;
    }
    None
}

async fn run_wire_inner(case: &WCase) -> String {
    // ---- the daemon, started as main.rs starts it ----
    let (Some(port), Some(api_port)) = (free_port().await, free_port().await) else {
        return "(wire-setup-failed port)".into();
    };
    let seq = WIRE_SEQ.fetch_add(1, std::sync::atomic::Ordering::Relaxed);
    let path = std::env::temp_dir().join(format!("b-gr-c11w-{}-{}.toml", std::process::id(), seq));
    let dur = case.dur.map(|d| d as f64);
    if std::fs::write(&path, toml_config(case, port, dur)).is_err() {
        return "(wire-setup-failed write)".into();
    }
    let conf = config::read_from_file(&path);
    let _ = std::fs::remove_file(&path);
    let conf: config::BgpConfig = match conf {
        Ok(c) => c,
        Err(e) => return format!("(wire-setup-failed config {:?})", e.to_string()),
    };
    let api = SocketAddr::new(IpAddr::V4(Ipv4Addr::LOCALHOST), api_port);
    let daemon = tokio::spawn(crate::event::main(Some(conf), false, true, api));

    let mut w = Wire {
        port,
        speakers: (0..MAX_PEER)
            .map(|_| Speaker {
                stream: None,
                buf: Vec::new(),
                eof_reported: true,
            })
            .collect(),
        step_rx: (0..MAX_PEER).map(|_| Vec::new()).collect(),
        keepalives: vec![0; MAX_PEER as usize],
    };
    // wait for the listener
    {
        let hard = tokio::time::Instant::now() + Duration::from_secs(20);
        loop {
            if let Ok(Ok(_)) = tokio::time::timeout(
                Duration::from_millis(500),
                TcpStream::connect(SocketAddr::new(IpAddr::V4(Ipv4Addr::LOCALHOST), port)),
            )
            .await
            {
                // (a connection from 127.0.0.1 is not a configured peer: it is refused and closed)
                break;
            }
            if tokio::time::Instant::now() >= hard {
                daemon.abort();
                return "(wire-setup-failed listen)".into();
            }
            tokio::time::sleep(Duration::from_millis(10)).await;
        }
    }

    let mut steps: Vec<Term> = Vec::new();
    let mut last_est = tokio::time::Instant::now();
    let mut first_est: Option<tokio::time::Instant> = None;
    let timer_at = case.evs.iter().position(|e| matches!(e, Ev::Timer));
    for (k, ev) in case.evs.iter().enumerate() {
        let mut note: Option<&'static str> = None;
        // The selection-deferral timer runs in real time from the first establishment on.  If it could
        // already have fired although the case has not reached its `timer` event, the trace says nothing.
        if let (Some(t0), Some(at), Some(d)) = (first_est, timer_at, case.dur) {
            if k < at && tokio::time::Instant::now() + Duration::from_millis(300) > t0 + Duration::from_secs(d) {
                daemon.abort();
                return "(wire-inconclusive timer-race)".into();
            }
        }
        match ev {
            Ev::Est(p, fs) => {
                if first_est.is_none() {
                    first_est = Some(tokio::time::Instant::now());
                }
                let mut gr: Vec<u64> = Vec::new();
                for f in fs {
                    if !gr.contains(f) {
                        gr.push(*f);
                    }
                }
                if !w.connect(*p).await {
                    daemon.abort();
                    return "(wire-setup-failed connect)".into();
                } else {
                    let ka0 = w.keepalives[*p as usize];
                    w.send(*p, &open_frame(*p, &gr)).await;
                    // the daemon's OPEN, then its KEEPALIVE
                    let pp = *p as usize;
                    let got_open = w
                        .await_progress(*p, |w| {
                            w.step_rx[pp].iter().any(|t| t.head() == Some("open"))
                        })
                        .await;
                    if got_open {
                        w.send(*p, &frame(4, &[])).await;
                        let ok = w.await_progress(*p, |w| w.keepalives[pp] > ka0).await;
                        if !ok {
                            note = Some("no-keepalive");
                        }
                    } else {
                        note = Some("no-open");
                    }
                    last_est = tokio::time::Instant::now();
                }
            }
            Ev::Eor(p, f) => {
                if !w.send(*p, &eor_frame(*f)).await {
                    note = Some("not-connected");
                }
            }
            Ev::Wd(p) => {
                if w.speakers[*p as usize].stream.is_none() {
                    // a connection that ends before it is established
                    if !w.connect(*p).await {
                        daemon.abort();
                        return "(wire-setup-failed connect)".into();
                    }
                }
                let sp = &mut w.speakers[*p as usize];
                sp.stream = None; // close
                sp.eof_reported = true;
                sp.buf.clear();
                // the daemon's session task notices the close and runs to its end
                for _ in 0..QUIET_TURNS {
                    tokio::time::sleep(Duration::from_millis(2)).await;
                }
            }
            Ev::Ins(p, f, n) => {
                if !w.send(*p, &announce_frame(*p, *f, *n)).await {
                    note = Some("not-connected");
                }
            }
            Ev::Rm(p, f, n) => {
                if !w.send(*p, &withdraw_frame(*f, *n)).await {
                    note = Some("not-connected");
                }
            }
            Ev::Timer => {
                let d = Duration::from_secs(case.dur.unwrap_or(1)) + Duration::from_millis(250);
                tokio::time::sleep_until(last_est + d).await;
            }
            _ => unreachable!(),
        }
        w.settle().await;
        let mut items: Vec<Term> = Vec::new();
        for p in 0..MAX_PEER as usize {
            let fr = std::mem::take(&mut w.step_rx[p]);
            if !fr.is_empty() {
                let mut v = vec![Term::nat(p as u64)];
                v.extend(fr);
                items.push(Term::tag("rx", v));
            }
        }
        if let Some(n) = note {
            items.push(Term::atom(n));
        }
        steps.push(Term::list(items));
    }
    daemon.abort();
    Term::tag("wire-trace", steps).to_string()
}
