// Verification harness for C07/C08, compiled into rustybgpd's unit-test binary
// only with `--cfg osrg_rustybgp_verif` (see MANIFEST.hooks).  Child module of
// `crate::fsm`, so it reaches the private `Connection`/`PeerFsm` internals.
//
// Reads case lines (lean/Rbgp/Fsm/Codec.lean syntax) from $VERIF_IN, drives the
// real `PeerFsm`, writes one observation line per case to $VERIF_OUT.
#![allow(dead_code)]

use super::*;

#[path = "/verif/harness/common/sexp.rs"]
mod sexp;
use sexp::Term;

fn state_t(s: State) -> Term {
    Term::atom(match s {
        State::Idle => "idle",
        State::Connect => "connect",
        State::Active => "active",
        State::OpenSent => "opensent",
        State::OpenConfirm => "openconfirm",
        State::Established => "established",
    })
}

fn role_t(r: Role) -> Term {
    Term::atom(match r {
        Role::Active => "A",
        Role::Passive => "P",
    })
}

fn notif_pair(n: &rustybgp_packet::Notification) -> Term {
    Term::list(vec![
        Term::nat(n.notification_code()),
        Term::nat(n.notification_subcode()),
    ])
}

fn msg_notif(m: &bgp::Message) -> Term {
    match m {
        bgp::Message::Notification(n) => notif_pair(n),
        _ => Term::atom("not-a-notification"),
    }
}

fn reason_t(r: &SessionDownReason) -> Term {
    match r {
        SessionDownReason::HoldTimerExpired => Term::atom("hold-expired"),
        SessionDownReason::RemoteNotification(m) => Term::tag("remote-notif", vec![msg_notif(m)]),
        SessionDownReason::LocalNotification(m) => Term::tag("local-notif", vec![msg_notif(m)]),
        SessionDownReason::FsmError => Term::atom("fsm-error"),
        SessionDownReason::AdminShutdown => Term::atom("admin-shutdown"),
        SessionDownReason::IoError => Term::atom("io-error"),
    }
}

fn out_t(o: &Output) -> Term {
    match o {
        Output::SendMessage(bgp::Message::Open(op)) => Term::tag(
            "send-open",
            vec![
                Term::nat(op.as_number),
                Term::nat(op.holdtime.seconds()),
                Term::nat(op.router_id),
            ],
        ),
        Output::SendMessage(bgp::Message::Keepalive) => Term::atom("send-keepalive"),
        Output::SendMessage(bgp::Message::Notification(n)) => {
            Term::tag("send-notif", vec![notif_pair(n)])
        }
        Output::SendMessage(_) => Term::atom("send-other"),
        Output::SetKeepaliveTimer(n) => Term::tag("set-ka", vec![Term::nat(*n)]),
        Output::SetHoldTimer(n) => Term::tag("set-hold", vec![Term::nat(*n)]),
        Output::SessionNegotiated(_) => Term::atom("negotiated"),
        Output::SessionEstablished {
            remote_asn,
            remote_id,
            remote_holdtime,
            ..
        } => Term::tag(
            "established",
            vec![
                Term::nat(*remote_asn),
                Term::nat(*remote_id),
                Term::nat(*remote_holdtime),
            ],
        ),
        Output::SessionDown(r, n) => Term::tag(
            "down",
            vec![reason_t(r), Term::opt(n.as_ref().map(msg_notif))],
        ),
        Output::StateChanged(s) => Term::tag("state", vec![state_t(*s)]),
        Output::RouteRefresh(f) => Term::tag("route-refresh", vec![Term::nat(family_code(*f))]),
    }
}

fn pout_t(o: &PeerFsmOutput) -> Term {
    match o {
        PeerFsmOutput::Connection(r, o) => Term::tag("conn", vec![role_t(*r), out_t(o)]),
        PeerFsmOutput::CloseConnection => Term::atom("close-connection"),
        PeerFsmOutput::StopActiveConnect => Term::atom("stop-active-connect"),
    }
}

fn family_code(f: Family) -> u32 {
    if f == Family::IPV4 {
        1
    } else if f == Family::IPV6 {
        2
    } else {
        3
    }
}
fn family_of(n: u64) -> Family {
    match n {
        1 => Family::IPV4,
        2 => Family::IPV6,
        _ => Family::IPV4_VPN,
    }
}

/// An OPEN frame as a remote speaker would put it on the wire.
fn open_frame(asn: u32, hold: u16, rid: u32) -> Vec<u8> {
    let as2: u16 = if asn > 65535 { 23456 } else { asn as u16 };
    open_frame_wire(as2, Some(asn), hold, rid)
}

/// OPEN with an explicit 2-octet My-AS field and an optional 4-octet-AS capability
/// (the two may disagree: RFC 6793 says the capability counts only when My-AS is AS_TRANS).
fn open_frame_wire(as2: u16, cap4: Option<u32>, hold: u16, rid: u32) -> Vec<u8> {
    let mut caps: Vec<u8> = Vec::new();
    // MP IPv4 unicast
    caps.extend_from_slice(&[1, 4, 0, 1, 0, 1]);
    // 4-octet AS
    if let Some(asn) = cap4 {
        caps.extend_from_slice(&[65, 4]);
        caps.extend_from_slice(&asn.to_be_bytes());
    }
    let mut body: Vec<u8> = Vec::new();
    body.push(4);
    body.extend_from_slice(&as2.to_be_bytes());
    body.extend_from_slice(&hold.to_be_bytes());
    body.extend_from_slice(&rid.to_be_bytes());
    body.push((caps.len() + 2) as u8);
    body.push(2);
    body.push(caps.len() as u8);
    body.extend_from_slice(&caps);
    let mut f = vec![0xffu8; 16];
    f.extend_from_slice(&((19 + body.len()) as u16).to_be_bytes());
    f.push(1);
    f.extend_from_slice(&body);
    f
}

pub(crate) enum Ev {
    Input(Input),
    RawOpen(Vec<u8>),
    Wait(u64),
    Bad,
}

pub(crate) fn parse_ev(t: &Term) -> Ev {
    let n = |t: &Term| t.as_u64();
    match t.head() {
        Some("connected") => match t.tagged("connected") {
            Some([b]) => b.as_bool().map(|b| Ev::Input(Input::Connected(b))).unwrap_or(Ev::Bad),
            _ => Ev::Bad,
        },
        Some("open-parsed") => match t.tagged("open-parsed") {
            Some([a, h, r]) => match (n(a), n(h), n(r)) {
                (Some(a), Some(h), Some(r)) if a <= u32::MAX as u64 && h <= 65535 && r <= u32::MAX as u64 => {
                    match HoldTime::new(h as u16) {
                        Some(ht) => Ev::Input(Input::MessageReceived(bgp::Message::Open(bgp::Open {
                            as_number: a as u32,
                            holdtime: ht,
                            router_id: r as u32,
                            capability: vec![
                                Capability::MultiProtocol(Family::IPV4),
                                Capability::FourOctetAsNumber(a as u32),
                            ],
                        }))),
                        None => Ev::Bad,
                    }
                }
                _ => Ev::Bad,
            },
            _ => Ev::Bad,
        },
        Some("open") => match t.tagged("open") {
            Some([a, h, r]) => match (n(a), n(h), n(r)) {
                (Some(a), Some(h), Some(r)) if a <= u32::MAX as u64 && h <= 65535 && r <= u32::MAX as u64 => {
                    Ev::RawOpen(open_frame(a as u32, h as u16, r as u32))
                }
                _ => Ev::Bad,
            },
            _ => Ev::Bad,
        },
        Some("open-wire") => match t.tagged("open-wire") {
            Some([a2, c4, h, r]) => {
                let cap4 = match c4.as_atom() {
                    Some("none") => Some(None),
                    _ => n(c4).filter(|v| *v <= u32::MAX as u64).map(|v| Some(v as u32)),
                };
                match (n(a2), cap4, n(h), n(r)) {
                    (Some(a2), Some(cap4), Some(h), Some(r)) if a2 <= 65535 && h <= 65535 && r <= u32::MAX as u64 => {
                        Ev::RawOpen(open_frame_wire(a2 as u16, cap4, h as u16, r as u32))
                    }
                    _ => Ev::Bad,
                }
            }
            _ => Ev::Bad,
        },
        Some("keepalive") => Ev::Input(Input::MessageReceived(bgp::Message::Keepalive)),
        Some("update") => Ev::Input(Input::MessageReceived(bgp::Message::Update(
            bgp::Update::EndOfRib(Family::IPV4),
        ))),
        Some("notification") => match t.tagged("notification") {
            Some([c, s]) => match (n(c), n(s)) {
                (Some(c), Some(s)) if c < 256 && s < 256 => Ev::Input(Input::MessageReceived(
                    bgp::Message::Notification(rustybgp_packet::Notification::from_notification(
                        c as u8,
                        s as u8,
                        vec![],
                    )),
                )),
                _ => Ev::Bad,
            },
            _ => Ev::Bad,
        },
        Some("route-refresh") => match t.tagged("route-refresh") {
            Some([f]) => match n(f) {
                Some(f) if (1..=3).contains(&f) => Ev::Input(Input::MessageReceived(bgp::Message::RouteRefresh {
                    family: family_of(f),
                })),
                _ => Ev::Bad,
            },
            _ => Ev::Bad,
        },
        Some("ka-timer") => Ev::Input(Input::KeepaliveTimerExpired),
        Some("hold-timer") => Ev::Input(Input::HoldTimerExpired),
        Some("disconnected") => Ev::Input(Input::Disconnected),
        Some("admin-shutdown") => Ev::Input(Input::AdminShutdown),
        Some("update-sent") => Ev::Input(Input::UpdateSent),
        Some("wait") => match t.tagged("wait") {
            Some([d]) => n(d).map(Ev::Wait).unwrap_or(Ev::Bad),
            _ => Ev::Bad,
        },
        _ => Ev::Bad,
    }
}

pub(crate) fn parse_role(t: &Term) -> Option<Role> {
    match t.as_atom()? {
        "A" => Some(Role::Active),
        "P" => Some(Role::Passive),
        _ => None,
    }
}

pub(crate) struct Cfg {
    pub rid: u32,
    pub asn: u32,
    pub hold: u64,
    pub expected: u32,
}

pub(crate) fn parse_cfg(t: &Term) -> Option<Cfg> {
    match t.tagged("cfg")? {
        [a, b, c, d] => {
            let (a, b, c, d) = (a.as_u64()?, b.as_u64()?, c.as_u64()?, d.as_u64()?);
            if a > u32::MAX as u64 || b > u32::MAX as u64 || d > u32::MAX as u64 {
                return None;
            }
            Some(Cfg {
                rid: a as u32,
                asn: b as u32,
                hold: c,
                expected: d as u32,
            })
        }
        _ => None,
    }
}

pub(crate) fn new_fsm(cfg: &Cfg) -> PeerFsm {
    PeerFsm::new(
        cfg.rid,
        cfg.asn,
        vec![
            Capability::MultiProtocol(Family::IPV4),
            Capability::FourOctetAsNumber(cfg.asn),
        ],
        cfg.hold,
        cfg.expected,
        FnvHashMap::default(),
    )
}

/// One arbiter step as the session task performs it: a raw OPEN goes through
/// the real wire parser first; a parse error bypasses the FSM (run_select) and
/// `apply_disconnect` then feeds `Disconnected`.
pub(crate) fn arb_step(fsm: &mut PeerFsm, role: Role, ev: Ev) -> Option<Term> {
    let pouts = |v: &Vec<PeerFsmOutput>| Term::list(v.iter().map(pout_t).collect());
    match ev {
        Ev::Input(i) => {
            let outs = fsm.process(role, i);
            Some(Term::tag("fsm", vec![pouts(&outs)]))
        }
        Ev::RawOpen(frame) => {
            let mut codec = bgp::PeerCodec::new();
            let mut buf = bytes::BytesMut::from(&frame[..]);
            let parsed = match codec.try_parse(&mut buf) {
                Ok(Some(p)) => bgp::validate_message(p, true).map(|it| it.collect::<Vec<_>>()),
                Ok(None) => return Some(Term::atom("harness-incomplete-frame")),
                Err(e) => Err(e),
            };
            match parsed {
                Ok(msgs) => {
                    let mut all = Vec::new();
                    for m in msgs {
                        all.extend(fsm.process(role, Input::MessageReceived(m)));
                    }
                    Some(Term::tag("fsm", vec![pouts(&all)]))
                }
                Err(n) => {
                    let outs = fsm.process(role, Input::Disconnected);
                    Some(Term::tag("parse-reject", vec![notif_pair(&n), pouts(&outs)]))
                }
            }
        }
        Ev::Wait(_) | Ev::Bad => None,
    }
}

pub(crate) fn run_case_c07(line: &str) -> String {
    let Some(t) = Term::parse(line) else {
        return "(bad-case)".into();
    };
    let Some([cfg, evs]) = t.tagged("case") else {
        return "(bad-case)".into();
    };
    let Some(cfg) = parse_cfg(cfg) else {
        return "(bad-case)".into();
    };
    let Some(evs) = evs.tagged("evs") else {
        return "(bad-case)".into();
    };
    let mut fsm = new_fsm(&cfg);
    let mut steps = Vec::new();
    for e in evs {
        let Some([r, ev]) = e.as_list() else {
            return "(bad-case)".into();
        };
        let Some(role) = parse_role(r) else {
            return "(bad-case)".into();
        };
        let Some(obs) = arb_step(&mut fsm, role, parse_ev(ev)) else {
            return "(bad-case)".into();
        };
        steps.push(Term::list(vec![
            obs,
            state_t(fsm.state(Role::Active)),
            state_t(fsm.state(Role::Passive)),
        ]));
    }
    Term::tag("trace", steps).to_string()
}

// ---------------------------------------------------------------- C08
// Timed driver: two timer slots per connection task, deadlines on a virtual
// clock, exactly the bookkeeping `PeerSession::apply_outputs` does with
// `tokio::time::sleep(Duration::from_secs(secs))` (a sleep of 0 s is ready at
// once; that tokio fact is checked against the real PeerSession in the
// event-hook harness, `c08-timer-probe`).
#[derive(Default, Clone, Copy)]
struct Slots {
    hold: Option<u64>,
    ka: Option<u64>,
    alive: bool,
}

fn apply_timer_outputs(slots: &mut [Slots; 2], now: u64, outs: &[PeerFsmOutput], self_role: Role) {
    let idx = |r: Role| if r == Role::Active { 0 } else { 1 };
    for o in outs {
        match o {
            // apply_outputs ignores the role tag: every output is applied to the
            // calling task's own slots, except what ConnArbiter diverted
            // (SendMessage for the other role).
            PeerFsmOutput::Connection(_, Output::SetHoldTimer(n)) => {
                // apply_outputs: 0 disables the hold timer
                slots[idx(self_role)].hold = if *n == 0 { None } else { Some(now.saturating_add(*n)) };
            }
            PeerFsmOutput::Connection(_, Output::SetKeepaliveTimer(n)) => {
                slots[idx(self_role)].ka = Some(now.saturating_add(*n));
            }
            PeerFsmOutput::Connection(r, Output::SendMessage(bgp::Message::Notification(_)))
                if *r != self_role =>
            {
                // collision loser: its task receives CloseReason::SendMessage and ends
                slots[idx(*r)] = Slots::default();
            }
            // CloseConnection ends the *new* task only; the existing task keeps its timers
            PeerFsmOutput::Connection(_, Output::SessionDown(..)) => {
                slots[idx(self_role)] = Slots::default();
            }
            _ => {}
        }
    }
}

pub(crate) fn run_case_c08(line: &str) -> String {
    let Some(t) = Term::parse(line) else {
        return "(bad-case)".into();
    };
    let Some([cfg, evs]) = t.tagged("case") else {
        return "(bad-case)".into();
    };
    let Some(cfg) = parse_cfg(cfg) else {
        return "(bad-case)".into();
    };
    let Some(evs) = evs.tagged("evs") else {
        return "(bad-case)".into();
    };
    // only configurations the daemon accepts (`TimedSpec.cfgValid`, config/src/validate.rs)
    if !(cfg.hold == 0 || (3..=65535).contains(&cfg.hold)) {
        return "(bad-case)".into();
    }
    let mut fsm = new_fsm(&cfg);
    let mut slots = [Slots::default(); 2];
    let mut now: u64 = 0;
    let mut steps = Vec::new();
    let idx = |r: Role| if r == Role::Active { 0 } else { 1 };
    for e in evs {
        let Some([r, ev]) = e.as_list() else {
            return "(bad-case)".into();
        };
        let Some(role) = parse_role(r) else {
            return "(bad-case)".into();
        };
        match parse_ev(ev) {
            Ev::Bad => return "(bad-case)".into(),
            // C08 histories are the ones a driver can produce (`TimedSpec.wfHist`): the two timer
            // inputs come from the clock (`wait`), never as events.  (A parsed OPEN with hold time
            // 1 or 2 is already `Ev::Bad`: `HoldTime::new` refuses it.)
            Ev::Input(Input::HoldTimerExpired) | Ev::Input(Input::KeepaliveTimerExpired) => {
                return "(bad-case)".into();
            }
            Ev::Wait(d) => {
                // advance the virtual clock, firing due timers in deadline order
                // (hold before keepalive on a tie, as select_biased! orders them;
                //  active before passive on a tie between tasks)
                let target = now.saturating_add(d);
                let mut fired = Vec::new();
                let mut budget = 10_000;
                loop {
                    budget -= 1;
                    if budget == 0 {
                        fired.push(Term::atom("timer-storm"));
                        break;
                    }
                    let mut best: Option<(u64, usize, usize)> = None; // (deadline, task, kind 0=hold 1=ka)
                    for ti in 0..2 {
                        for (kind, dl) in [(0usize, slots[ti].hold), (1usize, slots[ti].ka)] {
                            if let Some(dl) = dl {
                                if dl <= target && best.map_or(true, |b| (dl, ti, kind) < (b.0, b.1, b.2)) {
                                    best = Some((dl, ti, kind));
                                }
                            }
                        }
                    }
                    let Some((dl, ti, kind)) = best else { break };
                    now = dl.max(now);
                    let trole = if ti == 0 { Role::Active } else { Role::Passive };
                    let input = if kind == 0 {
                        slots[ti].hold = None;
                        Input::HoldTimerExpired
                    } else {
                        slots[ti].ka = None;
                        Input::KeepaliveTimerExpired
                    };
                    let outs = fsm.process(trole, input);
                    apply_timer_outputs(&mut slots, now, &outs, trole);
                    fired.push(Term::list(vec![
                        Term::nat(now),
                        role_t(trole),
                        Term::atom(if kind == 0 { "hold" } else { "ka" }),
                        Term::list(outs.iter().map(pout_t).collect()),
                    ]));
                }
                now = target;
                steps.push(Term::list(vec![
                    Term::tag("fired", fired),
                    state_t(fsm.state(Role::Active)),
                    state_t(fsm.state(Role::Passive)),
                ]));
            }
            ev => {
                let _ = idx;
                // collect raw outputs for timer bookkeeping as well as the printed form
                let (obs, outs) = match ev {
                    Ev::Input(i) => {
                        let outs = fsm.process(role, i);
                        (
                            Term::tag("fsm", vec![Term::list(outs.iter().map(pout_t).collect())]),
                            outs,
                        )
                    }
                    Ev::RawOpen(frame) => {
                        let mut codec = bgp::PeerCodec::new();
                        let mut buf = bytes::BytesMut::from(&frame[..]);
                        match codec.try_parse(&mut buf) {
                            Ok(Some(p)) => match bgp::validate_message(p, true) {
                                Ok(it) => {
                                    let mut all = Vec::new();
                                    for m in it {
                                        all.extend(fsm.process(role, Input::MessageReceived(m)));
                                    }
                                    (
                                        Term::tag("fsm", vec![Term::list(all.iter().map(pout_t).collect())]),
                                        all,
                                    )
                                }
                                Err(n) => {
                                    let outs = fsm.process(role, Input::Disconnected);
                                    slots[idx(role)] = Slots::default();
                                    (
                                        Term::tag(
                                            "parse-reject",
                                            vec![notif_pair(&n), Term::list(outs.iter().map(pout_t).collect())],
                                        ),
                                        outs,
                                    )
                                }
                            },
                            Ok(None) => return "(harness-incomplete-frame)".into(),
                            Err(n) => {
                                let outs = fsm.process(role, Input::Disconnected);
                                slots[idx(role)] = Slots::default();
                                (
                                    Term::tag(
                                        "parse-reject",
                                        vec![notif_pair(&n), Term::list(outs.iter().map(pout_t).collect())],
                                    ),
                                    outs,
                                )
                            }
                        }
                    }
                    _ => unreachable!(),
                };
                apply_timer_outputs(&mut slots, now, &outs, role);
                steps.push(Term::list(vec![
                    obs,
                    state_t(fsm.state(Role::Active)),
                    state_t(fsm.state(Role::Passive)),
                ]));
            }
        }
    }
    Term::tag("trace", steps).to_string()
}

#[test]
fn verif_main() {
    let (Ok(prop), Ok(inp), Ok(out)) = (
        std::env::var("VERIF_PROP"),
        std::env::var("VERIF_IN"),
        std::env::var("VERIF_OUT"),
    ) else {
        return; // not invoked by /verif/check
    };
    match prop.as_str() {
        "C07" => sexp::run_lines(&inp, &out, |l| {
            let l = l.to_string();
            std::panic::catch_unwind(move || run_case_c07(&l)).unwrap_or_else(|_| "(panic)".into())
        }),
        "C08" => sexp::run_lines(&inp, &out, |l| {
            let l = l.to_string();
            std::panic::catch_unwind(move || run_case_c08(&l)).unwrap_or_else(|_| "(panic)".into())
        }),
        _ => {}
    }
}
