// Verification harness for C01 (every neighbour's view converges to export(Loc-RIB); no withdrawal
// is lost), compiled into rustybgpd's unit-test binary only with `--cfg osrg_rustybgp_verif` and
// `--cfg verif_c01` (or verif_all).  Grand-child of `crate::event`.
//
// Real path driven per case:  `TableManager` (1-3 shards) → `PeerSession::on_established`
// (`register_peer` dump) → per-shard `NlriChange` fan-out → `handle_prefix_update` /
// `do_route_refresh` → `PendingTx::drain_messages` → `PeerCodec::encode_to` → bytes.
// The bytes are read by an independent minimal UPDATE reader (RFC 4271 / 4760 / 7911, IPv4 and
// IPv6 unicast, add-path) into a mirror Adj-RIB-In.  At the end a second, brand-new session with
// the same parameters is established on the same RIB; its dump is read the same way.
//
// Transcribed glue (not the real `run_select` / `flush_tx`): the dispatch of a `ToPeerEvent`
// (`NlriChange` ⇒ `handle_prefix_update`, `SoftResetOut` ⇒ `do_route_refresh` per family) and
// the loop `for (family, p) in pending { for msg in p.drain_messages(family) { codec.encode_to } }`.
// The tokio mpsc channel is drained into a harness-side FIFO after every RIB operation; the
// changes one bulk operation (`down`) emits for different prefixes are put in prefix order (the
// real order is the hash-map iteration order of the table).
//
// Case syntax: lean/Rbgp/Export/Codec01.lean.
// The observing neighbours' sessions are driven by the REAL `run_select`: every `ToPeerEvent` the RIB
// fans out is taken from the channel `register_peer` created (so that `deliver k` can hand over
// exactly k of them, bulk operations in prefix order) and re-sent on a channel the session polls;
// one call of `run_select` then runs the real `NlriChange` / `SoftResetOut` arm.  A `flush` calls
// `run_select` while some `PendingTx` is not empty: its socket arm runs the real `flush_tx` on a
// loopback TCP connection, and the bytes are read back on the other end.
#![allow(dead_code)]

use super::super::*;

#[path = "/verif/harness/daemon/export_common.rs"]
mod xc;
use xc::*;

use std::collections::{BTreeMap, VecDeque};

fn mirror_t(tag: &str, m: &Mirror) -> Term {
    let mut v = vec![Term::atom(tag)];
    for ((a, l, pid), (nh, at)) in m {
        if nh.as_atom() == Some("amb") {
            v.push(Term::list(vec![
                Term::nat(*a),
                Term::nat(*l),
                Term::nat(*pid),
                Term::atom("amb"),
            ]));
            continue;
        }
        v.push(Term::list(vec![
            Term::nat(*a),
            Term::nat(*l),
            Term::nat(*pid),
            nh.clone(),
            at.clone(),
        ]));
    }
    Term::list(v)
}

#[derive(Clone)]
struct NbrCfg {
    ctx_t: Term,
    remote_addr: IpAddr,
    cluster: Option<Ipv4Addr>,
    max: usize,
    policy0: Option<Arc<table::PolicyAssignment>>,
}

fn nbr_cfg(ctx: &Term, sess: &Term, pol: &Term) -> Option<(NbrCfg, bool)> {
    ctx_of(ctx)?;
    let [raddr, cluster, mx, fam] = sess.tagged("sess")? else {
        return None;
    };
    if fam.as_atom() != Some("ipv4") {
        return None;
    }
    let mx = nat_small(mx)? as usize;
    if mx == 0 || mx > 8 {
        return None;
    }
    let [pol] = pol.tagged("pol0")? else {
        return None;
    };
    let has_nh = pol.tagged("pol").is_some_and(|a| a.get(1).is_some_and(|n| n.as_atom() != Some("none")));
    Some((
        NbrCfg {
            ctx_t: ctx.clone(),
            remote_addr: addr_of(raddr)?,
            cluster: opt32(cluster)?.map(Ipv4Addr::from),
            max: mx,
            policy0: policy_of(pol)?,
        },
        has_nh,
    ))
}

struct Case {
    shards: usize,
    nbrs: Vec<NbrCfg>,
    gpolicy0: Option<Arc<table::PolicyAssignment>>,
    import: Option<Arc<table::PolicyAssignment>>,
    srcs: Vec<Arc<table::Source>>,
    pfxs: Vec<(IpAddr, u8, usize, Option<u32>)>, // address, length, shard, route distinguisher (VPNv4)
    rtc: Option<Option<Vec<[u8; 8]>>>,           // None = no RTC; Some(None) = wildcard interest; Some(rts)
    asets: Vec<Vec<packet::Attribute>>,
    pols: Vec<Option<Arc<table::PolicyAssignment>>>,
    pre: Vec<Term>,
    ops: Vec<Term>,
}

fn parse_case(t: &Term) -> Option<Case> {
    let [shards, ctx, sess, pol, gpol, imp, nbr2, rtc, srcs, pfxs, asets, pols, pre, ops] = t.tagged("c01")? else {
        return None;
    };
    let [k] = shards.tagged("shards")? else {
        return None;
    };
    let k = nat_small(k)? as usize;
    if !(1..=4).contains(&k) {
        return None;
    }
    let (n1, nh1) = nbr_cfg(ctx, sess, pol)?;
    let mut nbrs = vec![n1];
    let mut any_nh = nh1;
    let [nbr2] = nbr2.tagged("nbr2")? else {
        return None;
    };
    if nbr2.as_atom() != Some("none") {
        let [ctx2, sess2, pol2] = nbr2.as_list()? else {
            return None;
        };
        let (n2, nh2) = nbr_cfg(ctx2, sess2, pol2)?;
        if n2.remote_addr == nbrs[0].remote_addr {
            return None;
        }
        any_nh |= nh2;
        nbrs.push(n2);
    }
    let [gpol] = gpol.tagged("gpol0")? else {
        return None;
    };
    // `(rtc off)`, `(rtc all)` (wildcard interest) or `(rtc (rts x…8 bytes…))`
    let [rtc] = rtc.tagged("rtc")? else {
        return None;
    };
    let rtc: Option<Option<Vec<[u8; 8]>>> = match rtc.as_atom() {
        Some("off") => None,
        Some("all") => Some(None),
        Some(_) => return None,
        None => {
            let mut v = Vec::new();
            for x in rtc.tagged("rts")? {
                let b = x.as_bytes()?;
                let a: [u8; 8] = b.try_into().ok()?;
                v.push(a);
            }
            Some(Some(v))
        }
    };
    if rtc.is_some() && nbrs.len() > 1 {
        return None;
    }
    // import policy: `none` or `(origin v)` = reject routes whose ORIGIN is v
    let [imp] = imp.tagged("imp")? else {
        return None;
    };
    let import = if imp.as_atom() == Some("none") {
        None
    } else {
        let [v] = imp.tagged("origin")? else {
            return None;
        };
        let v = nat_small(v)?;
        if v > 255 {
            return None;
        }
        let stmt = Arc::new(table::Statement {
            name: Arc::from("is"),
            conditions: vec![table::Condition::Origin(v as u8)],
            disposition: Some(table::Disposition::Reject),
            actions: Default::default(),
        });
        Some(Arc::new(table::PolicyAssignment {
            name: Arc::from("import"),
            disposition: table::Disposition::Accept,
            policies: vec![Arc::new(table::Policy {
                name: Arc::from("ip"),
                statements: vec![stmt],
            })],
            needs_rpki: false,
        }))
    };
    let srcs: Vec<_> = srcs
        .tagged("srcs")?
        .iter()
        .map(source_of)
        .collect::<Option<_>>()?;
    let mut pf: Vec<(IpAddr, u8, usize, Option<u32>)> = Vec::new();
    for p in pfxs.tagged("pfxs")? {
        let l0 = p.as_list()?;
        let (addr, l, s, rd): (IpAddr, u64, usize, Option<u32>) = match l0 {
            [a, l, s] => {
                let l = nat_small(l)?;
                let a = nat32(a)?;
                // canonical prefixes only (no host bits)
                if l > 32 || (l < 32 && (a as u64) % (1u64 << (32 - l)) != 0) {
                    return None;
                }
                (IpAddr::V4(Ipv4Addr::from(a)), l, nat_small(s)? as usize, None)
            }
            [six, a, l, s] if six.as_atom() == Some("6") => {
                let l = nat_small(l)?;
                let a = nat128(a)?;
                if l > 128 || a < (1u128 << 32) || a >= (1u128 << 127) || (l < 128 && a % (1u128 << (128 - l)) != 0) {
                    return None;
                }
                (IpAddr::V6(Ipv6Addr::from(a)), l, nat_small(s)? as usize, None)
            }
            [v, rd, a, l, s] if v.as_atom() == Some("v") => {
                let l = nat_small(l)?;
                let a = nat32(a)?;
                if l > 32 || (l < 32 && (a as u64) % (1u64 << (32 - l)) != 0) {
                    return None;
                }
                (IpAddr::V4(Ipv4Addr::from(a)), l, nat_small(s)? as usize, Some(nat32(rd)?))
            }
            _ => return None,
        };
        if s >= k || pf.iter().any(|(x, y, _, r)| *x == addr && *y == l as u8 && *r == rd) {
            return None;
        }
        pf.push((addr, l as u8, s, rd));
    }
    if pf.iter().any(|p| p.3.is_some()) && rtc.is_none() {
        return None;
    }
    // IPv6 prefixes only towards receivers whose next hop is left alone and with policies that set none
    let pols_t = pols.tagged("pols")?;
    let has_nh = |t: &Term| t.tagged("pol").is_some_and(|a| a.get(1).is_some_and(|n| n.as_atom() != Some("none")));
    if pf.iter().any(|p| p.0.is_ipv6() || p.3.is_some()) {
        let roles_ok = nbrs.iter().all(|n| {
            matches!(
                ctx_of(&n.ctx_t).unwrap().role,
                PeerRole::Ibgp | PeerRole::IbgpRrClient | PeerRole::RsClient
            )
        });
        if !roles_ok || any_nh || has_nh(gpol) || pols_t.iter().any(has_nh) {
            return None;
        }
    }
    let asets: Vec<_> = asets
        .tagged("asets")?
        .iter()
        .map(attrs_of)
        .collect::<Option<_>>()?;
    let pols: Vec<_> = pols
        .tagged("pols")?
        .iter()
        .map(policy_of)
        .collect::<Option<_>>()?;
    let c = Case {
        shards: k,
        nbrs,
        gpolicy0: policy_of(gpol)?,
        import,
        srcs,
        pfxs: pf,
        rtc,
        asets,
        pols,
        pre: pre.tagged("pre")?.to_vec(),
        ops: ops.tagged("ops")?.to_vec(),
    };
    // validate every op up front (same rules as the Lean codec): a bad op makes the case bad
    for (i, o) in c.pre.iter().chain(c.ops.iter()).enumerate() {
        parse_op(&c, o, i < c.pre.len())?;
    }
    Some(c)
}

enum Op {
    Ann(usize, usize, u32, usize, bgp::Nexthop),
    Wd(usize, usize, u32),
    Down(usize),
    Llgr(usize),
    Nh(u32, bool),
    Reset(Option<usize>),
    Greset(Option<usize>),
    Deliver(usize),
    Flush,
    RtcEor,
}

fn parse_op(c: &Case, t: &Term, pre: bool) -> Option<Op> {
    let idx = |t: &Term, n: usize| -> Option<usize> {
        let i = nat_small(t)? as usize;
        if i < n { Some(i) } else { None }
    };
    if let Some([s, p, rpid, a, nh]) = t.tagged("ann") {
        let nh = nh_of(nh)?;
        let pi = idx(p, c.pfxs.len())?;
        // the next hop is of the prefix's family
        match (&nh, c.pfxs[pi].0) {
            (bgp::Nexthop::V4(_), IpAddr::V4(_)) | (bgp::Nexthop::V6(_), IpAddr::V6(_)) => {}
            _ => return None,
        }
        return Some(Op::Ann(
            idx(s, c.srcs.len())?,
            pi,
            nat32(rpid)?,
            idx(a, c.asets.len())?,
            nh,
        ));
    }
    if let Some([s, p, rpid]) = t.tagged("wd") {
        return Some(Op::Wd(
            idx(s, c.srcs.len())?,
            idx(p, c.pfxs.len())?,
            nat32(rpid)?,
        ));
    }
    if let Some([s]) = t.tagged("down") {
        return Some(Op::Down(idx(s, c.srcs.len())?));
    }
    if pre {
        return None;
    }
    if let Some([s]) = t.tagged("llgr") {
        // start of the LLGR stale period of a peer source (never the local/kernel singletons)
        let i = idx(s, c.srcs.len())?;
        if c.srcs[i].is_local() || c.srcs[i].is_kernel() {
            return None;
        }
        return Some(Op::Llgr(i));
    }
    if let Some([a, up]) = t.tagged("nh") {
        return Some(Op::Nh(nat32(a)?, up.as_bool()?));
    }
    if let Some([k]) = t.tagged("reset") {
        if k.as_atom() == Some("none") {
            return Some(Op::Reset(None));
        }
        return Some(Op::Reset(Some(idx(k, c.pols.len())?)));
    }
    if let Some([k]) = t.tagged("greset") {
        if k.as_atom() == Some("none") {
            return Some(Op::Greset(None));
        }
        return Some(Op::Greset(Some(idx(k, c.pols.len())?)));
    }
    if let Some([n]) = t.tagged("deliver") {
        return Some(Op::Deliver(nat_small(n)? as usize));
    }
    if t.as_atom() == Some("flush") {
        return Some(Op::Flush);
    }
    if t.as_atom() == Some("rtceor") && c.rtc.is_some() {
        return Some(Op::RtcEor);
    }
    None
}

fn net_of(c: &Case, p: usize) -> packet::Nlri {
    match (c.pfxs[p].0, c.pfxs[p].3) {
        (IpAddr::V4(addr), Some(rd)) => packet::Nlri::VpnV4(packet::vpn::VpnV4Nlri {
            labels: packet::mpls::MplsLabelStack::new(vec![packet::mpls::MplsLabel::new(16)]),
            rd: packet::rd::RouteDistinguisher::TwoOctetAs {
                admin: 65000,
                assigned: rd,
            },
            prefix: packet::bgp::Ipv4Net {
                addr,
                mask: c.pfxs[p].1,
            },
        }),
        (IpAddr::V4(addr), None) => packet::Nlri::V4(packet::bgp::Ipv4Net {
            addr,
            mask: c.pfxs[p].1,
        }),
        (IpAddr::V6(addr), _) => packet::Nlri::V6(packet::bgp::Ipv6Net {
            addr,
            mask: c.pfxs[p].1,
        }),
    }
}

fn fam_of(c: &Case, p: usize) -> Family {
    if c.pfxs[p].3.is_some() {
        Family::IPV4_VPN
    } else if c.pfxs[p].0.is_ipv6() {
        Family::IPV6
    } else {
        Family::IPV4
    }
}

/// the families routes are announced in (RIB operations); an RTC session has IPV4_VPN and RTC on top
fn fams(c: &Case) -> Vec<Family> {
    let mut v = vec![Family::IPV4];
    if c.pfxs.iter().any(|p| p.0.is_ipv6()) {
        v.push(Family::IPV6);
    }
    if c.rtc.is_some() {
        v.push(Family::IPV4_VPN);
    }
    v
}

fn new_session(c: &Case, n: &NbrCfg, tables: &TableHandle) -> PeerSession {
    let mut s = PeerSession::new_for_test(n.remote_addr, make_context(), tables.clone());
    s.export_ctx = ctx_of(&n.ctx_t).unwrap();
    s.cluster_id = n.cluster;
    for f in fams(c) {
        s.codec.set_family(
            f,
            bgp::FamilyState {
                addpath_rx: false,
                addpath_tx: n.max > 1,
            },
        );
        s.effective_max.insert(f, n.max);
    }
    if c.rtc.is_some() {
        s.codec.set_family(
            Family::RTC,
            bgp::FamilyState {
                addpath_rx: false,
                addpath_tx: false,
            },
        );
        // apply_outputs(SessionEstablished): advance the RTC state machine before on_established
        // (transcribed; the timer it asks for is not started, the End-of-RIB is an operation of the case)
        let fams: Vec<Family> = s.codec.families_iter().collect();
        let _ = s.context.lock().unwrap().rtc_state.process(crate::rtc::RtcInput::SessionEstablished {
            negotiated_families: fams,
        });
    }
    s.state.remote_asn.store(64999, Ordering::Relaxed);
    s.state
        .remote_cap
        .store(Some(Arc::new(Vec::<packet::Capability>::new())));
    s
}

/// flush_tx step 2 without the socket: drain every family's PendingTx and encode.
fn flush(s: &mut PeerSession) -> Vec<u8> {
    let mut txbuf = bytes::BytesMut::with_capacity(1 << 16);
    for (family, p) in s.pending.iter_mut() {
        for msg in p.drain_messages(*family) {
            let _ = s.codec.encode_to(&msg, &mut txbuf);
        }
    }
    txbuf.to_vec()
}

thread_local! {
    /// loopback connections are kept from one case to the next (hundreds of thousands of cases would
    /// otherwise leave as many sockets in TIME_WAIT)
    static CONNS: std::cell::RefCell<Vec<(TcpStream, TcpStream)>> = const { std::cell::RefCell::new(Vec::new()) };
}

/// bind(127.0.0.1:0) with real-time retries: when other checks running on the machine have
/// momentarily used up the ephemeral ports (TIME_WAIT), wait instead of failing the case.
fn bind_loopback_retry() -> std::net::TcpListener {
    let t0 = std::time::Instant::now();
    loop {
        match std::net::TcpListener::bind("127.0.0.1:0") {
            Ok(l) => return l,
            Err(e) if t0.elapsed() < std::time::Duration::from_secs(120) => {
                let _ = e;
                std::thread::sleep(std::time::Duration::from_millis(250));
            }
            Err(e) => panic!("bind loopback: {e}"),
        }
    }
}

async fn conn_pair() -> (TcpStream, TcpStream) {
    if let Some(p) = CONNS.with(|c| c.borrow_mut().pop()) {
        return p;
    }
    let listener = { let l = bind_loopback_retry(); l.set_nonblocking(true).unwrap(); tokio::net::TcpListener::from_std(l).unwrap() };
    let laddr = listener.local_addr().unwrap();
    let (client, server) = tokio::join!(TcpStream::connect(laddr), listener.accept());
    (server.unwrap().0, client.unwrap())
}

enum Ev {
    Change(Arc<table::NlriChange>),
    SoftReset,
    Refresh(Vec<Family>), // RouteRefreshFamilies: the VPN families suspended until the RTC End-of-RIB
}

fn nlri_key(n: &packet::Nlri) -> (u128, u8) {
    match n {
        packet::Nlri::V4(x) => (u32::from(x.addr) as u128, x.mask),
        packet::Nlri::V6(x) => (u128::from(x.addr), x.mask),
        packet::Nlri::VpnV4(x) => {
            let mut rd = Vec::new();
            x.rd.encode(&mut rd);
            let rd64 = u64::from_be_bytes(rd.try_into().unwrap_or([0; 8]));
            ((1u128 << 127) + ((rd64 as u128) << 32) + u32::from(x.prefix.addr) as u128, x.prefix.mask)
        }
        _ => (0, 255),
    }
}

/// Move what the RIB operation just put on the tokio channel into the harness FIFO.
fn pump(rx: &mut Option<UnboundedReceiverStream<ToPeerEvent>>, q: &mut VecDeque<Ev>, sort: bool) {
    let Some(rx) = rx.as_mut() else {
        return;
    };
    let mut batch: Vec<Ev> = Vec::new();
    while let Ok(e) = rx.as_mut().try_recv() {
        match e {
            ToPeerEvent::NlriChange(u) => batch.push(Ev::Change(u)),
            ToPeerEvent::SoftResetOut => batch.push(Ev::SoftReset),
            ToPeerEvent::RouteRefreshFamilies(f) => batch.push(Ev::Refresh(f)),
            // sent by end_deferral_families only; this harness never starts a deferral
            ToPeerEvent::DeferralEnded(_) => {}
        }
    }
    if sort {
        batch.sort_by_key(|e| match e {
            Ev::Change(u) => nlri_key(&u.net),
            Ev::SoftReset | Ev::Refresh(_) => (0, 0),
        });
    }
    q.extend(batch);
}

async fn run(c: &Case) -> String {
    let tables: TableHandle = Arc::new(TableManager::new(c.shards));
    tables.import_policy.store(c.import.clone());
    // the case claims a shard for every prefix (the model needs it for the id allocators): verify
    {
        let probe = TableManager::new(c.shards);
        let src = Arc::new(table::Source::new(
            IpAddr::V4(Ipv4Addr::new(192, 0, 2, 1)),
            IpAddr::V4(Ipv4Addr::new(127, 0, 0, 1)),
            1,
            2,
            Ipv4Addr::new(192, 0, 2, 1),
            PeerRole::Ebgp,
        ));
        for (i, p) in c.pfxs.iter().enumerate() {
            probe.insert_route(
                src.clone(),
                fam_of(c, i),
                packet::PathNlri::new(net_of(c, i)),
                Some(bgp::Nexthop::V4(Ipv4Addr::new(192, 0, 2, 1))),
                Arc::new(Vec::new()),
                None,
                0,
            );
            let mut real = usize::MAX;
            for (k, sh) in probe.shards.iter().enumerate() {
                let t = sh.lock().unwrap();
                if t.rtable
                    .collect_loc_rib_paths(&fam_of(c, i))
                    .iter()
                    .any(|ch| ch.net == net_of(c, i))
                {
                    real = k;
                }
            }
            if real != p.2 {
                return format!("(shard-mismatch {} {})", i, real);
            }
        }
    }
    let rib_op = |op: &Op| match op {
        Op::Ann(s, p, rpid, a, nh) => {
            tables.insert_route(
                c.srcs[*s].clone(),
                fam_of(c, *p),
                packet::PathNlri {
                    path_id: *rpid,
                    nlri: net_of(c, *p),
                },
                Some(*nh),
                Arc::new(c.asets[*a].clone()),
                None,
                0,
            );
        }
        Op::Wd(s, p, rpid) => {
            tables.remove_route(
                c.srcs[*s].clone(),
                fam_of(c, *p),
                packet::PathNlri {
                    path_id: *rpid,
                    nlri: net_of(c, *p),
                },
                None,
                0,
            );
        }
        Op::Down(s) => {
            tables.drop_families(c.srcs[*s].remote_addr, &fams(c));
        }
        Op::Llgr(s) => {
            tables.mark_llgr_stale(c.srcs[*s].remote_addr, &fams(c));
        }
        Op::Nh(a, up) => {
            tables.update_nexthop_validity(IpAddr::V4(Ipv4Addr::from(*a)), *up);
        }
        _ => {}
    };
    for o in &c.pre {
        rib_op(&parse_op(c, o, true).unwrap());
    }
    let local_sa = SocketAddr::new(IpAddr::V4(Ipv4Addr::new(127, 0, 0, 1)), 179);
    // the two holders of an export policy: the neighbour's own assignment (PeerState) and the global
    // one (TableManager); the session code looks them up itself
    tables.export_policy.store(c.gpolicy0.clone());
    // what the RTC neighbour announced in the RTC family before its End-of-RIB (its adj-in there)
    if let Some(interest) = &c.rtc {
        let n = &c.nbrs[0];
        let role = ctx_of(&n.ctx_t).unwrap().role;
        let src = Arc::new(table::Source::new(
            n.remote_addr,
            IpAddr::V4(Ipv4Addr::new(127, 0, 0, 1)),
            64999,
            65001,
            Ipv4Addr::new(10, 0, 0, 1),
            role,
        ));
        let nlris: Vec<packet::rtc::RtcNlri> = match interest {
            None => vec![packet::rtc::RtcNlri::wildcard()],
            Some(rts) => rts
                .iter()
                .map(|rt| packet::rtc::RtcNlri {
                    match_type: packet::rtc::MatchType::ExactMatch {
                        origin_as: 64999,
                        route_target: *rt,
                    },
                })
                .collect(),
        };
        for nl in nlris {
            tables.insert_route(
                src.clone(),
                Family::RTC,
                packet::PathNlri::new(packet::Nlri::Rtc(nl)),
                Some(bgp::Nexthop::V4(Ipv4Addr::new(10, 0, 0, 1))),
                Arc::new(vec![packet::Attribute::new_with_value(packet::Attribute::ORIGIN, 0).unwrap()]),
                None,
                0,
            );
        }
    }
    let mut rtc_active = false;
    let global: GlobalHandle = {
        let (tx, _rx) = mpsc::unbounded_channel();
        let (bfd_tx, _bfd_rx) = mpsc::unbounded_channel();
        Arc::new(tokio::sync::RwLock::new(Global::new(tx, bfd_tx)))
    };

    /// one observing neighbour
    struct Obsv {
        cfg: NbrCfg,
        remote_sa: SocketAddr,
        a: PeerSession,
        // what run_select needs besides the session
        stream: TcpStream,
        client: TcpStream,
        rxbuf: bytes::BytesMut,
        close_rx: CloseRxFuture,
        _close_tx: tokio::sync::oneshot::Sender<CloseReason>,
        // the channel register_peer created (read by the harness) and the one the session polls
        real_rx: Option<UnboundedReceiverStream<ToPeerEvent>>,
        inj_tx: mpsc::UnboundedSender<ToPeerEvent>,
        addpath: bool,
        mirror: Mirror,
        q: VecDeque<Ev>,
        flushes: Vec<Term>,
        quiet: Vec<Term>,
        owner: FnvHashMap<(Family, u32), packet::Nlri>,
        reuse: u64,
        overtaken: u64,
        policy: Option<Arc<table::PolicyAssignment>>,
        err: Option<&'static str>,
    }
    let mut obs: Vec<Obsv> = Vec::new();
    for n in &c.nbrs {
        let remote_sa = SocketAddr::new(n.remote_addr, 40000);
        let mut a = new_session(c, n, &tables);
        a.state.export_policy.store(n.policy0.clone());
        a.on_established(local_sa, remote_sa).await;
        let (stream, client) = conn_pair().await;
        let (close_tx, close_rx) = tokio::sync::oneshot::channel::<CloseReason>();
        let close_rx: CloseRxFuture = Some(close_rx.fuse()).into();
        let real_rx = a.peer_event_rx.take();
        let (inj_tx, inj_rx) = mpsc::unbounded_channel();
        a.peer_event_rx = Some(UnboundedReceiverStream::new(inj_rx));
        obs.push(Obsv {
            cfg: n.clone(),
            remote_sa,
            a,
            stream,
            client,
            rxbuf: bytes::BytesMut::with_capacity(PeerSession::RXBUF_SIZE),
            close_rx,
            _close_tx: close_tx,
            real_rx,
            inj_tx,
            addpath: n.max > 1,
            mirror: Mirror::new(),
            q: VecDeque::new(),
            flushes: vec![Term::atom("flushes")],
            quiet: vec![Term::atom("quiet")],
            owner: FnvHashMap::default(),
            reuse: 0,
            overtaken: 0,
            policy: n.policy0.clone(),
            err: None,
        });
    }

    /// one call of the real run_select; it must have something to do
    async fn select_once(global: &GlobalHandle, o: &mut Obsv, local_sa: SocketAddr) {
        // (no cooperative-scheduling budget: a channel that answers Pending because the task has
        // polled too much since it last yielded would let the socket arm run in the event's place)
        let r = tokio::time::timeout(
            Duration::from_secs(5),
            tokio::task::unconstrained(o.a.run_select(
                global,
                &mut o.stream,
                &mut o.rxbuf,
                o.remote_sa,
                local_sa,
                &mut o.close_rx,
            )),
        )
        .await;
        match r {
            Ok(Step::Continue) => {}
            Ok(Step::Terminate { .. }) => o.err = Some("session-terminated"),
            Err(_) => o.err = Some("run-select-idle"),
        }
    }

    async fn deliver(global: &GlobalHandle, o: &mut Obsv, n: usize, local_sa: SocketAddr) {
        for _ in 0..n {
            let Some(e) = o.q.pop_front() else { break };
            let ev = match e {
                Ev::Change(u) => {
                    if std::env::var("VERIF_DEBUG").is_ok() {
                        eprintln!(
                            "DBG nbr={} change net={:?} id={} best={} any={} repl={:?} paths={:?}",
                            o.cfg.remote_addr,
                            nlri_key(&u.net),
                            u.dest_id,
                            u.best_changed,
                            u.any_changed,
                            u.replaced_path_id,
                            u.current_paths.iter().map(|p| p.local_path_id).collect::<Vec<_>>()
                        );
                    }
                    if let Some(old) = o.owner.insert((u.family, u.dest_id), u.net.clone())
                        && old != u.net
                    {
                        o.reuse += 1;
                    }
                    ToPeerEvent::NlriChange(u)
                }
                Ev::SoftReset => {
                    // the refresh walks the RIB as it is now: are changes still queued behind it?
                    if o.q.iter().any(|e| matches!(e, Ev::Change(_))) {
                        o.overtaken += 1;
                    }
                    ToPeerEvent::SoftResetOut
                }
                Ev::Refresh(f) => {
                    if o.q.iter().any(|e| matches!(e, Ev::Change(_))) {
                        o.overtaken += 1;
                    }
                    ToPeerEvent::RouteRefreshFamilies(f)
                }
            };
            // the session finds the event on its channel; the arm that handles it is the real one
            let _ = o.inj_tx.send(ev);
            select_once(global, o, local_sa).await;
            // the event must have been consumed by that call
            if o.a.peer_event_rx.as_mut().map(|rx| rx.as_mut().len()).unwrap_or(0) != 0 {
                o.err = Some("event-not-consumed");
            }
        }
    }

    /// run_select's socket arm (flush_tx) until every PendingTx is empty, then what the neighbour read
    async fn flush_real(global: &GlobalHandle, o: &mut Obsv, local_sa: SocketAddr) {
        let mut guard = 0;
        while o.a.pending.values().any(|p| !p.is_empty()) && guard < 8 {
            select_once(global, o, local_sa).await;
            guard += 1;
        }
        let mut buf: Vec<u8> = Vec::new();
        let mut tmp = [0u8; 65536];
        if guard > 0 {
            // everything flush_tx wrote is in the socket already; let the reactor see it
            let _ = tokio::time::timeout(Duration::from_millis(200), o.client.readable()).await;
        }
        loop {
            match o.client.try_read(&mut tmp) {
                Ok(0) => break,
                Ok(n) => buf.extend_from_slice(&tmp[..n]),
                Err(_) => break,
            }
        }
        if std::env::var("VERIF_DEBUG").is_ok() {
            // one line per frame: which prefixes it withdraws / announces
            let mut pos = 0usize;
            while pos + 19 <= buf.len() {
                let l = u16::from_be_bytes([buf[pos + 16], buf[pos + 17]]) as usize;
                let mut one = Mirror::new();
                let before: Vec<Key> = o.mirror.keys().cloned().collect();
                for k in &before {
                    one.insert(*k, (Term::atom("x"), Term::atom("x")));
                }
                let _ = apply_bytes(&buf[pos..pos + l], o.addpath, &mut one);
                let gone: Vec<_> = before.iter().filter(|k| !one.contains_key(k)).collect();
                let set: Vec<_> = one.iter().filter(|(_, v)| v.0.as_atom() != Some("x")).map(|(k, _)| k).collect();
                eprintln!("DBG nbr={} frame len={} gone={:?} set={:?}", o.cfg.remote_addr, l, gone, set);
                pos += l;
            }
            eprintln!("DBG nbr={} flush end guard={}", o.cfg.remote_addr, guard);
        }
        if let Err(e) = apply_bytes(&buf, o.addpath, &mut o.mirror) {
            o.err = Some(e);
        }
    }

    /// what a brand-new session to the same neighbour is sent from the current RIB and policies
    /// (drained and encoded directly, without a socket)
    async fn fresh_dump(
        c: &Case,
        tables: &TableHandle,
        o: &mut Obsv,
        local_sa: SocketAddr,
        carry_on: bool,
        rtc_active: bool,
    ) -> Mirror {
        // (its registration replaces the observing session's channel, which pump() has emptied: the
        // harness carries on reading the new one)
        pump(&mut o.real_rx, &mut o.q, false);
        let mut b = new_session(c, &o.cfg, tables);
        b.state.export_policy.store(o.policy.clone());
        b.on_established(local_sa, o.remote_sa).await;
        if rtc_active {
            // a brand-new session in the same RTC phase: its End-of-RIB has arrived too (rx_msg,
            // transcribed: EorReceived, then the re-walk of the suspended families)
            let outs = b.context.lock().unwrap().rtc_state.process(crate::rtc::RtcInput::EorReceived);
            for out in outs {
                if let crate::rtc::RtcOutput::ExportFamilies(fs) = out {
                    for f in fs {
                        b.do_route_refresh(f).await;
                    }
                }
            }
        }
        let bytes = flush(&mut b);
        let mut dump = Mirror::new();
        if let Err(e) = apply_bytes(&bytes, o.addpath, &mut dump) {
            o.err = Some(e);
        }
        if carry_on {
            o.real_rx = b.peer_event_rx.take();
        }
        dump
    }

    for op_t in &c.ops {
        let op = parse_op(c, op_t, false).unwrap();
        match &op {
            Op::Ann(..) | Op::Wd(..) => {
                rib_op(&op);
                for o in obs.iter_mut() {
                    pump(&mut o.real_rx, &mut o.q, false);
                }
            }
            Op::Down(_) | Op::Llgr(_) | Op::Nh(..) => {
                rib_op(&op);
                for o in obs.iter_mut() {
                    pump(&mut o.real_rx, &mut o.q, true);
                }
            }
            Op::Reset(k) => {
                // the FIRST neighbour's own export policy
                let o = &mut obs[0];
                o.policy = match k {
                    None => None,
                    Some(i) => c.pols[*i].clone(),
                };
                o.a.state.export_policy.store(o.policy.clone());
                tables.soft_reset_out(o.cfg.remote_addr);
                pump(&mut o.real_rx, &mut o.q, false);
            }
            Op::Greset(k) => {
                let g = match k {
                    None => None,
                    Some(i) => c.pols[*i].clone(),
                };
                tables.export_policy.store(g);
                for o in obs.iter_mut() {
                    tables.soft_reset_out(o.cfg.remote_addr);
                    pump(&mut o.real_rx, &mut o.q, false);
                }
            }
            Op::RtcEor => {
                // rx_msg on the neighbour's RTC End-of-RIB (transcribed): the state machine decides
                let o = &mut obs[0];
                let outs = o.a.context.lock().unwrap().rtc_state.process(crate::rtc::RtcInput::EorReceived);
                for out in outs {
                    if let crate::rtc::RtcOutput::ExportFamilies(fs) = out {
                        tables.trigger_rtc_export(o.cfg.remote_addr, fs);
                    }
                }
                rtc_active = true;
                pump(&mut o.real_rx, &mut o.q, false);
            }
            Op::Deliver(n) => {
                for o in obs.iter_mut() {
                    deliver(&global, o, *n, local_sa).await;
                }
            }
            Op::Flush => {
                for o in obs.iter_mut() {
                    flush_real(&global, o, local_sa).await;
                    if o.q.is_empty() {
                        // nothing left in the channel: what would a brand-new session be sent right now?
                        let dump = fresh_dump(c, &tables, o, local_sa, true, rtc_active).await;
                        o.quiet.push(Term::tag(
                            "q",
                            vec![
                                Term::nat((o.flushes.len() - 1) as u64),
                                Term::nat(o.reuse),
                                Term::nat(o.overtaken),
                                mirror_t("m", &o.mirror),
                                mirror_t("d", &dump),
                            ],
                        ));
                    }
                    o.flushes.push(mirror_t("m", &o.mirror));
                }
            }
        }
    }
    // quiesce: everything delivered, everything flushed; then the fresh dump
    let mut out: Vec<Term> = Vec::new();
    for o in obs.iter_mut() {
        let n = o.q.len();
        deliver(&global, o, n, local_sa).await;
        flush_real(&global, o, local_sa).await;
    }
    for o in obs.iter_mut() {
        let dump = fresh_dump(c, &tables, o, local_sa, false, rtc_active).await;
        if let Some(e) = o.err {
            return format!("(wire-error {})", e);
        }
        out.push(Term::tag(
            "obs",
            vec![
                Term::tag("reuse", vec![Term::nat(o.reuse)]),
                Term::tag("overtaken", vec![Term::nat(o.overtaken)]),
                Term::list(std::mem::take(&mut o.flushes)),
                Term::list(std::mem::take(&mut o.quiet)),
                mirror_t("final", &o.mirror),
                mirror_t("dump", &dump),
            ],
        ));
    }
    // everything written was read: the connections can serve the next case
    for o in obs {
        CONNS.with(|c| c.borrow_mut().push((o.stream, o.client)));
    }
    if out.len() == 2 {
        Term::tag("pair", out).to_string()
    } else {
        out.pop().unwrap().to_string()
    }
}

fn run_case(rt: &tokio::runtime::Runtime, line: &str) -> String {
    let Some(t) = Term::parse(line) else {
        return "(bad-case)".into();
    };
    if let Some(args) = t.tagged("probe") {
        // (probe K (ADDR LEN)...) -> shard of every prefix (used once to build the generator's table)
        let Some((k, pf)) = args.split_first() else {
            return "(bad-case)".into();
        };
        let k = nat_small(k).unwrap_or(1) as usize;
        let mut out = vec![Term::atom("shards")];
        for p in pf {
            let l = p.as_list().unwrap();
            let (net, fam) = if l.len() == 3 && l[0].as_atom() == Some("6") {
                (
                    packet::Nlri::V6(packet::bgp::Ipv6Net {
                        addr: Ipv6Addr::from(nat128(&l[1]).unwrap()),
                        mask: nat_small(&l[2]).unwrap() as u8,
                    }),
                    Family::IPV6,
                )
            } else {
                (
                    packet::Nlri::V4(packet::bgp::Ipv4Net {
                        addr: Ipv4Addr::from(nat32(&l[0]).unwrap()),
                        mask: nat_small(&l[1]).unwrap() as u8,
                    }),
                    Family::IPV4,
                )
            };
            let tm = TableManager::new(k);
            tm.insert_route(
                table::Source::local(),
                fam,
                packet::PathNlri::new(net),
                None,
                Arc::new(Vec::new()),
                None,
                0,
            );
            let mut real = 99u32;
            for (i, sh) in tm.shards.iter().enumerate() {
                if !sh
                    .lock()
                    .unwrap()
                    .rtable
                    .collect_loc_rib_paths(&fam)
                    .is_empty()
                {
                    real = i as u32;
                }
            }
            out.push(Term::nat(real));
        }
        return Term::list(out).to_string();
    }
    let Some(c) = parse_case(&t) else {
        return "(bad-case)".into();
    };
    rt.block_on(run(&c))
}

#[test]
fn verif_main() {
    let (Ok(prop), Ok(inp), Ok(out)) = (
        std::env::var("VERIF_PROP"),
        std::env::var("VERIF_IN"),
        std::env::var("VERIF_OUT"),
    ) else {
        return; // not invoked by /verif/check
    };
    if prop != "C01" {
        return;
    }
    let rt = tokio::runtime::Builder::new_current_thread()
        .enable_all()
        .build()
        .unwrap();
    std::panic::set_hook(Box::new(|_| {}));
    sexp::run_lines(&inp, &out, |l| {
        std::panic::catch_unwind(std::panic::AssertUnwindSafe(|| run_case(&rt, l)))
            .unwrap_or_else(|_| "(panic)".into())
    });
}
