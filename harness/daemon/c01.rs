// harness module for C01 (not written yet)
