// C19 daemon-level harness, part living inside daemon/src/mrt.rs (child module of `crate::mrt`):
// runs the REAL private Adj-RIB-In -> MRT converter.  See harness/daemon/c19.rs.
#![allow(dead_code, unused_imports)]
use super::*;

/// `adj_rib_in_to_mrt`
pub(crate) fn to_mrt(change: &AdjRibInChange) -> mrt::Message {
    adj_rib_in_to_mrt(change)
}
