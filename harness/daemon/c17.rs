// Verification harness for C17 (API conversions), compiled into rustybgpd's unit-test binary only with
// `--cfg osrg_rustybgp_verif` (+ `--cfg verif_all` or `--cfg verif_c17`).  Child of `crate::event::verif_event`
// (event.rs hook), so `GrpcService` (pub(super) in `event`) and `crate::convert` are reachable.
//
// Reads case lines (lean/Rbgp/Api/Codec.lean syntax) from $VERIF_IN, runs the REAL code
// (`PeerCodec::parse_message`, `convert::attr_to_api/attr_from_api/nlri_to_api/net_from_api`,
// `Attribute::{encode_to_bytes, as_path_length, as_path_origin}`, `Table::insert`, `apply_import`,
// `PeerCodec::encode_to`) and writes one observation line per case to $VERIF_OUT.
#![allow(dead_code, clippy::all)]

use crate::api;
use crate::convert;
use rustybgp_packet as packet;
use rustybgp_table as table;

use packet::bgp::{self, Attribute, FamilyState, ParsedUpdate, PeerCodec};
use packet::{Family, Nlri, ParsedMessage};
use std::net::{IpAddr, Ipv4Addr, Ipv6Addr};
use std::panic::{AssertUnwindSafe, catch_unwind};
use std::str::FromStr;
use std::sync::Arc;

#[path = "/verif/harness/common/sexp.rs"]
mod sexp;
use sexp::Term;

const U32MAX: u128 = u32::MAX as u128;

/// texts that std parses neither as an IPv4 nor as an IPv6 address (`(bad k)` in a case)
const BAD: [&str; 12] = [
    "", "foo", "1.2.3", "1.2.3.4.5", "256.1.1.1", "1.2.3.4/8", " 1.2.3.4", "::g", "1:2:3:4:5:6:7:8:9",
    "01.2.3.4", "1.2.3.4 ", "10.0.0.0/8/8",
];

fn as_u128(t: &Term) -> Option<u128> {
    t.as_atom()?.parse::<u128>().ok()
}
fn as_u32(t: &Term) -> Option<u32> {
    let v = as_u128(t)?;
    if v > U32MAX { None } else { Some(v as u32) }
}
fn nat<N: Into<u128>>(n: N) -> Term {
    Term::nat(n)
}

// ------------------------------------------------------------------ address strings
fn astr_to_string(t: &Term) -> Option<String> {
    if let Some(a) = t.tagged("ip4") {
        return Some(Ipv4Addr::from(as_u32(a.first()?)?).to_string());
    }
    if let Some(a) = t.tagged("ip6") {
        return Some(Ipv6Addr::from(as_u128(a.first()?)?).to_string());
    }
    if let Some(a) = t.tagged("bad") {
        let k = as_u32(a.first()?)? as usize;
        let s = BAD[k % BAD.len()];
        // the table must really be "bad" for std
        if Ipv4Addr::from_str(s).is_ok() || Ipv6Addr::from_str(s).is_ok() {
            return None;
        }
        return Some(s.to_string());
    }
    None
}
fn string_to_astr(s: &str) -> Term {
    if let Ok(a) = Ipv4Addr::from_str(s) {
        Term::tag("ip4", vec![nat(u32::from(a))])
    } else if let Ok(a) = Ipv6Addr::from_str(s) {
        Term::tag("ip6", vec![nat(u128::from(a))])
    } else {
        Term::tag("bad", vec![nat(0u32)])
    }
}

// ------------------------------------------------------------------ internal attribute <-> term
fn attr_t(a: &Attribute) -> Term {
    let data = if let Some(v) = a.value() {
        Term::tag("val", vec![nat(v)])
    } else if a.is_opaque() {
        Term::tag("opaque", vec![Term::bytes(a.binary().unwrap())])
    } else {
        Term::tag("bin", vec![Term::bytes(a.binary().unwrap())])
    };
    Term::tag("attr", vec![nat(a.code()), nat(a.flags()), data])
}

// ------------------------------------------------------------------ API attribute <-> term
fn extcom_from_term(t: &Term) -> Option<api::ExtendedCommunity> {
    use api::extended_community::Extcom as E;
    let e = match t.head()? {
        "ec-missing" => return Some(api::ExtendedCommunity { extcom: None }),
        "ec-other" => E::Color(api::ColorExtended { color: 1 }),
        "ec-unknown" => {
            let a = t.tagged("ec-unknown")?;
            E::Unknown(api::UnknownExtended { r#type: as_u32(a.first()?)?, value: a.get(1)?.as_bytes()? })
        }
        "two-as" => {
            let a = t.tagged("two-as")?;
            E::TwoOctetAsSpecific(api::TwoOctetAsSpecificExtended {
                is_transitive: a.first()?.as_bool()?,
                sub_type: as_u32(a.get(1)?)?,
                asn: as_u32(a.get(2)?)?,
                local_admin: as_u32(a.get(3)?)?,
            })
        }
        "ip4-as" => {
            let a = t.tagged("ip4-as")?;
            E::Ipv4AddressSpecific(api::IPv4AddressSpecificExtended {
                is_transitive: a.first()?.as_bool()?,
                sub_type: as_u32(a.get(1)?)?,
                address: astr_to_string(a.get(2)?)?,
                local_admin: as_u32(a.get(3)?)?,
            })
        }
        "four-as" => {
            let a = t.tagged("four-as")?;
            E::FourOctetAsSpecific(api::FourOctetAsSpecificExtended {
                is_transitive: a.first()?.as_bool()?,
                sub_type: as_u32(a.get(1)?)?,
                asn: as_u32(a.get(2)?)?,
                local_admin: as_u32(a.get(3)?)?,
            })
        }
        "mup" => {
            let a = t.tagged("mup")?;
            E::Mup(api::MupExtended {
                sub_type: as_u32(a.first()?)?,
                segment_id2: as_u32(a.get(1)?)?,
                segment_id4: as_u32(a.get(2)?)?,
            })
        }
        "rate" => {
            let a = t.tagged("rate")?;
            E::TrafficRate(api::TrafficRateExtended {
                asn: as_u32(a.first()?)?,
                rate: f32::from_bits(as_u32(a.get(1)?)?),
            })
        }
        "action" => {
            let a = t.tagged("action")?;
            E::TrafficAction(api::TrafficActionExtended {
                terminal: a.first()?.as_bool()?,
                sample: a.get(1)?.as_bool()?,
            })
        }
        "redir2" => {
            let a = t.tagged("redir2")?;
            E::RedirectTwoOctetAsSpecific(api::RedirectTwoOctetAsSpecificExtended {
                asn: as_u32(a.first()?)?,
                local_admin: as_u32(a.get(1)?)?,
            })
        }
        "remark" => {
            let a = t.tagged("remark")?;
            E::TrafficRemark(api::TrafficRemarkExtended { dscp: as_u32(a.first()?)? })
        }
        "redir-ip" => {
            let a = t.tagged("redir-ip")?;
            E::RedirectIpv4AddressSpecific(api::RedirectIPv4AddressSpecificExtended {
                address: astr_to_string(a.first()?)?,
                local_admin: as_u32(a.get(1)?)?,
            })
        }
        "redir4" => {
            let a = t.tagged("redir4")?;
            E::RedirectFourOctetAsSpecific(api::RedirectFourOctetAsSpecificExtended {
                asn: as_u32(a.first()?)?,
                local_admin: as_u32(a.get(1)?)?,
            })
        }
        _ => return None,
    };
    Some(api::ExtendedCommunity { extcom: Some(e) })
}

fn extcom_t(e: &api::ExtendedCommunity) -> Term {
    use api::extended_community::Extcom as E;
    match &e.extcom {
        None => Term::atom("ec-missing"),
        Some(E::Unknown(u)) => Term::tag("ec-unknown", vec![nat(u.r#type), Term::bytes(&u.value)]),
        Some(E::TwoOctetAsSpecific(x)) => Term::tag(
            "two-as",
            vec![Term::boolean(x.is_transitive), nat(x.sub_type), nat(x.asn), nat(x.local_admin)],
        ),
        Some(E::Ipv4AddressSpecific(x)) => Term::tag(
            "ip4-as",
            vec![Term::boolean(x.is_transitive), nat(x.sub_type), string_to_astr(&x.address), nat(x.local_admin)],
        ),
        Some(E::FourOctetAsSpecific(x)) => Term::tag(
            "four-as",
            vec![Term::boolean(x.is_transitive), nat(x.sub_type), nat(x.asn), nat(x.local_admin)],
        ),
        Some(E::Mup(x)) => Term::tag("mup", vec![nat(x.sub_type), nat(x.segment_id2), nat(x.segment_id4)]),
        Some(E::TrafficRate(x)) => Term::tag("rate", vec![nat(x.asn), nat(x.rate.to_bits())]),
        Some(E::TrafficAction(x)) => Term::tag("action", vec![Term::boolean(x.terminal), Term::boolean(x.sample)]),
        Some(E::RedirectTwoOctetAsSpecific(x)) => Term::tag("redir2", vec![nat(x.asn), nat(x.local_admin)]),
        Some(E::TrafficRemark(x)) => Term::tag("remark", vec![nat(x.dscp)]),
        Some(E::RedirectIpv4AddressSpecific(x)) => {
            Term::tag("redir-ip", vec![string_to_astr(&x.address), nat(x.local_admin)])
        }
        Some(E::RedirectFourOctetAsSpecific(x)) => Term::tag("redir4", vec![nat(x.asn), nat(x.local_admin)]),
        Some(_) => Term::atom("ec-other"),
    }
}

fn api_attr_from_term(t: &Term) -> Option<api::Attribute> {
    use api::attribute::Attr as A;
    let a = match t.head()? {
        "missing" => return Some(api::Attribute { attr: None }),
        "other" => A::As4Path(api::As4PathAttribute::default()),
        "unknown" => {
            let x = t.tagged("unknown")?;
            A::Unknown(api::UnknownAttribute {
                flags: as_u32(x.first()?)?,
                r#type: as_u32(x.get(1)?)?,
                value: x.get(2)?.as_bytes()?,
            })
        }
        "origin" => A::Origin(api::OriginAttribute { origin: as_u32(t.tagged("origin")?.first()?)? }),
        "as-path" => {
            let segs = t.tagged("as-path")?.first()?.as_list()?;
            let mut v = Vec::new();
            for s in segs {
                let l = s.as_list()?;
                let ty = as_u32(l.first()?)?;
                let nums: Option<Vec<u32>> = l.get(1)?.as_list()?.iter().map(as_u32).collect();
                v.push(api::AsSegment { r#type: ty as i32, numbers: nums? });
            }
            A::AsPath(api::AsPathAttribute { segments: v })
        }
        "mp-reach" => {
            // (mp-reach none|(AFI SAFI) (ASTR..)): afi / safi are the u32 bit patterns of the i32 fields
            let x = t.tagged("mp-reach")?;
            let family = match x.first()? {
                f if f.as_atom() == Some("none") => None,
                f => {
                    let l = f.as_list()?;
                    Some(api::Family { afi: as_u32(l.first()?)? as i32, safi: as_u32(l.get(1)?)? as i32 })
                }
            };
            let nhs: Option<Vec<String>> = x.get(1)?.as_list()?.iter().map(astr_to_string).collect();
            A::MpReach(api::MpReachNlriAttribute { family, next_hops: nhs?, nlris: vec![] })
        }
        "next-hop" => A::NextHop(api::NextHopAttribute { next_hop: astr_to_string(t.tagged("next-hop")?.first()?)? }),
        "med" => A::MultiExitDisc(api::MultiExitDiscAttribute { med: as_u32(t.tagged("med")?.first()?)? }),
        "local-pref" => A::LocalPref(api::LocalPrefAttribute { local_pref: as_u32(t.tagged("local-pref")?.first()?)? }),
        "atomic-aggregate" => A::AtomicAggregate(api::AtomicAggregateAttribute {}),
        "aggregator" => {
            let x = t.tagged("aggregator")?;
            A::Aggregator(api::AggregatorAttribute { asn: as_u32(x.first()?)?, address: astr_to_string(x.get(1)?)? })
        }
        "communities" => {
            let l: Option<Vec<u32>> = t.tagged("communities")?.first()?.as_list()?.iter().map(as_u32).collect();
            A::Communities(api::CommunitiesAttribute { communities: l? })
        }
        "originator-id" => {
            A::OriginatorId(api::OriginatorIdAttribute { id: astr_to_string(t.tagged("originator-id")?.first()?)? })
        }
        "cluster-list" => {
            let l: Option<Vec<String>> =
                t.tagged("cluster-list")?.first()?.as_list()?.iter().map(astr_to_string).collect();
            A::ClusterList(api::ClusterListAttribute { ids: l? })
        }
        "large-communities" => {
            let mut v = Vec::new();
            for x in t.tagged("large-communities")?.first()?.as_list()? {
                let l = x.as_list()?;
                v.push(api::LargeCommunity {
                    global_admin: as_u32(l.first()?)?,
                    local_data1: as_u32(l.get(1)?)?,
                    local_data2: as_u32(l.get(2)?)?,
                });
            }
            A::LargeCommunities(api::LargeCommunitiesAttribute { communities: v })
        }
        "ext-communities" => {
            let l: Option<Vec<api::ExtendedCommunity>> =
                t.tagged("ext-communities")?.first()?.as_list()?.iter().map(extcom_from_term).collect();
            A::ExtendedCommunities(api::ExtendedCommunitiesAttribute { communities: l? })
        }
        _ => return None,
    };
    Some(api::Attribute { attr: Some(a) })
}

fn api_attr_t(a: &api::Attribute) -> Term {
    use api::attribute::Attr as A;
    match &a.attr {
        None => Term::atom("missing"),
        Some(A::Unknown(u)) => Term::tag("unknown", vec![nat(u.flags), nat(u.r#type), Term::bytes(&u.value)]),
        Some(A::Origin(o)) => Term::tag("origin", vec![nat(o.origin)]),
        Some(A::AsPath(p)) => Term::tag(
            "as-path",
            vec![Term::list(
                p.segments
                    .iter()
                    .map(|s| {
                        Term::list(vec![
                            nat(s.r#type as u32),
                            Term::list(s.numbers.iter().map(|n| nat(*n)).collect()),
                        ])
                    })
                    .collect(),
            )],
        ),
        Some(A::NextHop(n)) => Term::tag("next-hop", vec![string_to_astr(&n.next_hop)]),
        Some(A::MultiExitDisc(m)) => Term::tag("med", vec![nat(m.med)]),
        Some(A::LocalPref(l)) => Term::tag("local-pref", vec![nat(l.local_pref)]),
        Some(A::AtomicAggregate(_)) => Term::atom("atomic-aggregate"),
        Some(A::Aggregator(g)) => Term::tag("aggregator", vec![nat(g.asn), string_to_astr(&g.address)]),
        Some(A::Communities(c)) => {
            Term::tag("communities", vec![Term::list(c.communities.iter().map(|n| nat(*n)).collect())])
        }
        Some(A::OriginatorId(o)) => Term::tag("originator-id", vec![string_to_astr(&o.id)]),
        Some(A::ClusterList(c)) => {
            Term::tag("cluster-list", vec![Term::list(c.ids.iter().map(|s| string_to_astr(s)).collect())])
        }
        Some(A::LargeCommunities(c)) => Term::tag(
            "large-communities",
            vec![Term::list(
                c.communities
                    .iter()
                    .map(|x| Term::list(vec![nat(x.global_admin), nat(x.local_data1), nat(x.local_data2)]))
                    .collect(),
            )],
        ),
        Some(A::ExtendedCommunities(c)) => {
            Term::tag("ext-communities", vec![Term::list(c.communities.iter().map(extcom_t).collect())])
        }
        Some(_) => Term::atom("other"),
    }
}

// ------------------------------------------------------------------ outcomes
enum Out<T> {
    Ok(T),
    Err,
    Panic,
}
fn out_t<T>(o: &Out<T>, mut f: impl FnMut(&T) -> Term) -> Term {
    match o {
        Out::Ok(x) => Term::tag("ok", vec![f(x)]),
        Out::Err => Term::atom("err"),
        Out::Panic => Term::atom("panic"),
    }
}
fn unit_out_t(o: &Out<()>) -> Term {
    Term::atom(match o {
        Out::Ok(_) => "ok",
        Out::Err => "err",
        Out::Panic => "panic",
    })
}
fn guard<T>(f: impl FnOnce() -> T) -> Out<T> {
    match catch_unwind(AssertUnwindSafe(f)) {
        Ok(x) => Out::Ok(x),
        Err(_) => Out::Panic,
    }
}
fn guard_res<T, E>(f: impl FnOnce() -> Result<T, E>) -> Out<T> {
    match catch_unwind(AssertUnwindSafe(f)) {
        Ok(Ok(x)) => Out::Ok(x),
        Ok(Err(_)) => Out::Err,
        Err(_) => Out::Panic,
    }
}

// ------------------------------------------------------------------ wire frames
fn update_frame(attrs: &[u8], nlri: &[u8]) -> Vec<u8> {
    let mut f = vec![0xffu8; 16];
    let total = 19 + 2 + 2 + attrs.len() + nlri.len();
    f.extend_from_slice(&(total as u16).to_be_bytes());
    f.push(2);
    f.extend_from_slice(&0u16.to_be_bytes());
    f.extend_from_slice(&(attrs.len() as u16).to_be_bytes());
    f.extend_from_slice(attrs);
    f.extend_from_slice(nlri);
    f
}
fn attr_tlv(code: u8, flags: u8, val: &[u8]) -> Vec<u8> {
    let mut v = vec![flags, code];
    if flags & 0x10 != 0 {
        v.extend_from_slice(&(val.len() as u16).to_be_bytes());
    } else {
        v.push(val.len() as u8);
    }
    v.extend_from_slice(val);
    v
}

enum Decoded {
    Stored(Attribute),
    Rejected,
    Dropped,
    ParseError,
}

/// One attribute through the real UPDATE parser of a four-octet-AS session.  The frame carries no
/// NLRI, so no mandatory-attribute rule interferes.
fn decode_attr(code: u8, flags: u8, val: &[u8]) -> Decoded {
    let frame = update_frame(&attr_tlv(code, flags, val), &[]);
    let mut codec = PeerCodec::new();
    codec.two_byte_as = false;
    codec.set_family(Family::IPV4, FamilyState { addpath_rx: false, addpath_tx: false });
    match codec.parse_message(&frame) {
        Ok(ParsedMessage::Update(ParsedUpdate::Routes { attrs, error_attrs, .. })) => {
            if let Some(a) = attrs.into_iter().find(|a| a.code() == code) {
                Decoded::Stored(a)
            } else if error_attrs.iter().any(|e| e.attr_code == code) {
                Decoded::Rejected
            } else {
                Decoded::Dropped
            }
        }
        _ => Decoded::ParseError,
    }
}

// ------------------------------------------------------------------ consumers
fn origin_igp() -> Attribute {
    Attribute::new_with_value(Attribute::ORIGIN, 0).unwrap()
}
fn base_as_path() -> Attribute {
    Attribute::new_with_bin(Attribute::AS_PATH, vec![2, 1, 0, 0, 0xfd, 0xe9]).unwrap()
}
fn path_attrs(a: &Attribute) -> Vec<Attribute> {
    let mut v = vec![a.clone()];
    if a.code() != Attribute::ORIGIN {
        v.push(origin_igp());
    }
    if a.code() != Attribute::AS_PATH {
        v.push(base_as_path());
    }
    v
}
fn source(n: u8) -> Arc<table::Source> {
    Arc::new(table::Source::new(
        IpAddr::V4(Ipv4Addr::new(192, 0, 2, n)),
        IpAddr::V4(Ipv4Addr::new(192, 0, 2, 254)),
        65001,
        65000,
        Ipv4Addr::new(192, 0, 2, n),
        table::PeerRole::Ebgp,
    ))
}
fn v4_net() -> Nlri {
    Nlri::V4(bgp::Ipv4Net { addr: Ipv4Addr::new(10, 0, 0, 0), mask: 8 })
}

/// two paths with the same attributes from two peers: every step of `impl Ord for RibEntry` ties
/// up to the router-id step, so every accessor is evaluated on the attributes under test
fn use_cmp(attrs: &[Attribute], family: Family, net: &Nlri) -> Out<()> {
    guard(|| {
        let mut t = table::Table::new(0);
        let nh = Some(bgp::Nexthop::V4(Ipv4Addr::new(192, 0, 2, 1)));
        for n in [1u8, 2u8] {
            let arc = Arc::new(attrs.to_vec());
            let _ = t.insert(source(n), family, net.clone(), 0, nh, arc, None, false, false, None, 0);
        }
    })
}

fn use_policy(attrs: &[Attribute]) -> Out<Vec<u8>> {
    guard(|| {
        let st = table::Statement {
            name: Arc::from("s"),
            conditions: vec![table::Condition::AsPathLength(table::Comparison::Ge, 0)],
            disposition: None,
            actions: table::Actions {
                as_prepend: Some(table::AsPrependAction { asn: 65000, repeat: 1, use_left_most: false }),
                ..Default::default()
            },
        };
        // statements that read / rewrite the community attributes and the scalar ones; they never match
        // on AS_PATH, so the AS_PATH returned below is still the one produced by `st`
        let re = |s: &str| regex::Regex::new(s).unwrap();
        let st_comm = table::Statement {
            name: Arc::from("c"),
            conditions: vec![
                table::Condition::Community(
                    "cs".into(),
                    table::MatchOption::Invert,
                    Arc::new(table::CommunitySet { sets: vec![re("^65535:65281$")] }),
                ),
                table::Condition::ExtCommunity(
                    "es".into(),
                    table::MatchOption::Invert,
                    Arc::new(table::ExtCommunitySet { sets: vec![re("^rt:1:1$")] }),
                ),
                table::Condition::LargeCommunity(
                    "ls".into(),
                    table::MatchOption::Invert,
                    Arc::new(table::LargeCommunitySet { sets: vec![re("^1:2:3$")] }),
                ),
                table::Condition::CommunityCount(table::Comparison::Ge, 0),
            ],
            disposition: None,
            actions: table::Actions {
                community: Some(table::CommunityAction {
                    action_type: table::CommunityActionType::Add,
                    communities: vec![0xffff0001],
                }),
                ext_community: Some(table::ExtCommunityAction {
                    action_type: table::CommunityActionType::Remove,
                    communities: vec![[0, 2, 0, 1, 0, 0, 0, 1]],
                }),
                large_community: Some(table::LargeCommunityAction {
                    action_type: table::CommunityActionType::Add,
                    communities: vec![(1, 2, 3)],
                }),
                med: Some(table::MedAction { action_type: table::MedActionType::Mod, value: 10 }),
                local_pref: Some(table::LocalPrefAction { value: 200 }),
                origin: Some(table::OriginAction { origin: 1 }),
                ..Default::default()
            },
        };
        let st_scalar = table::Statement {
            name: Arc::from("v"),
            conditions: vec![
                table::Condition::LocalPrefEq(100),
                table::Condition::MedEq(0),
                table::Condition::Origin(0),
            ],
            disposition: None,
            actions: Default::default(),
        };
        let pol = table::Policy {
            name: Arc::from("p"),
            statements: vec![Arc::new(st_scalar), Arc::new(st_comm), Arc::new(st)],
        };
        let asg = table::PolicyAssignment {
            name: Arc::from("a"),
            disposition: table::Disposition::Accept,
            policies: vec![Arc::new(pol)],
            needs_rpki: false,
        };
        let arc = Arc::new(attrs.to_vec());
        let mut nh = Some(bgp::Nexthop::V4(Ipv4Addr::new(192, 0, 2, 1)));
        let (_f, out) = table::apply_import(&asg, None, &source(1), &v4_net(), &arc, &mut nh);
        out.iter()
            .find(|a| a.code() == Attribute::AS_PATH)
            .and_then(|a| a.binary().cloned())
            .unwrap_or_default()
    })
}

fn use_msg(attrs: &[Attribute], two_byte: bool) -> Out<()> {
    guard_res(|| {
        let mut codec = PeerCodec::new();
        codec.two_byte_as = two_byte;
        codec.set_family(Family::IPV4, FamilyState { addpath_rx: false, addpath_tx: false });
        let msg = bgp::Message::Update(bgp::Update::Reach {
            family: Family::IPV4,
            entries: vec![packet::PathNlri { path_id: 0, nlri: v4_net() }],
            nexthop: Some(bgp::Nexthop::V4(Ipv4Addr::new(192, 0, 2, 1))),
            attr: Arc::new(attrs.to_vec()),
        });
        let mut dst = bytes::BytesMut::with_capacity(8192);
        codec.encode_to(&msg, &mut dst).map(|_| ())
    })
}

fn use_t(a: &Attribute) -> (Term, bool) {
    let attrs = path_attrs(a);
    let is_path = a.code() == Attribute::AS_PATH;
    let len = if is_path { Some(guard(|| a.as_path_length())) } else { None };
    let origin = if is_path { Some(guard(|| a.as_path_origin())) } else { None };
    let enc = guard(|| a.encode_to_bytes());
    let cmp = use_cmp(&attrs, Family::IPV4, &v4_net());
    let pol = use_policy(&attrs);
    let m4 = use_msg(&attrs, false);
    let m2 = use_msg(&attrs, true);
    let panicked = matches!(len, Some(Out::Panic))
        || matches!(origin, Some(Out::Panic))
        || matches!(enc, Out::Panic)
        || matches!(cmp, Out::Panic)
        || matches!(pol, Out::Panic)
        || matches!(m4, Out::Panic)
        || matches!(m2, Out::Panic);
    let t = Term::tag(
        "use",
        vec![
            match &len {
                None => Term::atom("na"),
                Some(o) => out_t(o, |n| nat(*n as u64)),
            },
            match &origin {
                None => Term::atom("na"),
                Some(o) => out_t(o, |n| Term::opt(n.map(|x| nat(x)))),
            },
            out_t(&enc, |b| Term::bytes(b)),
            unit_out_t(&cmp),
            out_t(&pol, |b| Term::bytes(b)),
            unit_out_t(&m4),
            unit_out_t(&m2),
        ],
    );
    (t, panicked)
}

fn modelled_code(code: u8) -> bool {
    code != 23 && code != 29 && code != 40
}

fn attr_obs(a: &Attribute) -> Term {
    let api = guard(|| convert::attr_to_api(a));
    let back = match &api {
        Out::Ok(x) => {
            let x = x.clone();
            Some(guard_res(move || convert::attr_from_api(x)))
        }
        _ => None,
    };
    Term::tag(
        "attr-obs",
        vec![
            attr_t(a),
            Term::tag("api", vec![out_t(&api, api_attr_t)]),
            Term::tag(
                "back",
                vec![match &back {
                    None => Term::atom("none"),
                    Some(o) => out_t(o, attr_t),
                }],
            ),
            use_t(a).0,
        ],
    )
}

// ------------------------------------------------------------------ NLRI
fn rd_t(rd: &packet::rd::RouteDistinguisher) -> Term {
    use packet::rd::RouteDistinguisher as R;
    match *rd {
        R::TwoOctetAs { admin, assigned } => Term::tag("rd2", vec![nat(admin), nat(assigned)]),
        R::Ipv4 { admin, assigned } => Term::tag("rd-ip", vec![nat(u32::from(admin)), nat(assigned)]),
        R::FourOctetAs { admin, assigned } => Term::tag("rd4", vec![nat(admin), nat(assigned)]),
    }
}
fn labels_t(l: &packet::mpls::MplsLabelStack) -> Term {
    Term::list(l.labels().iter().map(|x| nat(x.value())).collect())
}
fn nlri_t(n: &Nlri) -> Option<Term> {
    Some(match n {
        Nlri::V4(p) => Term::tag("v4", vec![nat(u32::from(p.addr)), nat(p.mask)]),
        Nlri::V6(p) => Term::tag("v6", vec![nat(u128::from(p.addr)), nat(p.mask)]),
        Nlri::LabeledV4(x) => {
            Term::tag("lv4", vec![labels_t(&x.labels), nat(u32::from(x.prefix.addr)), nat(x.prefix.mask)])
        }
        Nlri::LabeledV6(x) => {
            Term::tag("lv6", vec![labels_t(&x.labels), nat(u128::from(x.prefix.addr)), nat(x.prefix.mask)])
        }
        Nlri::VpnV4(x) => Term::tag(
            "vpn4",
            vec![labels_t(&x.labels), rd_t(&x.rd), nat(u32::from(x.prefix.addr)), nat(x.prefix.mask)],
        ),
        Nlri::VpnV6(x) => Term::tag(
            "vpn6",
            vec![labels_t(&x.labels), rd_t(&x.rd), nat(u128::from(x.prefix.addr)), nat(x.prefix.mask)],
        ),
        _ => return None,
    })
}

fn api_rd_from_term(t: &Term) -> Option<api::RouteDistinguisher> {
    use api::route_distinguisher::Rd as R;
    let r = match t.head()? {
        "rd-missing" => return Some(api::RouteDistinguisher { rd: None }),
        "rd2" => {
            let a = t.tagged("rd2")?;
            R::TwoOctetAsn(api::RouteDistinguisherTwoOctetAsn { admin: as_u32(a.first()?)?, assigned: as_u32(a.get(1)?)? })
        }
        "rd-ip" => {
            let a = t.tagged("rd-ip")?;
            R::IpAddress(api::RouteDistinguisherIpAddress {
                admin: astr_to_string(a.first()?)?,
                assigned: as_u32(a.get(1)?)?,
            })
        }
        "rd4" => {
            let a = t.tagged("rd4")?;
            R::FourOctetAsn(api::RouteDistinguisherFourOctetAsn { admin: as_u32(a.first()?)?, assigned: as_u32(a.get(1)?)? })
        }
        _ => return None,
    };
    Some(api::RouteDistinguisher { rd: Some(r) })
}
fn api_rd_t(r: &api::RouteDistinguisher) -> Term {
    use api::route_distinguisher::Rd as R;
    match &r.rd {
        None => Term::atom("rd-missing"),
        Some(R::TwoOctetAsn(x)) => Term::tag("rd2", vec![nat(x.admin), nat(x.assigned)]),
        Some(R::IpAddress(x)) => Term::tag("rd-ip", vec![string_to_astr(&x.admin), nat(x.assigned)]),
        Some(R::FourOctetAsn(x)) => Term::tag("rd4", vec![nat(x.admin), nat(x.assigned)]),
    }
}

fn u32_list(t: &Term) -> Option<Vec<u32>> {
    t.as_list()?.iter().map(as_u32).collect()
}

fn api_nlri_from_term(t: &Term) -> Option<api::Nlri> {
    use api::nlri::Nlri as N;
    let n = match t.head()? {
        "n-missing" => return Some(api::Nlri { nlri: None }),
        "n-other" => N::Opaque(api::OpaqueNlri::default()),
        "prefix" => {
            let a = t.tagged("prefix")?;
            N::Prefix(api::IpAddressPrefix { prefix: astr_to_string(a.first()?)?, prefix_len: as_u32(a.get(1)?)? })
        }
        "labeled" => {
            let a = t.tagged("labeled")?;
            N::LabeledPrefix(api::LabeledIpAddressPrefix {
                labels: u32_list(a.first()?)?,
                prefix_len: as_u32(a.get(1)?)?,
                prefix: astr_to_string(a.get(2)?)?,
            })
        }
        "vpn" => {
            let a = t.tagged("vpn")?;
            let rd = match a.get(1)? {
                Term::Atom(s) if s == "none" => None,
                x => Some(api_rd_from_term(x.tagged("some")?.first()?)?),
            };
            N::LabeledVpnIpPrefix(api::LabeledVpnipAddressPrefix {
                labels: u32_list(a.first()?)?,
                rd,
                prefix_len: as_u32(a.get(2)?)?,
                prefix: astr_to_string(a.get(3)?)?,
            })
        }
        _ => return None,
    };
    Some(api::Nlri { nlri: Some(n) })
}

fn api_nlri_t(n: &api::Nlri) -> Term {
    use api::nlri::Nlri as N;
    match &n.nlri {
        None => Term::atom("n-missing"),
        Some(N::Prefix(p)) => Term::tag("prefix", vec![string_to_astr(&p.prefix), nat(p.prefix_len)]),
        Some(N::LabeledPrefix(p)) => Term::tag(
            "labeled",
            vec![Term::list(p.labels.iter().map(|x| nat(*x)).collect()), nat(p.prefix_len), string_to_astr(&p.prefix)],
        ),
        Some(N::LabeledVpnIpPrefix(p)) => Term::tag(
            "vpn",
            vec![
                Term::list(p.labels.iter().map(|x| nat(*x)).collect()),
                Term::opt(p.rd.as_ref().map(api_rd_t)),
                nat(p.prefix_len),
                string_to_astr(&p.prefix),
            ],
        ),
        Some(_) => Term::atom("n-other"),
    }
}

fn fam_of(name: &str) -> Option<Family> {
    Some(match name {
        "v4" => Family::IPV4,
        "v6" => Family::IPV6,
        "lv4" => Family::IPV4_MPLS,
        "lv6" => Family::IPV6_MPLS,
        "vpn4" => Family::IPV4_VPN,
        "vpn6" => Family::IPV6_VPN,
        _ => return None,
    })
}

/// NLRI bytes through the real UPDATE parser: trailing NLRI field for IPv4 unicast, MP_REACH_NLRI otherwise.
fn decode_nlris(family: Family, bytes: &[u8]) -> Out<Vec<packet::PathNlri>> {
    let mut attrs = Vec::new();
    attrs.extend(attr_tlv(1, 0x40, &[0]));
    attrs.extend(attr_tlv(2, 0x40, &[2, 1, 0, 0, 0xfd, 0xe9]));
    let mut nlri: &[u8] = &[];
    if family == Family::IPV4 {
        attrs.extend(attr_tlv(3, 0x40, &[192, 0, 2, 1]));
        nlri = bytes;
    } else {
        let mut v = Vec::new();
        v.extend_from_slice(&family.afi().to_be_bytes());
        v.push(family.safi());
        let vpn = family == Family::IPV4_VPN || family == Family::IPV6_VPN;
        let v6 = family.afi() == 2;
        let mut nh: Vec<u8> = Vec::new();
        if vpn {
            nh.extend_from_slice(&[0u8; 8]);
        }
        if v6 {
            nh.extend_from_slice(&Ipv6Addr::from_str("2001:db8::1").unwrap().octets());
        } else {
            nh.extend_from_slice(&[192, 0, 2, 1]);
        }
        v.push(nh.len() as u8);
        v.extend(nh);
        v.push(0);
        v.extend_from_slice(bytes);
        attrs.extend(attr_tlv(14, 0x90, &v));
    }
    let frame = update_frame(&attrs, nlri);
    let mut codec = PeerCodec::new();
    codec.two_byte_as = false;
    codec.set_family(Family::IPV4, FamilyState { addpath_rx: false, addpath_tx: false });
    codec.set_family(family, FamilyState { addpath_rx: false, addpath_tx: false });
    guard_res(move || match codec.parse_message(&frame) {
        Ok(ParsedMessage::Update(ParsedUpdate::Routes { reach, mp_reach, error_attrs, .. })) => {
            if !error_attrs.is_empty() {
                return Err(());
            }
            let r = if family == Family::IPV4 { reach } else { mp_reach };
            match r {
                Some(r) if !r.entries.is_empty() => Ok(r.entries),
                _ => Err(()),
            }
        }
        _ => Err(()),
    })
}

/// `encode_to` of a Reach carrying the prefix (NLRI field for IPv4 unicast, MP_REACH_NLRI otherwise)
fn use_nlri_msg(n: &Nlri, family: Family) -> Out<()> {
    guard_res(|| {
        let mut codec = PeerCodec::new();
        codec.two_byte_as = false;
        codec.set_family(Family::IPV4, FamilyState { addpath_rx: false, addpath_tx: false });
        codec.set_family(family, FamilyState { addpath_rx: false, addpath_tx: false });
        let nexthop = if family.afi() == 2 {
            bgp::Nexthop::V6(Ipv6Addr::from_str("2001:db8::1").unwrap())
        } else {
            bgp::Nexthop::V4(Ipv4Addr::new(192, 0, 2, 1))
        };
        let msg = bgp::Message::Update(bgp::Update::Reach {
            family,
            entries: vec![packet::PathNlri { path_id: 0, nlri: n.clone() }],
            nexthop: Some(nexthop),
            attr: Arc::new(vec![origin_igp(), base_as_path()]),
        });
        let mut dst = bytes::BytesMut::with_capacity(8192);
        codec.encode_to(&msg, &mut dst).map(|_| ())
    })
}

fn nlri_obs(n: &Nlri, family: Family) -> Option<Term> {
    let api = convert::nlri_to_api(n);
    let a2 = api.clone();
    let back = guard_res(move || convert::net_from_api(a2, family));
    let enc = guard(|| n.encode_to_bytes());
    let msg = use_nlri_msg(n, family);
    let ins = use_cmp(&[origin_igp(), base_as_path()], family, n);
    let mut ok = true;
    let bt = out_t(&back, |x| match nlri_t(x) {
        Some(t) => t,
        None => {
            ok = false;
            Term::atom("?")
        }
    });
    if !ok {
        return None;
    }
    Some(Term::tag(
        "n",
        vec![nlri_t(n)?, api_nlri_t(&api), bt, out_t(&enc, |b| Term::bytes(b)), unit_out_t(&msg), unit_out_t(&ins)],
    ))
}

// ------------------------------------------------------------------ exploration (kinds outside the model)
fn x_fail(why: &str) -> String {
    format!("(x fail {})", why)
}

/// how a re-imported value differs from the stored one (fallback when the value has no TLV framing)
fn diff_class(orig: &[u8], back: &[u8]) -> String {
    if back.len() > orig.len() {
        "roundtrip-longer".into()
    } else if back.len() < orig.len() {
        "roundtrip-shorter".into()
    } else {
        let (mut a, mut b) = (orig.to_vec(), back.to_vec());
        a.sort();
        b.sort();
        if a == b { "roundtrip-reordered".into() } else { "roundtrip-changed".into() }
    }
}

/// top-level TLVs of an attribute value: (type, whole TLV); `type_len` = width of the type field, the
/// length field is two octets
fn split_tlvs(b: &[u8], type_len: usize) -> Option<Vec<(u32, Vec<u8>)>> {
    let mut out = Vec::new();
    let mut pos = 0;
    while pos < b.len() {
        if pos + type_len + 2 > b.len() {
            return None;
        }
        let ty = if type_len == 1 { b[pos] as u32 } else { u16::from_be_bytes([b[pos], b[pos + 1]]) as u32 };
        let l = u16::from_be_bytes([b[pos + type_len], b[pos + type_len + 1]]) as usize;
        let end = pos + type_len + 2 + l;
        if end > b.len() {
            return None;
        }
        out.push((ty, b[pos..end].to_vec()));
        pos = end;
    }
    Some(out)
}

/// One oracle clause per defect kind: names the first TLV type that is dropped / duplicated / altered /
/// invented by the round trip, or says that only the order changed.
fn diff_tlvs(code: u8, orig: &[u8], back: &[u8]) -> String {
    let type_len = if code == 40 { 1 } else { 2 };
    let (Some(a), Some(b)) = (split_tlvs(orig, type_len), split_tlvs(back, type_len)) else {
        return diff_class(orig, back);
    };
    for (ty, tlv) in &a {
        let na = a.iter().filter(|x| x.1 == *tlv).count();
        let nb = b.iter().filter(|x| x.1 == *tlv).count();
        if nb == na {
            continue;
        }
        let same_type = b.iter().filter(|x| x.0 == *ty).count();
        return if nb > na {
            format!("roundtrip-tlv{}-duplicated", ty)
        } else if same_type == 0 {
            format!("roundtrip-tlv{}-dropped", ty)
        } else {
            format!("roundtrip-tlv{}-changed", ty)
        };
    }
    for (ty, tlv) in &b {
        if !a.iter().any(|x| x.1 == *tlv) {
            return format!("roundtrip-tlv{}-added", ty);
        }
    }
    "roundtrip-reordered".into()
}

fn dbg() -> bool {
    std::env::var("VERIF_C17_DEBUG").is_ok()
}

/// `exact`: pristine fixture, the round trip must be the identity.  Otherwise (mutated fixture, possibly
/// carrying TLVs the API has no message for) only safety and display stability are required:
/// no panic, the value is accepted back, and a second round trip changes nothing more.
fn explore_attr(code: u8, flags: u8, val: &[u8], exact: bool) -> String {
    let a = match decode_attr(code, flags, val) {
        Decoded::Stored(a) => a,
        _ => return "(x ok)".into(),
    };
    let api = match guard(|| convert::attr_to_api(&a)) {
        Out::Ok(x) => x,
        _ => return x_fail("to-api-panics"),
    };
    if dbg() {
        eprintln!("explore attr {:?}\n  api {:?}", a, api);
    }
    if use_t(&a).1 {
        return x_fail("value-crashes-consumer");
    }
    let b = match guard_res(move || convert::attr_from_api(api)) {
        Out::Ok(b) => b,
        // a mutated value may be one the (lax) wire decoder keeps but the API boundary refuses: not unsafe
        Out::Err => return if exact { x_fail("roundtrip-value-rejected") } else { "(x ok)".into() },
        Out::Panic => return x_fail("from-api-panics"),
    };
    if dbg() && b != a {
        eprintln!("  back {:?}", b);
    }
    // the consumers run on the stored and on the re-imported value whatever the round trip gave
    if use_t(&b).1 {
        return x_fail("reimported-value-crashes-consumer");
    }
    if exact {
        if b != a {
            if b.code() == a.code() && b.binary() == a.binary() && b.value() == a.value() {
                return x_fail("roundtrip-flags-differ");
            }
            return match (a.binary(), b.binary()) {
                (Some(x), Some(y)) => x_fail(&diff_tlvs(code, x, y)),
                _ => x_fail("roundtrip-changed"),
            };
        }
    } else {
        let api2 = match guard(|| convert::attr_to_api(&b)) {
            Out::Ok(x) => x,
            _ => return x_fail("to-api-panics-on-reimported"),
        };
        match guard_res(move || convert::attr_from_api(api2)) {
            Out::Ok(c) => {
                if c != b {
                    return x_fail("display-not-stable");
                }
            }
            Out::Err => return x_fail("reimported-value-rejected"),
            Out::Panic => return x_fail("from-api-panics"),
        }
    }
    "(x ok)".into()
}

fn explore_nlri(afi: u16, safi: u8, bytes: &[u8], exact: bool) -> String {
    let family = Family::new(afi, safi);
    let entries = match decode_nlris(family, bytes) {
        Out::Ok(e) => e,
        Out::Err => return "(x ok)".into(),
        Out::Panic => return x_fail("decoder-panics"),
    };
    for e in entries {
        let n = e.nlri;
        let api = match guard(|| convert::nlri_to_api(&n)) {
            Out::Ok(x) => x,
            _ => return x_fail("to-api-panics"),
        };
        if dbg() {
            eprintln!("explore nlri {:?}\n  api {:?}", n, api);
        }
        let b = match guard_res(move || convert::net_from_api(api, family)) {
            Out::Ok(b) => b,
            Out::Err => {
                if exact {
                    return x_fail("roundtrip-value-rejected");
                }
                continue;
            }
            Out::Panic => return x_fail("from-api-panics"),
        };
        if dbg() && b != n {
            eprintln!("  back {:?}", b);
        }
        let enc_n = match guard(|| n.encode_to_bytes()) {
            Out::Ok(x) => x,
            _ => return x_fail("value-crashes-encode"),
        };
        let enc_b = match guard(|| b.encode_to_bytes()) {
            Out::Ok(x) => x,
            _ => return x_fail("reimported-value-crashes-encode"),
        };
        let attrs = vec![origin_igp(), base_as_path()];
        if matches!(use_cmp(&attrs, family, &n), Out::Panic) {
            return x_fail("value-crashes-table-insert");
        }
        if matches!(use_cmp(&attrs, family, &b), Out::Panic) {
            return x_fail("reimported-value-crashes-table-insert");
        }
        if matches!(use_nlri_msg(&n, family), Out::Panic) {
            return x_fail("value-crashes-update-encode");
        }
        if matches!(use_nlri_msg(&b, family), Out::Panic) {
            return x_fail("reimported-value-crashes-update-encode");
        }
        if exact {
            if b != n {
                // BGP-LS: name the NLRI type (first two octets) so that each kind is its own finding
                let class = diff_class(&enc_n, &enc_b);
                if afi == 16388 && enc_n.len() >= 2 {
                    return x_fail(&format!("{}-nlri-type{}", class, u16::from_be_bytes([enc_n[0], enc_n[1]])));
                }
                return x_fail(&class);
            }
        } else {
            let api2 = match guard(|| convert::nlri_to_api(&b)) {
                Out::Ok(x) => x,
                _ => return x_fail("to-api-panics-on-reimported"),
            };
            match guard_res(move || convert::net_from_api(api2, family)) {
                Out::Ok(c) => {
                    if c != b {
                        return x_fail("display-not-stable");
                    }
                }
                Out::Err => return x_fail("reimported-value-rejected"),
                Out::Panic => return x_fail("from-api-panics"),
            }
        }
    }
    "(x ok)".into()
}

// ------------------------------------------------------------------ API messages of kinds outside the model
const MACS: [&str; 6] = ["00:11:22:33:44:55", "", "00:11:22:33:44", "00:11:22:33:44:5g", "0:1:2:3:4:5", "001122334455"];

fn rd_of(k: u32) -> Option<api::RouteDistinguisher> {
    use api::route_distinguisher::Rd as R;
    match k % 4 {
        0 => None,
        1 => Some(api::RouteDistinguisher { rd: None }),
        2 => Some(api::RouteDistinguisher {
            rd: Some(R::TwoOctetAsn(api::RouteDistinguisherTwoOctetAsn { admin: 65001, assigned: 7 })),
        }),
        _ => Some(api::RouteDistinguisher {
            rd: Some(R::TwoOctetAsn(api::RouteDistinguisherTwoOctetAsn { admin: 70000, assigned: 7 })),
        }),
    }
}

/// an accepted attribute of an unmodelled kind: must be displayable, re-importable to the same value, and safe
fn accepted_attr_ok(a: &Attribute, sent: Option<&api::Attribute>) -> String {
    if use_t(a).1 {
        return x_fail("accepted-value-crashes-consumer");
    }
    // what is accepted satisfies the decoder's invariants: received from a peer, the same value is stored
    // (MP_REACH / MP_UNREACH are consumed by the UPDATE parser, never stored)
    if let Some(b) = a.binary()
        && a.code() != Attribute::MP_REACH
        && a.code() != Attribute::MP_UNREACH
        && (b.len() <= 255 || a.flags() & 0x10 != 0)
    {
        let (code, flags, b2, a2) = (a.code(), a.flags(), b.clone(), a.clone());
        match guard(move || decode_attr(code, flags, &b2)) {
            Out::Ok(Decoded::Stored(d)) if d == a2 => {}
            Out::Ok(Decoded::Stored(_)) => return x_fail("accepted-value-reads-back-different"),
            Out::Ok(_) => return x_fail("accepted-value-not-decodable"),
            _ => return x_fail("decoder-panics-on-accepted"),
        }
    }
    let api = match guard(|| convert::attr_to_api(a)) {
        Out::Ok(x) => x,
        _ => return x_fail("to-api-panics-on-accepted"),
    };
    // "listed with the same content as added": the message shown for the accepted value is the one sent
    if let Some(x) = sent
        && &api != x
    {
        return x_fail("listed-differs-from-added");
    }
    match guard_res(move || convert::attr_from_api(api)) {
        Out::Ok(b) => {
            if &b != a {
                return x_fail("accepted-value-not-stable");
            }
        }
        Out::Err => return x_fail("accepted-value-not-reimportable"),
        Out::Panic => return x_fail("from-api-panics"),
    }
    "(x ok)".into()
}

fn accepted_nlri_ok(n: &Nlri, family: Family) -> String {
    if matches!(guard(|| n.encode_to_bytes()), Out::Panic) {
        return x_fail("accepted-value-crashes-encode");
    }
    if matches!(use_nlri_msg(n, family), Out::Panic) {
        return x_fail("accepted-value-crashes-update-encode");
    }
    if matches!(use_cmp(&[origin_igp(), base_as_path()], family, n), Out::Panic) {
        return x_fail("accepted-value-crashes-table-insert");
    }
    // what is accepted satisfies the decoder's invariants: its wire form is read back as the same value
    let bytes = match guard(|| n.encode_to_bytes()) {
        Out::Ok(b) => b,
        _ => Vec::new(),
    };
    if !bytes.is_empty() {
        match decode_nlris(family, &bytes) {
            Out::Ok(v) if v.len() == 1 && &v[0].nlri == n => {}
            Out::Ok(_) => return x_fail("accepted-value-reads-back-different"),
            Out::Err => return x_fail("accepted-value-not-decodable"),
            Out::Panic => return x_fail("decoder-panics-on-accepted"),
        }
    }
    let api = match guard(|| convert::nlri_to_api(n)) {
        Out::Ok(x) => x,
        _ => return x_fail("to-api-panics-on-accepted"),
    };
    match guard_res(move || convert::net_from_api(api, family)) {
        Out::Ok(b) => {
            if &b != n {
                return x_fail("accepted-value-not-stable");
            }
        }
        Out::Err => return x_fail("accepted-value-not-reimportable"),
        Out::Panic => return x_fail("from-api-panics"),
    }
    "(x ok)".into()
}

/// `(x api-<kind> N1 N2 ... )`: prost messages of the unmodelled kinds built from a few numbers; the claim
/// checked is "conversion from API input never panics" (+ what is accepted is safe and stable)
fn explore_api(kind: &str, a: &[u64], strs: &[String], bytes: &[u8]) -> String {
    use api::attribute::Attr as A;
    use api::nlri::Nlri as N;
    let g = |i: usize| a.get(i).copied().unwrap_or(0);
    let st = |i: usize| strs.get(i).cloned().unwrap_or_default();
    let attr_case = |x: A| -> String {
        let sent = api::Attribute { attr: Some(x) };
        let s2 = sent.clone();
        // MP_REACH is a carrier for the next hop (taken out again by local_path), not a stored attribute
        let listed = if matches!(sent.attr, Some(A::MpReach(_))) { None } else { Some(&sent) };
        match guard_res(move || convert::attr_from_api(s2)) {
            Out::Ok(v) => accepted_attr_ok(&v, listed),
            Out::Err => "(x ok)".into(),
            Out::Panic => x_fail("from-api-panics"),
        }
    };
    let nlri_case = |x: N, family: Family| -> String {
        match guard_res(move || convert::net_from_api(api::Nlri { nlri: Some(x) }, family)) {
            // (a plain prefix is converted whatever the family: that it belongs to the family of the path is
            // local_path's check, driven by `api-path-family`; here it is judged under its own family)
            Out::Ok(v) => {
                let own = match &v {
                    Nlri::V4(_) if family != Family::IPV4 && family != Family::IPV4_MC => Family::IPV4,
                    Nlri::V6(_) if family != Family::IPV6 && family != Family::IPV6_MC => Family::IPV6,
                    _ => family,
                };
                accepted_nlri_ok(&v, own)
            }
            Out::Err => "(x ok)".into(),
            Out::Panic => x_fail("from-api-panics"),
        }
    };
    // as `nlri_case`, and the message shown for the accepted value is the one sent (the BGP-LS `length` field is
    // computed on display)
    let nlri_case_listed = |x: N, family: Family| -> String {
        let sent = x.clone();
        match guard_res(move || convert::net_from_api(api::Nlri { nlri: Some(x) }, family)) {
            Out::Ok(v) => {
                let r = accepted_nlri_ok(&v, family);
                if r != "(x ok)" {
                    return r;
                }
                let mut shown = match guard(|| convert::nlri_to_api(&v)) {
                    Out::Ok(api::Nlri { nlri: Some(n) }) => n,
                    _ => return x_fail("to-api-panics-on-accepted"),
                };
                if let (N::LsAddrPrefix(a), N::LsAddrPrefix(b)) = (&mut shown, &sent) {
                    a.length = b.length;
                }
                // the end-of-list bit and the length bits of a FlowSpec operator describe the encoding (they follow
                // from the position in the list and from the value): compared without them
                let mut sent = sent;
                for n in [&mut shown, &mut sent] {
                    if let N::FlowSpec(f) = n {
                        for r in &mut f.rules {
                            if let Some(api::flow_spec_rule::Rule::Component(c)) = &mut r.rule {
                                for i in &mut c.items {
                                    i.op &= 0b0100_1111;
                                }
                            }
                        }
                    }
                }
                if shown != sent { x_fail("listed-differs-from-added") } else { r }
            }
            Out::Err => "(x ok)".into(),
            Out::Panic => x_fail("from-api-panics"),
        }
    };
    let esi = |k: u64| -> Option<api::EthernetSegmentIdentifier> {
        match k % 5 {
            0 => None,
            1 => Some(api::EthernetSegmentIdentifier { r#type: 0, value: vec![0; 9] }),
            2 => Some(api::EthernetSegmentIdentifier { r#type: 300, value: vec![1; 9] }),
            3 => Some(api::EthernetSegmentIdentifier { r#type: 1, value: vec![1; 8] }),
            _ => Some(api::EthernetSegmentIdentifier { r#type: 1, value: vec![1; 10] }),
        }
    };
    match kind {
        "api-mpreach" => {
            let family = if g(0) == 0 && g(1) == 0 { None } else { Some(api::Family { afi: g(0) as i32, safi: g(1) as i32 }) };
            let m = A::MpReach(api::MpReachNlriAttribute { family: family.clone(), next_hops: strs.to_vec(), nlris: vec![] });
            // the family kept in the stored carrier is the family given
            let m2 = api::Attribute { attr: Some(m.clone()) };
            if let (Some(f), Out::Ok(v)) = (family, guard_res(move || convert::attr_from_api(m2)))
                && let Some(b) = v.binary()
                && b.len() >= 3
                && (((b[0] as i32) << 8 | b[1] as i32) != f.afi || b[2] as i32 != f.safi)
            {
                return x_fail("listed-differs-from-added");
            }
            attr_case(m)
        }
        "api-tunnel-encap" => attr_case(A::TunnelEncap(api::TunnelEncapAttribute {
            tlvs: (0..g(0) % 3).map(|i| api::TunnelEncapTlv { r#type: (g(1) as u32).wrapping_add(i as u32 * 65536), tlvs: vec![] }).collect(),
        })),
        // an SR-policy tunnel (type 15) whose sub-TLV fields are narrower on the wire than in the message
        "api-sr-policy-encap" => {
            use api::tunnel_encap_tlv::tlv::Tlv as T;
            let sub = |t: T| api::tunnel_encap_tlv::Tlv { tlv: Some(t) };
            let t = match g(0) % 5 {
                0 => T::SrPreference(api::TunnelEncapSubTlvsrPreference { flags: g(1) as u32, preference: g(2) as u32 }),
                1 => T::SrPriority(api::TunnelEncapSubTlvsrPriority { priority: g(1) as u32 }),
                2 => T::SrEnlp(api::TunnelEncapSubTlvsrenlp { flags: g(1) as u32, enlp: (g(2) % 5) as i32 }),
                3 => T::SrEnlp(api::TunnelEncapSubTlvsrenlp { flags: 0, enlp: g(1) as u32 as i32 }),
                _ => T::SrSegmentList(api::TunnelEncapSubTlvsrSegmentList {
                    weight: Some(api::SrWeight { flags: g(1) as u32, weight: g(2) as u32 }),
                    segments: vec![],
                }),
            };
            attr_case(A::TunnelEncap(api::TunnelEncapAttribute { tlvs: vec![api::TunnelEncapTlv { r#type: 15, tlvs: vec![sub(t)] }] }))
        }
        "api-ls-attr" => {
            let mut ls = api::LsAttribute::default();
            match g(0) % 3 {
                0 => {
                    ls.link = Some(api::LsAttributeLink {
                        srv6_end_x_sid: Some(api::LsSrv6EndXsid {
                            endpoint_behavior: g(1) as u32,
                            flags: g(2) as u32,
                            algorithm: g(3) as u32,
                            weight: g(4) as u32,
                            sids: vec!["2001:db8::1".to_string()],
                            srv6_sid_structure: Some(api::LsSrv6SidStructure {
                                local_block: g(5) as u32,
                                local_node: 16,
                                local_func: 16,
                                local_arg: 0,
                            }),
                            ..Default::default()
                        }),
                        ..Default::default()
                    })
                }
                1 => {
                    ls.bgp_peer_segment = Some(api::LsAttributeBgpPeerSegment {
                        bgp_peer_node_sid: Some(api::LsBgpPeerSegmentSid {
                            flags: Some(api::LsBgpPeerSegmentSidFlags { value: true, local: true, ..Default::default() }),
                            weight: g(1) as u32,
                            sid: 100,
                        }),
                        ..Default::default()
                    })
                }
                _ => {
                    ls.prefix = Some(api::LsAttributePrefix {
                        sr_prefix_sids: vec![api::LsAttributePrefixSid { algorithm: g(1) as u32, flags: g(2) as u32, sid: 100 }],
                        // (api.proto: an algorithm-0 entry also populates the legacy singular field)
                        sr_prefix_sid: if g(1) == 0 { 100 } else { 0 },
                        ..Default::default()
                    })
                }
            }
            attr_case(A::Ls(ls))
        }
        "api-ls-nlri" => {
            use api::ls_addr_prefix::ls_nlri::Nlri as L;
            let node = || Some(api::LsNodeDescriptor { asn: 65001, igp_router_id: "0000.0000.0001".to_string(), ..Default::default() });
            let (ty, inner) = match g(0) % 3 {
                0 => (api::LsNlriType::Node as i32, L::Node(api::LsNodeNlri { local_node: node() })),
                1 => (
                    api::LsNlriType::PrefixV4 as i32,
                    L::PrefixV4(api::LsPrefixV4nlri {
                        local_node: node(),
                        prefix_descriptor: Some(api::LsPrefixDescriptor {
                            ip_reachability: vec!["10.0.0.0/8".to_string()],
                            ospf_route_type: g(2) as u32 as i32,
                        }),
                    }),
                ),
                _ => (
                    api::LsNlriType::Srv6Sid as i32,
                    L::Srv6Sid(api::LsSrv6Sidnlri {
                        local_node: node(),
                        srv6_sid_information: Some(api::LsSrv6SidInformation { sids: vec!["2001:db8::1".to_string()] }),
                        multi_topo_id: Some(api::LsMultiTopologyIdentifier { multi_topo_ids: vec![g(2) as u32] }),
                    }),
                ),
            };
            nlri_case_listed(
                N::LsAddrPrefix(api::LsAddrPrefix {
                    r#type: ty,
                    nlri: Some(api::ls_addr_prefix::LsNlri { nlri: Some(inner) }),
                    length: 0,
                    protocol_id: g(1) as u32 as i32,
                    identifier: 0,
                }),
                Family::LS,
            )
        }
        "api-flowspec-rules" => {
            use api::flow_spec_rule::Rule as R;
            let rule = |r: R| api::FlowSpecRule { rule: Some(r) };
            let v6 = g(0) == 2;
            nlri_case_listed(
                N::FlowSpec(api::FlowSpecNlri {
                    rules: vec![
                        rule(R::IpPrefix(api::FlowSpecIpPrefix {
                            r#type: 1,
                            prefix_len: g(2) as u32,
                            prefix: if v6 { "2001:db8::".to_string() } else { "10.0.0.0".to_string() },
                            offset: if v6 { g(3) as u32 } else { 0 },
                        })),
                        rule(R::Component(api::FlowSpecComponent {
                            r#type: 3,
                            // the given operator octet on 1 item (or on the number of items given as 6th number)
                            items: (0..if a.len() > 5 { g(5) % 4 } else { 1 })
                                .map(|i| api::FlowSpecComponentItem { op: g(4) as u32, value: 6 + i * 300 })
                                .collect(),
                        })),
                    ],
                }),
                Family::new(g(0) as u16, g(1) as u8),
            )
        }
        // the family of a request (Path.family / ListPathRequest.family) wider than the wire: refused, or the path
        // is stored under another family than the one given
        "api-path-family" => {
            let t = Term::parse("(prefix (ip4 167772160) 8)").unwrap();
            let (afi, safi) = (g(0) as u32, g(1) as u32);
            match run_grpc_family(&t, &[], &[], false, Some((afi as i32, safi as i32))) {
                Some(r) if r == "(grpc panic)" => x_fail("add-or-list-path-panics"),
                Some(r) if r != "(grpc add-refused)" && (afi > 65535 || safi > 255) => x_fail("stored-under-another-family"),
                // an IPv4 prefix is an NLRI of IPv4 unicast / multicast only
                Some(r) if r != "(grpc add-refused)" && !(afi == 1 && (safi == 1 || safi == 2)) => {
                    x_fail("stored-under-a-family-of-another-kind")
                }
                _ => "(x ok)".into(),
            }
        }
        // policy converters: what is accepted is what was given
        "api-afi-safi-in" => {
            let c = api::Conditions {
                afi_safi_in: vec![api::Family { afi: g(0) as u32 as i32, safi: g(1) as u32 as i32 }],
                rpki_result: api::ValidationState::None as i32,
                ..Default::default()
            };
            match guard_res(move || convert::conditions_from_api(Some(c))) {
                Out::Ok(v) => {
                    let want = (g(0), g(1));
                    let same = v.iter().all(|c| match c {
                        table::ConditionConfig::AfiSafiIn(fs) => fs.iter().all(|f| (f.afi() as u64, f.safi() as u64) == want),
                        _ => true,
                    });
                    if same { "(x ok)".into() } else { x_fail("stored-differs-from-added") }
                }
                Out::Err => "(x ok)".into(),
                Out::Panic => x_fail("from-api-panics"),
            }
        }
        "api-prefix-set" => {
            let set = api::DefinedSet {
                defined_type: api::DefinedType::Prefix as i32,
                name: "ps".to_string(),
                list: vec![],
                prefixes: vec![api::Prefix { ip_prefix: "10.0.0.0/8".to_string(), mask_length_min: g(0) as u32, mask_length_max: g(1) as u32 }],
            };
            match guard_res(move || convert::defined_set_from_api(set)) {
                Out::Ok(table::DefinedSetConfig::Prefix { prefixes, .. }) => {
                    if prefixes.iter().all(|p| (p.mask_length_min as u64, p.mask_length_max as u64) == (g(0), g(1))) {
                        "(x ok)".into()
                    } else {
                        x_fail("stored-differs-from-added")
                    }
                }
                Out::Ok(_) => "(x ok)".into(),
                Out::Err => "(x ok)".into(),
                Out::Panic => x_fail("from-api-panics"),
            }
        }
        "api-prefix-sid" => attr_case(A::PrefixSid(api::PrefixSid {
            tlvs: (0..g(0) % 3).map(|_| api::prefix_sid::Tlv { tlv: None }).collect(),
        })),
        "api-ls" => attr_case(A::Ls(api::LsAttribute::default())),
        "api-evpn-macadv" => nlri_case(
            N::EvpnMacadv(api::EvpnmacipAdvertisementRoute {
                rd: rd_of(g(0) as u32),
                esi: esi(g(1)),
                ethernet_tag: g(2) as u32,
                mac_address: MACS[g(3) as usize % MACS.len()].to_string(),
                ip_address: st(0),
                labels: (0..g(4) % 4).map(|i| (g(5) as u32).wrapping_add(i as u32)).collect(),
            }),
            Family::L2VPN_EVPN,
        ),
        "api-evpn-ead" => nlri_case(
            N::EvpnEthernetAd(api::EvpnEthernetAutoDiscoveryRoute {
                rd: rd_of(g(0) as u32),
                esi: esi(g(1)),
                ethernet_tag: g(2) as u32,
                label: g(3) as u32,
            }),
            Family::L2VPN_EVPN,
        ),
        "api-evpn-prefix" => nlri_case(
            N::EvpnIpPrefix(api::EvpnipPrefixRoute {
                rd: rd_of(g(0) as u32),
                esi: esi(g(1)),
                ethernet_tag: g(2) as u32,
                ip_prefix: st(0),
                ip_prefix_len: g(3) as u32,
                gw_address: st(1),
                label: g(4) as u32,
            }),
            Family::L2VPN_EVPN,
        ),
        "api-srpolicy" => nlri_case(
            N::SrPolicy(api::SrPolicyNlri {
                length: g(0) as u32,
                distinguisher: g(1) as u32,
                color: g(2) as u32,
                endpoint: bytes.to_vec(),
            }),
            if bytes.len() == 16 { Family::IPV6_SRPOLICY } else { Family::IPV4_SRPOLICY },
        ),
        "api-rtc" => nlri_case(
            N::RouteTargetMembership(api::RouteTargetMembershipNlri {
                asn: g(0) as u32,
                rt: match g(1) % 3 {
                    0 => None,
                    1 => Some(api::RouteTarget { rt: None }),
                    _ => Some(api::RouteTarget {
                        rt: Some(api::route_target::Rt::TwoOctetAsSpecific(api::TwoOctetAsSpecificExtended {
                            is_transitive: true,
                            sub_type: g(2) as u32,
                            asn: g(3) as u32,
                            local_admin: 7,
                        })),
                    }),
                },
            }),
            Family::RTC,
        ),
        "api-flowspec" => nlri_case(
            N::FlowSpec(api::FlowSpecNlri { rules: vec![] }),
            Family::new(g(0) as u16, g(1) as u8),
        ),
        // a modelled message kind under a family it does not belong to
        "api-prefix-family" => nlri_case(
            N::Prefix(api::IpAddressPrefix { prefix: st(0), prefix_len: g(2) as u32 }),
            Family::new(g(0) as u16, g(1) as u8),
        ),
        _ => BAD_CASE.into(),
    }
}

// ------------------------------------------------------------------ AddPath / ListPath through the real GrpcService
use super::super::{Global, GlobalHandle, GrpcService, TableManager};
use crate::api::go_bgp_service_server::GoBgpService;

fn family_of_api_nlri(t: &Term) -> Option<(i32, i32)> {
    let v6 = |s: &Term| s.head() == Some("ip6");
    match t.head()? {
        "prefix" => Some(if v6(t.as_list()?.get(1)?) { (2, 1) } else { (1, 1) }),
        "labeled" => Some(if v6(t.as_list()?.get(3)?) { (2, 4) } else { (1, 4) }),
        "vpn" => Some(if v6(t.as_list()?.get(4)?) { (2, 128) } else { (1, 128) }),
        _ => Some((1, 1)),
    }
}

/// One path through `GoBgpService::add_path` (=> `local_path`, `TableManager::insert_route`) and back through
/// `GoBgpService::list_path` (=> `collect_paths`, `destination_to_api`) on a fresh daemon state.
fn run_grpc(nlri_t: &Term, attrs_t: &[Term], vrps: &[(u32, u8, u8, u32)], vrf: bool) -> Option<String> {
    run_grpc_family(nlri_t, attrs_t, vrps, vrf, None)
}

/// `run_grpc` with the `Path.family` / `ListPathRequest.family` given instead of derived from the NLRI kind
fn run_grpc_family(
    nlri_t: &Term,
    attrs_t: &[Term],
    vrps: &[(u32, u8, u8, u32)],
    vrf: bool,
    family: Option<(i32, i32)>,
) -> Option<String> {
    let nlri = api_nlri_from_term(nlri_t)?;
    let pattrs: Option<Vec<api::Attribute>> = attrs_t.iter().map(api_attr_from_term).collect();
    let pattrs = pattrs?;
    let (afi, safi) = match family {
        Some(f) => f,
        None => family_of_api_nlri(nlri_t)?,
    };
    let rt = tokio::runtime::Builder::new_current_thread().enable_all().build().ok()?;
    let out = guard(|| {
        rt.block_on(async move {
            let (active_tx, _active_rx) = tokio::sync::mpsc::unbounded_channel();
            let (kernel_tx, _kernel_rx) = tokio::sync::mpsc::unbounded_channel();
            let (bfd_tx, _bfd_rx) = tokio::sync::mpsc::unbounded_channel();
            let g = Global::new(kernel_tx, bfd_tx);
            let global: GlobalHandle = Arc::new(tokio::sync::RwLock::new(g));
            let tables = Arc::new(TableManager::new(1));
            {
                // VRPs as an RTR session would install them
                let src = Arc::new(IpAddr::V4(Ipv4Addr::new(192, 0, 2, 200)));
                let mut rpki = tables.rpki.write().unwrap();
                for (addr, len, maxlen, asn) in vrps.iter().copied() {
                    rpki.insert(
                        packet::IpNet::V4(bgp::Ipv4Net { addr: Ipv4Addr::from(addr), mask: len }),
                        Arc::new(table::Roa::new(maxlen, asn, src.clone())),
                    );
                }
            }
            let svc = GrpcService::new(Arc::new(tokio::sync::Notify::new()), active_tx, global, tables);
            // the real StartBgp (no listener: listen_port -1): sets the speaker's AS everywhere it is kept
            if svc
                .start_bgp(tonic::Request::new(api::StartBgpRequest {
                    global: Some(api::Global {
                        asn: 65000,
                        router_id: "192.0.2.254".to_string(),
                        listen_port: -1,
                        ..Default::default()
                    }),
                }))
                .await
                .is_err()
            {
                return "(grpc panic)".to_string();
            }
            let fam = api::Family { afi, safi };
            if vrf {
                // a VRF that imports what it exports (the real AddVrf)
                let rt = api::RouteTarget {
                    rt: Some(api::route_target::Rt::TwoOctetAsSpecific(api::TwoOctetAsSpecificExtended {
                        is_transitive: true,
                        sub_type: 2,
                        asn: 65000,
                        local_admin: 100,
                    })),
                };
                let req = api::AddVrfRequest {
                    vrf: Some(api::Vrf {
                        name: "v1".to_string(),
                        rd: Some(api::RouteDistinguisher {
                            rd: Some(api::route_distinguisher::Rd::TwoOctetAsn(api::RouteDistinguisherTwoOctetAsn {
                                admin: 65000,
                                assigned: 100,
                            })),
                        }),
                        import_rt: vec![rt.clone()],
                        export_rt: vec![rt],
                        ..Default::default()
                    }),
                };
                if svc.add_vrf(tonic::Request::new(req)).await.is_err() {
                    return "(grpc panic)".to_string();
                }
            }
            let (table_type, name) =
                if vrf { (api::TableType::Vrf as i32, "v1".to_string()) } else { (api::TableType::Global as i32, String::new()) };
            let path = api::Path { nlri: Some(nlri), family: Some(fam.clone()), pattrs, ..Default::default() };
            let add = svc
                .add_path(tonic::Request::new(api::AddPathRequest { table_type, vrf_id: name.clone(), path: Some(path) }))
                .await;
            let uuid = match add {
                Ok(r) => r.into_inner().uuid,
                Err(_) => return "(grpc add-refused)".to_string(),
            };
            use futures::StreamExt;
            let mut listed: Vec<Vec<api::Path>> = Vec::new();
            for step in 0..2 {
                if step == 1
                    && svc
                        .delete_path(tonic::Request::new(api::DeletePathRequest { uuid: uuid.clone(), ..Default::default() }))
                        .await
                        .is_err()
                {
                    return "(grpc delete-refused)".to_string();
                }
                let resp = svc
                    .list_path(tonic::Request::new(api::ListPathRequest {
                        table_type,
                        name: name.clone(),
                        family: Some(fam.clone()),
                        ..Default::default()
                    }))
                    .await;
                let mut stream = match resp {
                    Ok(r) => r.into_inner(),
                    Err(_) => return "(grpc list-refused)".to_string(),
                };
                let mut paths = Vec::new();
                while let Some(item) = stream.next().await {
                    if let Ok(r) = item
                        && let Some(d) = r.destination
                    {
                        paths.extend(d.paths);
                    }
                }
                listed.push(paths);
            }
            let after = listed[1].len();
            let paths = &listed[0];
            if paths.len() != 1 {
                return format!("(grpc listed-paths {})", paths.len());
            }
            let p = &paths[0];
            let n = match &p.nlri {
                Some(n) => api_nlri_t(n),
                None => Term::atom("n-missing"),
            };
            let val = match &p.validation {
                None => "none",
                Some(v) => match (
                    api::ValidationState::try_from(v.state).ok(),
                    api::validation::Reason::try_from(v.reason).ok(),
                ) {
                    (Some(api::ValidationState::NotFound), _) => "not-found",
                    (Some(api::ValidationState::Valid), _) => "valid",
                    (Some(api::ValidationState::Invalid), Some(api::validation::Reason::Asn)) => "invalid-asn",
                    (Some(api::ValidationState::Invalid), Some(api::validation::Reason::Length)) => "invalid-length",
                    _ => "unexpected",
                },
            };
            Term::tag(
                "grpc",
                vec![
                    Term::tag("listed", vec![n, Term::list(p.pattrs.iter().map(api_attr_t).collect())]),
                    Term::tag("validation", vec![Term::atom(val)]),
                    Term::tag("after-delete", vec![nat(after as u128)]),
                ],
            )
            .to_string()
        })
    });
    Some(match out {
        Out::Ok(s) => s,
        _ => "(grpc panic)".into(),
    })
}

// ------------------------------------------------------------------ cases
const BAD_CASE: &str = "(bad-case)";

fn run_case(line: &str) -> String {
    let Some(t) = Term::parse(line) else { return BAD_CASE.into() };
    let Some(head) = t.head() else { return BAD_CASE.into() };
    let Some(l) = t.as_list() else { return BAD_CASE.into() };
    match head {
        "attr-wire" => {
            if l.len() != 4 {
                return BAD_CASE.into();
            }
            let (Some(code), Some(flags), Some(val)) = (as_u128(&l[1]), as_u128(&l[2]), l[3].as_bytes()) else {
                return BAD_CASE.into();
            };
            if code > 255 || flags > 255 || !modelled_code(code as u8) || code == 14 || code == 15 {
                return BAD_CASE.into();
            }
            if val.len() > 65508 || (flags & 0x10 == 0 && val.len() > 255) {
                return BAD_CASE.into();
            }
            match decode_attr(code as u8, flags as u8, &val) {
                Decoded::Stored(a) => attr_obs(&a).to_string(),
                Decoded::Rejected => "(not-stored rejected)".into(),
                Decoded::Dropped => "(not-stored dropped)".into(),
                Decoded::ParseError => "(not-stored parse-error)".into(),
            }
        }
        "attr-api" => {
            if l.len() != 2 {
                return BAD_CASE.into();
            }
            let Some(x) = api_attr_from_term(&l[1]) else { return BAD_CASE.into() };
            match guard_res(move || convert::attr_from_api(x)) {
                Out::Ok(a) => {
                    if !modelled_code(a.code()) {
                        return BAD_CASE.into();
                    }
                    attr_obs(&a).to_string()
                }
                Out::Err => "(from err)".into(),
                Out::Panic => "(from panic)".into(),
            }
        }
        "nlri-wire" => {
            if l.len() != 3 {
                return BAD_CASE.into();
            }
            let (Some(f), Some(b)) = (l[1].as_atom().and_then(fam_of), l[2].as_bytes()) else {
                return BAD_CASE.into();
            };
            if b.len() > 3000 {
                return BAD_CASE.into();
            }
            match decode_nlris(f, &b) {
                Out::Ok(entries) => {
                    let mut v = Vec::new();
                    for e in &entries {
                        match nlri_obs(&e.nlri, f) {
                            Some(t) => v.push(t),
                            None => return "(harness-unexpected-nlri-kind)".into(),
                        }
                    }
                    Term::tag("nlris", v).to_string()
                }
                Out::Err => "(decode err)".into(),
                Out::Panic => "(decode panic)".into(),
            }
        }
        "nlri-api" => {
            if l.len() != 2 {
                return BAD_CASE.into();
            }
            let Some(x) = api_nlri_from_term(&l[1]) else { return BAD_CASE.into() };
            match guard_res(move || convert::net_from_api(x, Family::IPV4)) {
                Out::Ok(n) => {
                    let f = match &n {
                        Nlri::V4(_) => Family::IPV4,
                        Nlri::V6(_) => Family::IPV6,
                        Nlri::LabeledV4(_) => Family::IPV4_MPLS,
                        Nlri::LabeledV6(_) => Family::IPV6_MPLS,
                        Nlri::VpnV4(_) => Family::IPV4_VPN,
                        Nlri::VpnV6(_) => Family::IPV6_VPN,
                        _ => Family::IPV4,
                    };
                    match nlri_obs(&n, f) {
                        Some(t) => Term::tag("nlris", vec![t]).to_string(),
                        None => "(harness-unexpected-nlri-kind)".into(),
                    }
                }
                Out::Err => "(from err)".into(),
                Out::Panic => "(from panic)".into(),
            }
        }
        "grpc" | "grpc-vrf" => {
            let vrf = head == "grpc-vrf";
            if l.len() != 3 && (vrf || l.len() != 4) {
                return BAD_CASE.into();
            }
            let Some(attrs) = l[2].as_list() else { return BAD_CASE.into() };
            let mut vrps = Vec::new();
            if l.len() == 4 {
                let Some(vs) = l[3].tagged("vrps") else { return BAD_CASE.into() };
                for v in vs {
                    let Some(f) = v.as_list() else { return BAD_CASE.into() };
                    if f.len() != 4 {
                        return BAD_CASE.into();
                    }
                    let (Some(a), Some(len), Some(ml), Some(asn)) = (as_u32(&f[0]), as_u32(&f[1]), as_u32(&f[2]), as_u32(&f[3]))
                    else {
                        return BAD_CASE.into();
                    };
                    if len > 32 || ml > 255 {
                        return BAD_CASE.into();
                    }
                    vrps.push((a, len as u8, ml as u8, asn));
                }
            }
            // a raw PREFIX_SID would be stored and listed through the (unmodelled) prefix-SID codec
            if attrs.iter().any(|a| {
                a.tagged("unknown").and_then(|x| x.get(1)).and_then(as_u128).is_some_and(|t| t % 256 == 40)
            }) {
                return BAD_CASE.into();
            }
            run_grpc(&l[1], attrs, &vrps, vrf).unwrap_or_else(|| BAD_CASE.into())
        }
        "x" => {
            // (x attr-<name> CODE FLAGS xBYTES) | (x nlri-<name> AFI SAFI xBYTES) | (x api-<kind> (N..) (ASTR..) xBYTES)
            let Some(kind) = l.get(1).and_then(|k| k.as_atom()) else { return BAD_CASE.into() };
            if kind.starts_with("api-") {
                if l.len() != 5 {
                    return BAD_CASE.into();
                }
                let (Some(ns), Some(ss), Some(bytes)) = (l[2].as_list(), l[3].as_list(), l[4].as_bytes()) else {
                    return BAD_CASE.into();
                };
                let nums: Option<Vec<u64>> = ns.iter().map(|t| as_u32(t).map(|v| v as u64)).collect();
                let strs: Option<Vec<String>> = ss.iter().map(astr_to_string).collect();
                let (Some(nums), Some(strs)) = (nums, strs) else { return BAD_CASE.into() };
                return explore_api(kind, &nums, &strs, &bytes);
            }
            if l.len() != 5 {
                return BAD_CASE.into();
            }
            let (Some(a), Some(b), Some(bytes)) = (as_u128(&l[2]), as_u128(&l[3]), l[4].as_bytes()) else {
                return BAD_CASE.into();
            };
            if bytes.len() > 3000 {
                return BAD_CASE.into();
            }
            // `attr-`/`nlri-`: pristine fixture (exact round trip); `mattr-`/`mnlri-`: mutated fixture
            if kind.starts_with("attr-") || kind.starts_with("mattr-") {
                if a > 255 || b > 255 || (b & 0x10 == 0 && bytes.len() > 255) {
                    return BAD_CASE.into();
                }
                explore_attr(a as u8, b as u8, &bytes, kind.starts_with("attr-"))
            } else if kind.starts_with("nlri-") || kind.starts_with("mnlri-") {
                if a > 65535 || b > 255 {
                    return BAD_CASE.into();
                }
                explore_nlri(a as u16, b as u8, &bytes, kind.starts_with("nlri-"))
            } else {
                BAD_CASE.into()
            }
        }
        _ => BAD_CASE.into(),
    }
}

#[test]
fn verif_main() {
    let (Ok(prop), Ok(inp), Ok(out)) = (
        std::env::var("VERIF_PROP"),
        std::env::var("VERIF_IN"),
        std::env::var("VERIF_OUT"),
    ) else {
        return; // not invoked by /verif/check
    };
    if prop != "C17" {
        return;
    }
    std::panic::set_hook(Box::new(|_| {}));
    sexp::run_lines(&inp, &out, |l| {
        let l = l.to_string();
        catch_unwind(move || run_case(&l)).unwrap_or_else(|_| "(panic)".into())
    });
    let _ = std::panic::take_hook();
}
