// harness module for C17 (not written yet)
