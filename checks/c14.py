from common import Rng

CONFIG = dict(
    level_text="Kernel-checked Lean theorems about a hand-written model of table/src/policy.rs (conditions, AS-path patterns, "
               "match options, statement/policy/assignment chaining, all actions, every PolicyTable CRUD call) and the AS_PATH "
               "helpers of packet/src/bgp.rs: the master theorem that the C14 reference checker (written from the property text: "
               "statements in order, all conditions, ANY covering prefix entry with the length in range, ANY/ALL/INVERT, first "
               "non-pass wins, accumulated actions, referenced objects neither deleted nor changed) accepts EVERY run of the model "
               "over all probe sets and all CRUD sequences; no panic for any AS_PATH segment structure; reference closure of the "
               "table for all CRUD sequences; in-use objects rejected.  The model is tied to the real code by running "
               "PolicyTable / apply_import / apply_export and the model on the same generated cases (routes decoded by the real "
               "wire decoder) and diffing result codes, listings and every probe result, with the reference checker as oracle on "
               "the real observations.  The holders outside PolicyTable (TableManager.import_policy/export_policy and every "
               "peer's export override) are covered the same way: a model of the daemon wrappers on top of the table model, the "
               "invariant extended to them (published copies = the table's assignments, per-peer policies = the table's objects) "
               "for all call sequences, the daemon-level master theorem, and a correspondence stream that drives a real Global + "
               "TableManager + GrpcService in-process and re-evaluates every probe through every holder after every call.",
    level_note="Trusted: Lean kernel; axioms propext/Classical.choice/Quot.sound (decide +kernel for closed examples, no "
               "native_decide); the hand-written model (checked only by the correspondence stream); harness glue (case decoding, "
               "UPDATE framing of probe attributes, RPKI table construction, listing dump).  Uninterpreted in every theorem: the "
               "regex engine and ext-community text form (RegexEnv).  Master theorem is `_partial` in two explicit hypotheses: no "
               "free-form AS-path pattern (known finding F14-aspath-regex-ignored, refuted in full by C14_full_refuted) and no "
               "well-known community NAME (case folding; correspondence only).  Modelled, not verified: see modelled_not_verified.",
    lean_modules=["Rbgp.Policy.Props"],
    theorems=[
        "Rbgp.Policy.Props.eval_eq_reference",
        "Rbgp.Policy.Props.eval_chain_eq_reference",
        "Rbgp.Policy.Props.prefixset_match_spec",
        "Rbgp.Policy.Props.aspath_match_total",
        "Rbgp.Policy.Props.aspath_match_flat",
        "Rbgp.Policy.Props.aspath_condition_total",
        "Rbgp.Policy.Props.matchoption_spec",
        "Rbgp.Policy.Props.first_nonpass_wins",
        "Rbgp.Policy.Props.first_nonpass_wins_policies",
        "Rbgp.Policy.Props.actions_accumulate",
        "Rbgp.Policy.Props.statement_applies_iff",
        "Rbgp.Policy.Props.crud_ref_closed",
        "Rbgp.Policy.Props.in_use_not_deleted",
        "Rbgp.Policy.Props.referenced_unchanged",
        "Rbgp.Policy.Props.request_stored",
        "Rbgp.Policy.Props.no_stale_objects",
        "Rbgp.Policy.Props.holders_ref_closed",
        "Rbgp.Policy.Props.eval_eq_reference_daemon",
        "Rbgp.Policy.Props.holder_untouched",
        "Rbgp.Policy.Props.holder_policy_unchanged",
        "Rbgp.Policy.Props.C14_full_refuted",
    ],
    harness=dict(kind="daemon", test="event::verif_event::c14::verif_main"),
    profiles=["debug"],
    n_quick=2400, n_thorough=120000, shards=12,
    nontrivial_re=r"\(r (accept|reject|pass) \(|\(r reject|\(err inuse\)|panic",
    rule="cases = (probe routes, CRUD call sequence).  Routes: IPv4/IPv6 prefixes nested in / disjoint from the set entries, "
         "attribute vectors pushed through the real UPDATE decoder (ORIGIN, AS_PATH of every segment type incl. empty segments, "
         "255-member segments, MED, LOCAL_PREF, COMMUNITY, EXT/LARGE communities, unknown optional transitive), local/iBGP/eBGP "
         "sources, RPKI state none/not-found/valid/invalid.  Calls: add/replace/delete(all|partial) on the six set kinds with "
         "nested and overlapping prefix entries (ranges below/above the entry length, inverted), anchored and free-form "
         "AS-path / community patterns incl. invalid ones; statements from the full condition/action grammar (ANY/ALL/INVERT, "
         "MED +-i64 extremes, prepend 0..300 incl. last-as, community add/remove/replace, next hop, local-pref, origin); "
         "policies; import/export assignments; then 2-8 random calls aimed at the same small name space (in-use deletes, "
         "merges, dangling names).  After EVERY call the listing is dumped and all probes are re-evaluated under both "
         "assignments.  Every third case is daemon-level: initial peers, the same calls through the daemon entry points plus "
         "per-peer add/delete/set assignment, add/delete peer (with and without export policy) and SetPolicies reloads; after "
         "every call the listing and, for the published import, the published export and every peer override, the held "
         "assignment and all probe results.  non-trivial = some probe was rewritten or rejected, or an in-use call was refused; distinct = distinct case line",
    expect_tokens=["(r reject", "(r accept (", "(r pass", "(err inuse)", "(err notfound)", "(err invalid)", "(imp none)",
                   "set prefix", "set neighbor", "set aspath", "set comm", "set ext", "set large", "(some (", "cset aspath as1 all",
                   "invert", "(prep ", "(med mod", "(nh ", "(a 2 80 ", "(a 4 128 (v 4294967295))", "(a 4 128 (v 0))",
                   "(a 16 192", "(a 32 192", "(dstep", "(err exists)", " t)", "(hexp ((asg", "(himp ((asg", "(asg @4:", "(asg @6:", "(err exists)"],
    trusted_base=["model lean/Rbgp/Policy/DModel.lean of Global::{add_policy, delete_policy, add_policy_assignment, delete_policy_assignment, "
                  "add_peer} (daemon/src/event/mod.rs) and set_policy_assignment / set_policies / delete_peer (daemon/src/event/grpc.rs)",
                  "harness/daemon/c14.rs (+ harness/common/c14_table.rs shared with the pt binary): real Global, TableManager and "
                  "GrpcService built in-process, API messages for assignments and SetPolicies built by the harness",
                  "model lean/Rbgp/Policy/Model.lean of table/src/policy.rs + AsPathIter/as_path_length/as_path_prepend[_confed] of packet/src/bgp.rs",
                  "harness/pt/src/bin/c14.rs: builds an UPDATE from the declared attributes and takes the attribute vector the real "
                  "decoder returns (must equal the declaration, else bad-case); constructs an RpkiTable that yields the declared "
                  "validation state (checked with RpkiTable::validate); dumps the table through iter_defined_sets/statements/"
                  "policies/assignments sorted by name",
                  "RegexEnv (regex crate, ext_community_to_string) is an uninterpreted parameter of every theorem; the driver runs "
                  "with a small engine (literals . \\d * + ^ $) from which the generator draws its patterns"],
    modelled_not_verified=[
        "daemon level: AddDefinedSet(replace)/DeleteDefinedSet always, AddStatement/DeleteStatement whenever the statement can be "
        "said in an api::Statement (about 3 of 4 generated ones; everything but ext-community actions, `pass`, repeated or "
        "out-of-message-order condition kinds), SetPolicyAssignment, SetPolicies and DeletePeer go through the real GrpcService "
        "handlers and convert.rs; add/delete policy, add/delete assignment, add_peer through the real Global wrappers.  The "
        "harness speaks the enum numbering the converters implement (MatchSet.type and Comparison read as 0/1/2 although "
        "gobgp.proto numbers them 1/2/3 after UNSPECIFIED=0 — reported to the API-conversion property, not judged here)",
        "the gates and argument choices of the session path are NOT executed: probes call table::apply_import/apply_export with the "
        "holder's assignment and the case's arguments; `.filter(|p| p.needs_rpki)` + override-else-global selection in "
        "handle_prefix_update (event/mod.rs) and the arguments built in export.rs (pre_policy_defaults, original_nexthop, "
        "confed flag, local/remote address) need the export model of C09/C01 to predict.  What IS judged: the needs_rpki flag "
        "every holder's assignment carries against the rpki conditions of the statements its names resolve to",
        "apply_config / load_policy_from_config, peer groups and dynamic peers are not exercised; the lock-free readers of the "
        "ArcSwap holders (peer tasks) are not modelled — calls are sequential",
        "free-form AS-path regex members: the reference consults them, the code does not (open finding F14-aspath-regex-ignored); "
        "excluded from the master theorem by the explicit hypothesis Op.noAsRegex",
        "well-known community names in parse_community (to_lowercase + table lookup): correspondence only (hypothesis Op.noWellKnown)",
        "RpkiTable::validate: its result is an input of the model (C12 owns the classification)",
        "IpLookupTable (treebitmap) modelled as a keyed list; prefix-set and neighbor-set elements are generated without host bits "
        "(the crate asserts on host bits: add_defined_set/delete_defined_set panic on e.g. 10.0.0.16/24 — configuration-time, outside the statement)",
        "IpNet::contains modelled as CIDR containment for nets without host bits",
        "non-unicast NLRI (VPN, labeled, flowspec, EVPN, ...): Prefix condition is false for them whatever the option; AfiSafiIn only exercised for IPv4/IPv6 unicast",
        "attribute values the API can build that the decoder cannot (attr_from_api accepts arbitrary AS_PATH segment types / Unknown{known code}: "
        "as_path_length then hits unreachable!()) — C17 / S27 owns that obligation; probes here are decoder output",
        "as-prepend repeat is a u32: the loop is unbounded in practice (generated <= 300)",
        "replace_defined_set removes the old set before add_defined_set validates the new contents: a failing replace of an UNREFERENCED set deletes it (modelled as is; not a violation of the statement)"],
    assumptions=["probe attribute vectors are values Attribute::decode produces (Spec.pathOk); the reference says nothing about others"],
    claimed=True,
)

# ---------------------------------------------------------------- small colliding domains
ASNS = [65001, 65002, 65003, 100, 4200000001]


def v4(a, b, c, d):
    return (a << 24) | (b << 16) | (c << 8) | d


def A4(n):
    return "(4 %d)" % n


def A6(n):
    return "(6 %d)" % n


V6A = 0x20010db8 << 96
V6B = (0x20010db8 << 96) | (1 << 80)

# (addr term, mask, family width)
SET_PREFIXES = [
    (A4(v4(10, 0, 0, 0)), 8, 32), (A4(v4(10, 1, 0, 0)), 16, 32), (A4(v4(10, 1, 1, 0)), 24, 32),
    (A4(v4(10, 1, 1, 128)), 25, 32), (A4(v4(192, 168, 0, 0)), 16, 32), (A4(0), 0, 32),
    (A4(v4(10, 0, 0, 0)), 7, 32), (A4(v4(10, 1, 1, 1)), 32, 32), (A4(v4(10, 1, 0, 0)), 20, 32),
    (A6(V6A), 32, 128), (A6(V6B), 48, 128), (A6(0), 0, 128),
]
ROUTE_NETS = [
    (A4(v4(10, 1, 1, 0)), 24), (A4(v4(10, 1, 0, 0)), 16), (A4(v4(10, 0, 0, 0)), 8), (A4(v4(10, 1, 1, 128)), 25),
    (A4(v4(10, 1, 1, 1)), 32), (A4(v4(192, 168, 1, 0)), 24), (A4(v4(172, 16, 0, 0)), 12), (A4(0), 0),
    (A4(v4(10, 1, 1, 0)), 28), (A4(v4(10, 1, 17, 0)), 20), (A4(v4(11, 0, 0, 0)), 8),
    (A6(V6B), 48), (A6(V6A), 32), (A6(V6B | (1 << 64)), 64), (A6(0), 0),
]
PEERS = [A4(v4(192, 0, 2, 1)), A4(v4(192, 0, 2, 2)), A4(v4(198, 51, 100, 7)), A6(V6A | 1)]
NEIGHBOR_NETS = [(A4(v4(192, 0, 2, 0)), 24), (A4(v4(192, 0, 2, 1)), 32), (A4(v4(198, 51, 100, 0)), 24),
                 (A4(v4(192, 0, 2, 0)), 31), (A6(V6A), 32), (A4(0), 0)]
NEXTHOPS = [A4(v4(192, 0, 2, 1)), A4(v4(192, 0, 2, 2)), A4(v4(10, 9, 9, 9)), A6(V6A | 1), A6(V6A | 2)]


def comm(hi, lo):
    return (hi << 16) | lo


COMMS = [comm(65001, 100), comm(65001, 200), comm(65002, 100), comm(0, 5), 0xffffff01, 0xffff029a, comm(65001, 150)]
COMM_PATS = ["65001:100", str(comm(65001, 200)), "^65001:.*$", "65001:.*", ".*", "no-export", "NO-EXPORT", "blackhole",
             "^6500.:100$", "6500\\d:100", "65001:1\\d\\d", "65002:100", "0:5", "^x$", "65001:1.0", "\\d+:200"]
BAD_PATS = ["*bad", "+1"]
EXTS = ["0002fde900000064", "0002fde9000000c8", "0003fde900000064", "0202fde9000a0064", "0102c00002010064",
        "030c000000000008", "4300000000000000", "4300000000000001", "4300000000000002", "4300000000000003",
        "9900000000000001", "0002fdea00000064"]
EXT_PATS = ["^rt:65001:100$", "rt:.*", "^soo:", "validation:valid", "validation:", "encap:\\d+", ".*", "rt:192.0.2.1:100",
            "^rt:6500.:100$", "^x$", "rt:65001:\\d+$"]
LARGES = [(65001, 1, 2), (65001, 1, 3), (65002, 0, 0), (4200000001, 4294967295, 0)]
LARGE_PATS = ["^65001:1:2$", "^65001:.*$", "65002:0:0", ".*", "^x$", "^\\d+:1:\\d$", "4200000001:"]

SET_NAMES = dict(prefix=["ps1", "ps2"], neighbor=["ns1", "ns2"], aspath=["as1", "as2"], comm=["cs1", "cs2"],
                 ext=["es1"], large=["ls1"])
STMT_NAMES = ["s1", "s2", "s3", "s4"]
POL_NAMES = ["p1", "p2", "p3"]
KINDS = ["prefix", "neighbor", "aspath", "comm", "ext", "large"]


# ---------------------------------------------------------------- routes
def hexb(bs):
    return "x" + "".join("%02x" % b for b in bs)


def be32(n):
    return [(n >> 24) & 255, (n >> 16) & 255, (n >> 8) & 255, n & 255]


def enc_path(segs):
    out = []
    for ty, asns in segs:
        out += [ty, len(asns)]
        for a in asns:
            out += be32(a)
    return out


PATHS = [
    [], [(2, [65001])], [(2, [65001, 65002])], [(2, [65002, 65001])], [(1, [65001, 65003])],
    [(2, [65001]), (1, [65002, 65003])], [(2, [65001]), (2, [])], [(2, []), (2, [65001])], [(1, [])],
    [(3, [65010]), (2, [65001])], [(4, [65010, 65011]), (2, [100])], [(2, [])], [(2, [100, 100, 100, 65002])],
    [(2, [4200000001])], [(1, [65002]), (2, [65003])], [(3, [65001])], [(2, [65003, 65002, 65001, 100])],
    [(2, [65001]), (4, [])], [(2, [150]), (2, [65001])],
]


def gen_path(r):
    k = r.below(100)
    if k < 80:
        return r.pick(PATHS)
    if k < 86:
        return [(2, [r.pick(ASNS)] * r.pick([254, 255]))]
    if k < 90:
        return [(3, [65010] * r.pick([254, 255])), (2, [65001])]
    if k < 93:
        return [(2, [65001] * 255), (2, [65002] * r.pick([1, 120]))]
    n = 1 + r.below(4)
    return [(r.pick([1, 2, 2, 2, 3, 4]), [r.pick(ASNS) for _ in range(r.below(4))]) for _ in range(n)]


def attr(code, flags, payload, val=None):
    if val is not None:
        return "(a %d %d (v %d))" % (code, flags, val)
    if len(payload) > 255:
        flags |= 0x10
    return "(a %d %d %s)" % (code, flags, hexb(payload))


def gen_attrs(r):
    segs = gen_path(r)
    items = [attr(1, 64, None, r.pick([0, 1, 2])), attr(2, 64 | (0x10 if r.chance(1, 12) and all(a for _, a in segs) else 0), enc_path(segs))]
    if r.chance(1, 2):
        items.append(attr(4, 128, None, r.pick([0, 5, 100, 4294967295, 4294967290])))
    if r.chance(1, 2):
        items.append(attr(5, 64, None, r.pick([0, 100, 200])))
    if r.chance(1, 2):
        cs = [r.pick(COMMS) for _ in range(r.below(4))]
        items.append(attr(8, 192 | (0x20 if r.chance(1, 8) else 0), sum((be32(c) for c in cs), [])))
    if r.chance(1, 3):
        es = [r.pick(EXTS) for _ in range(r.below(3))]
        items.append("(a 16 192 x%s)" % "".join(es))
    if r.chance(1, 3):
        ls = [r.pick(LARGES) for _ in range(r.below(3))]
        items.append(attr(32, 192, sum((be32(a) + be32(b) + be32(c) for a, b, c in ls), [])))
    if r.chance(1, 6):
        items.append("(a 6 64 x)")
    if r.chance(1, 8):
        items.append("(a 99 192 x0102)")
    if r.chance(1, 10):
        items.append(attr(9, 128, None, 16843009))
    # attribute order on the wire is free: shuffle the optional part
    head, tail = items[:2], items[2:]
    for i in range(len(tail) - 1, 0, -1):
        j = r.below(i + 1)
        tail[i], tail[j] = tail[j], tail[i]
    if r.chance(1, 4):
        head.reverse()
    return head + tail, segs


def opt_addr(r, dom):
    return "none" if r.chance(1, 5) else "(some %s)" % r.pick(dom)


def gen_route(r):
    attrs, segs = gen_attrs(r)
    net, mask = r.pick(ROUTE_NETS)
    if r.chance(1, 6):
        src = "(src local)"
    else:
        ra = r.pick([65001, 65002])
        la = r.pick([65001, 65002])
        src = "(src (peer %d %d %s %s))" % (ra, la, r.pick(PEERS), r.pick(NEXTHOPS))
    rp = r.pick(["none", "none", "nf", "invalid", "valid"])
    if rp == "valid" and not (segs and segs[-1][0] == 2 and segs[-1][1]):
        rp = "nf"
    return "(route %s (net %s %d) (attrs %s) (nh %s) (onh %s) (confed %s) (laddr %s) (paddr %s) (rpki %s))" % (
        src, net, mask, " ".join(attrs), opt_addr(r, NEXTHOPS), opt_addr(r, NEXTHOPS), r.pick(["f", "f", "t"]),
        r.pick(NEXTHOPS), r.pick(PEERS), rp)


# ---------------------------------------------------------------- defined sets
def gen_range(r, mask, width):
    k = r.below(8)
    if k == 0:
        return (mask, mask)
    if k == 1:
        return (mask, width)
    if k == 2:
        return (0, width)
    if k == 3:
        return (24, 24)
    if k == 4:
        return (16, 24)
    if k == 5:
        return (25, 32)
    if k == 6:
        return (8, 16)
    return (r.pick([20, 30]), r.pick([10, 24]))   # possibly inverted / below own length


def gen_elems(r, kind, n=None):
    n = n if n is not None else r.pick([0, 1, 1, 2, 2, 3, 4])
    out = []
    for _ in range(n):
        if kind == "prefix":
            a, m, w = r.pick(SET_PREFIXES)
            lo, hi = gen_range(r, m, w)
            out.append("(p %s %d %d %d)" % (a, m, lo, hi))
        elif kind == "neighbor":
            a, m = r.pick(NEIGHBOR_NETS)
            out.append("(n %s %d)" % (a, m))
        elif kind == "aspath":
            k = r.below(10)
            if k < 5:
                out.append("(%s %d)" % (r.pick(["inc", "left", "orig", "only"]), r.pick(ASNS + [150])))
            elif k < 8:
                lo, hi = r.pick([(65001, 65002), (100, 200), (65002, 65001), (0, 4294967295)])
                out.append("(%s %d %d)" % (r.pick(["rinc", "rleft", "rorig", "ronly"]), lo, hi))
            else:
                out.append("(re %s)" % r.pick([".*", "^x$", "*bad"] if r.chance(1, 6) else [".*", "^x$"]))
        elif kind == "comm":
            out.append(r.pick(BAD_PATS) if r.chance(1, 25) else r.pick(COMM_PATS))
        elif kind == "ext":
            out.append(r.pick(BAD_PATS) if r.chance(1, 25) else r.pick(EXT_PATS))
        else:
            out.append(r.pick(BAD_PATS) if r.chance(1, 25) else r.pick(LARGE_PATS))
    return "(" + " ".join(out) + ")"


# ---------------------------------------------------------------- statements
def gen_cond(r, kinds_bias=None):
    k = r.below(100)
    if k < 55:
        kind = r.pick(kinds_bias or KINDS)
        if kind in ("prefix", "neighbor"):
            o = r.pick(["any", "any", "invert", "invert", "all"] if r.chance(1, 10) else ["any", "any", "invert"])
        else:
            o = r.pick(["any", "all", "invert"])
        name = r.pick(SET_NAMES[kind]) if r.chance(15, 16) else "nosuch"
        return "(cset %s %s %s)" % (kind, name, o)
    if k < 60:
        return "(nexthop %s)" % " ".join(r.pick(NEXTHOPS) for _ in range(1 + r.below(2)))
    if k < 68:
        return "(aslen %s %d)" % (r.pick(["eq", "ge", "le"]), r.pick([0, 1, 2, 3, 4, 254, 255, 256]))
    if k < 73:
        return "(rpki %s)" % r.pick(["nf", "valid", "invalid"])
    if k < 77:
        return "(lpeq %d)" % r.pick([0, 100, 200, 300])
    if k < 82:
        return "(medeq %d)" % r.pick([0, 5, 100, 15, 4294967295])
    if k < 86:
        return "(origin %d)" % r.pick([0, 1, 2, 3])
    if k < 91:
        return "(rtype %s)" % r.pick(["internal", "external", "local"])
    if k < 96:
        return "(ccount %s %d)" % (r.pick(["eq", "ge", "le"]), r.pick([0, 1, 2, 3]))
    return "(afi %s)" % " ".join(r.pick(["(1 1)", "(2 1)", "(1 128)"]) for _ in range(1 + r.below(2)))


def gen_action(r, allow_nh=True):
    ks = ["comm", "lp", "med", "prep", "ext", "large", "origin"] + (["nh"] if allow_nh else [])
    k = r.pick(ks)
    if k == "nh":
        return "(nh %s)" % r.pick(["self", "peer", "unchanged", "(addr %s)" % r.pick(NEXTHOPS)])
    if k == "comm":
        return "(comm %s (%s))" % (r.pick(["add", "remove", "replace"]), " ".join(str(r.pick(COMMS)) for _ in range(r.below(3))))
    if k == "lp":
        return "(lp %d)" % r.pick([0, 100, 200, 300, 4294967295])
    if k == "med":
        return "(med %s %d)" % (r.pick(["mod", "mod", "replace"]),
                                r.pick([0, 10, -10, 5, -5, 95, 4294967295, -4294967295, 4294967300, 9223372036854775807,
                                        -9223372036854775808, 9223372036854775800]))
    if k == "prep":
        return "(prep %d %d %s)" % (r.pick(ASNS), r.pick([0, 1, 1, 2, 3, 3, 10, 256, 300]) if r.chance(7, 8) else 1, r.pick(["t", "f", "f"]))
    if k == "ext":
        return "(ext %s (%s))" % (r.pick(["add", "remove", "replace"]), " ".join("x" + r.pick(EXTS) for _ in range(r.below(3))))
    if k == "large":
        return "(large %s (%s))" % (r.pick(["add", "remove", "replace"]),
                                    " ".join("(%d %d %d)" % r.pick(LARGES) for _ in range(r.below(3))))
    return "(origin %d)" % r.pick([0, 1, 2])


def gen_stmt_body(r, allow_nh=True, kinds_bias=None, nconds=None):
    nc = nconds if nconds is not None else r.pick([0, 1, 1, 1, 2, 2, 3])
    conds = [gen_cond(r, kinds_bias) for _ in range(nc)]
    acts = []
    seen = set()
    for _ in range(r.pick([0, 0, 1, 1, 2, 3])):
        a = gen_action(r, allow_nh)
        k = a.split(" ")[0]
        if k not in seen:
            seen.add(k)
            acts.append(a)
    disp = r.pick(["none", "accept", "reject", "reject", "pass", "none", "accept"])
    return "(%s) %s (%s)" % (" ".join(conds), disp, " ".join(acts))


# ---------------------------------------------------------------- case flavours
def setup_ops(r, focus=None):
    ops = []
    kinds = KINDS if focus is None else focus
    for kind in KINDS:
        for name in SET_NAMES[kind]:
            if kind in kinds or r.chance(1, 2):
                ops.append("(set-add %s %s %s)" % (kind, name, gen_elems(r, kind, n=1 + r.below(4))))
    ns = 2 + r.below(3)
    for i in range(ns):
        ops.append("(stmt-add %s %s)" % (STMT_NAMES[i], gen_stmt_body(r, allow_nh=(i >= 2), kinds_bias=focus)))
    # p1: statements without nexthop action (usable for import), p2: any
    ops.append("(pol-add p1 (%s))" % " ".join(r.pick(STMT_NAMES[:2]) for _ in range(1 + r.below(2))))
    ops.append("(pol-add p2 (%s))" % " ".join(r.pick(STMT_NAMES[:ns]) for _ in range(1 + r.below(3))))
    if r.chance(1, 2):
        ops.append("(pol-add p3 (%s))" % " ".join(r.pick(STMT_NAMES[:ns]) for _ in range(r.below(3))))
    ops.append("(asg-add exp ga %s (%s))" % (r.pick(["accept", "reject", "pass"]), " ".join(r.pick([["p2"], ["p1", "p2"], ["p2", "p1"], ["p1"]]))))
    ops.append("(asg-add imp gi %s (%s))" % (r.pick(["accept", "reject"]), r.pick(["p1", "p1", "p1 p2", "p2"])))
    return ops


def churn_op(r):
    k = r.below(100)
    kind = r.pick(KINDS)
    sname = r.pick(SET_NAMES[kind])
    if k < 12:
        return "(set-add %s %s %s)" % (kind, sname, gen_elems(r, kind))
    if k < 24:
        return "(set-replace %s %s %s)" % (kind, sname, gen_elems(r, kind))
    if k < 38:
        return "(set-del %s %s %s %s)" % (kind, sname, r.pick(["t", "f", "f"]), gen_elems(r, kind))
    if k < 50:
        return "(stmt-add %s %s)" % (r.pick(STMT_NAMES), gen_stmt_body(r, nconds=r.pick([0, 1, 1, 2])))
    if k < 62:
        body = gen_stmt_body(r, nconds=r.pick([0, 0, 1]))
        return "(stmt-del %s %s %s)" % (r.pick(STMT_NAMES), r.pick(["t", "f", "f"]), body)
    if k < 72:
        return "(pol-add %s (%s))" % (r.pick(POL_NAMES), " ".join(r.pick(STMT_NAMES + ["nosuch"]) for _ in range(r.below(3))))
    if k < 84:
        return "(pol-del %s %s %s (%s))" % (r.pick(POL_NAMES), r.pick(["t", "f"]), r.pick(["t", "f"]),
                                            " ".join(r.pick(STMT_NAMES) for _ in range(r.below(3))))
    if k < 90:
        return "(asg-add %s g2 %s (%s))" % (r.pick(["imp", "exp"]), r.pick(["accept", "reject", "pass"]),
                                            " ".join(r.pick(POL_NAMES + ["nosuch"]) for _ in range(1 + r.below(2))))
    if k < 95:
        return "(asg-set %s g3 %s (%s))" % (r.pick(["imp", "exp"]), r.pick(["accept", "reject"]),
                                            " ".join(r.pick(POL_NAMES) for _ in range(r.below(3))))
    return "(asg-del %s %s (%s))" % (r.pick(["imp", "exp"]), r.pick(["t", "f", "f"]), " ".join(r.pick(POL_NAMES) for _ in range(r.below(2))))


def gen_case(r, tier):
    fl = r.below(100)
    nprobe = r.pick([2, 3, 3, 4])
    probes = [gen_route(r) for _ in range(nprobe)]
    if fl < 45:
        focus = r.pick([None, ["prefix"], ["aspath"], ["comm", "ext", "large"], ["neighbor", "prefix"], ["aspath", "comm"]])
        ops = setup_ops(r, focus)
    elif fl < 85:
        ops = setup_ops(r, r.pick([None, ["prefix", "aspath"]]))
        ops += [churn_op(r) for _ in range(2 + r.below(7))]
    else:
        ops = [churn_op(r) for _ in range(3 + r.below(10))]
    if r.chance(1, 8):
        # unassign, rebuild the objects under the same names, assign again: nothing stale may survive
        sn = r.pick(STMT_NAMES[:2])
        kind = r.pick(KINDS)
        ops += ["(asg-del exp t ())", "(asg-del imp t ())", "(pol-del p1 %s t ())" % r.pick(["t", "f"]), "(pol-del p2 t t ())",
                "(stmt-del %s t () none ())" % sn, "(set-replace %s %s %s)" % (kind, r.pick(SET_NAMES[kind]), gen_elems(r, kind, n=2)),
                "(stmt-add %s %s)" % (sn, gen_stmt_body(r, allow_nh=False)), "(pol-add p1 (%s))" % sn,
                "(asg-add exp ga accept (p1))", "(asg-add imp gi accept (p1))"]
    return "(case (probes %s) (ops %s))" % (" ".join(probes), " ".join(ops))


# ---------------------------------------------------------------- daemon-level cases (holders outside PolicyTable)
API_COND_ORDER = ["prefix", "neighbor", "aspath", "comm", "ext", "large"]


def gen_api_stmt_body(r, allow_nh=True):
    """statement expressible in an api::Statement as the harness builds it (conditions once per kind, message order)"""
    conds = []

    def cset(kind):
        o = r.pick(["any", "invert"]) if kind in ("prefix", "neighbor") else r.pick(["any", "all", "invert"])
        if kind in ("prefix", "neighbor") and r.chance(1, 12):
            o = "all"
        conds.append("(cset %s %s %s)" % (kind, r.pick(SET_NAMES[kind]) if r.chance(11, 12) else "nosuch", o))
    for kind in ["prefix", "neighbor", "aspath"]:
        if r.chance(1, 4):
            cset(kind)
    if r.chance(1, 6):
        conds.append("(aslen %s %d)" % (r.pick(["eq", "ge", "le"]), r.pick([0, 1, 2, 3, 255])))
    for kind in ["comm", "ext", "large"]:
        if r.chance(1, 5):
            cset(kind)
    if r.chance(1, 8):
        conds.append("(nexthop %s)" % " ".join(r.pick(NEXTHOPS) for _ in range(1 + r.below(2))))
    if r.chance(1, 6):
        conds.append("(rpki %s)" % r.pick(["nf", "valid", "invalid"]))
    if r.chance(1, 6):
        conds.append("(lpeq %d)" % r.pick([0, 100, 200]))
    if r.chance(1, 6):
        conds.append("(medeq %d)" % r.pick([0, 5, 100]))
    if r.chance(1, 8):
        conds.append("(origin %d)" % r.pick([0, 1, 2]))
    if r.chance(1, 8):
        conds.append("(rtype %s)" % r.pick(["internal", "external", "local"]))
    if r.chance(1, 8):
        conds.append("(ccount %s %d)" % (r.pick(["eq", "ge", "le"]), r.pick([0, 1, 2])))
    if r.chance(1, 10):
        conds.append("(afi %s)" % " ".join(r.pick(["(1 1)", "(2 1)", "(1 128)"]) for _ in range(1 + r.below(2))))
    acts = []
    seen = set()
    for _ in range(r.pick([0, 1, 1, 2, 3])):
        a = gen_action(r, allow_nh)
        k = a.split(" ")[0]
        if k not in seen and k != "(ext":
            seen.add(k)
            acts.append(a)
    return "(%s) %s (%s)" % (" ".join(conds), r.pick(["none", "accept", "reject", "reject"]), " ".join(acts))


def gen_set_policies(r):
    ops = []
    for kind in KINDS:
        for name in SET_NAMES[kind]:
            if r.chance(2, 3):
                ops.append("(set-add %s %s %s)" % (kind, name, gen_elems(r, kind, n=r.pick([1, 1, 2, 3, 0] if r.chance(1, 6) else [1, 2, 3]))))
    ns = 1 + r.below(3)
    names = STMT_NAMES[:ns]
    for n in names:
        ops.append("(stmt-add %s %s)" % (n, gen_api_stmt_body(r)))
    used = set()
    pols = []
    for pn in POL_NAMES[:1 + r.below(2)]:
        ss = [r.pick(names) for _ in range(1 + r.below(2))]
        used.update(ss)
        pols.append("(pol-add %s (%s))" % (pn, " ".join(ss)))
    rest = [n for n in names if n not in used]
    if rest:
        pols.append("(pol-add p3 (%s))" % " ".join(rest))
    ops += pols
    if r.chance(3, 4):
        ops.append("(asg-add exp global %s (%s))" % (r.pick(["accept", "reject", "pass"]), r.pick(["p1", "p1 p2", "p2", "nosuch"]) if r.chance(9, 10) else "nosuch"))
    if r.chance(1, 2):
        ops.append("(asg-add imp global %s (p1))" % r.pick(["accept", "reject"]))
    return "(set-policies (%s))" % " ".join(ops)


def holder(r, peers):
    return "global" if r.chance(1, 2) else r.pick(peers + PEERS[:3])


def dchurn_op(r, peers):
    k = r.below(100)
    if k < 30:
        op = churn_op(r)
        while op.startswith("(pol-") or op.startswith("(asg-"):
            op = churn_op(r)
        return "(tbl %s)" % op
    if k < 40:
        return "(pol-add %s (%s))" % (r.pick(POL_NAMES), " ".join(r.pick(STMT_NAMES + ["nosuch"]) for _ in range(r.below(3))))
    if k < 54:
        return "(pol-del %s %s %s (%s))" % (r.pick(POL_NAMES), r.pick(["t", "f"]), r.pick(["t", "f"]),
                                            " ".join(r.pick(STMT_NAMES) for _ in range(r.below(3))))
    if k < 66:
        return "(asg-add %s %s %s (%s))" % (holder(r, peers), r.pick(["exp", "exp", "imp"]), r.pick(["accept", "reject", "pass"]),
                                            " ".join(r.pick(POL_NAMES + ["nosuch"]) for _ in range(1 + r.below(2))))
    if k < 76:
        return "(asg-del %s %s %s (%s))" % (holder(r, peers), r.pick(["exp", "exp", "imp"]), r.pick(["t", "f", "f"]),
                                            " ".join(r.pick(POL_NAMES) for _ in range(r.below(2))))
    if k < 84:
        return "(asg-set %s %s %s (%s))" % (holder(r, peers), r.pick(["exp", "exp", "imp"]), r.pick(["accept", "reject"]),
                                            " ".join(r.pick(POL_NAMES) for _ in range(r.below(3))))
    if k < 89:
        ex = "none" if r.chance(1, 2) else "(some %s (%s))" % (r.pick(["accept", "reject", "pass"]), " ".join(r.pick(POL_NAMES) for _ in range(1 + r.below(2))))
        return "(peer-add %s %s)" % (r.pick(PEERS), ex)
    if k < 93:
        return "(peer-del %s)" % r.pick(PEERS)
    return gen_set_policies(r)


def gen_dcase(r, tier):
    probes = [gen_route(r) for _ in range(r.pick([2, 2, 3]))]
    npeer = r.pick([1, 2, 2, 3])
    peers = PEERS[:npeer]
    ops = []
    focus = r.pick([None, ["prefix"], ["prefix", "aspath"], ["comm", "neighbor"]])
    for o in setup_ops(r, focus):
        if o.startswith("(pol-add"):
            ops.append(o)
        elif o.startswith("(asg-add exp"):
            ops.append("(asg-add global exp %s" % o.split(" ", 3)[3])
        elif o.startswith("(asg-add imp"):
            ops.append("(asg-add global imp %s" % o.split(" ", 3)[3])
        elif o.startswith("(stmt-add") and r.chance(2, 3):
            nm = o.split(" ")[1]
            body = gen_api_stmt_body(r, allow_nh=(nm not in STMT_NAMES[:2]))
            ops.append("(tbl (stmt-add %s %s))" % (nm, body))
        else:
            ops.append("(tbl %s)" % o)
    for p in peers:
        if r.chance(2, 3):
            ops.append("(asg-add %s exp %s (%s))" % (p, r.pick(["accept", "reject"]), r.pick(["p1", "p2", "p2 p1", "p3"])))
    ops += [dchurn_op(r, peers) for _ in range(3 + r.below(8))]
    return "(dcase (probes %s) (peers %s) (dops %s))" % (" ".join(probes), " ".join(peers), " ".join(ops))


# ---------------------------------------------------------------- malformed / adversarial stream
def _parse(s):
    stack, cur = [], []
    tok = ""
    for ch in s:
        if ch in "() ":
            if tok:
                cur.append(tok); tok = ""
            if ch == "(":
                stack.append(cur); cur = []
            elif ch == ")":
                done = cur; cur = stack.pop(); cur.append(done)
        else:
            tok += ch
    return cur[0]


def _show(t):
    return t if isinstance(t, str) else "(" + " ".join(_show(x) for x in t) + ")"


def _paths(t, pre=()):
    """all positions (as index tuples) of sub-terms"""
    out = [pre]
    if not isinstance(t, str):
        for i, x in enumerate(t):
            out += _paths(x, pre + (i,))
    return out


def _get(t, path):
    for i in path:
        t = t[i]
    return t


def _set(t, path, v):
    if not path:
        return v
    return t[:path[0]] + [_set(t[path[0]], path[1:], v)] + t[path[0] + 1:]


def _del(t, path):
    if len(path) == 1:
        return t[:path[0]] + t[path[0] + 1:]
    return t[:path[0]] + [_del(t[path[0]], path[1:])] + t[path[0] + 1:]


NUM_SUBST = ["0", "1", "2", "3", "4", "5", "24", "32", "33", "128", "129", "255", "256", "65535", "4294967295", "4294967296"]
ATOM_SUBST = ["prefix", "neighbor", "aspath", "comm", "ext", "large", "any", "all", "invert", "t", "f", "none", "accept",
              "reject", "pass", "imp", "exp", "ps1", "as1", "cs1", "s1", "p1", "nosuch", ".*", "*bad", "(", "x", "x0", "x00"]


CLASSES = [["any", "all", "invert"], ["accept", "reject", "pass"], ["t", "f"], ["imp", "exp"], ["eq", "ge", "le"],
           ["add", "remove", "replace"], ["ps1", "ps2"], ["ns1", "ns2"], ["as1", "as2"], ["cs1", "cs2"],
           ["s1", "s2", "s3", "s4"], ["p1", "p2", "p3"], ["nf", "valid", "invalid", "none"], ["self", "peer", "unchanged"],
           ["inc", "left", "orig", "only"], ["rinc", "rleft", "rorig", "ronly"], ["internal", "external", "local"],
           ["set-add", "set-replace"], ["asg-add", "asg-set"], ["mod", "replace"]]
LIST_HEADS = ("ops", "probes", "attrs")


def mutate(r, case):
    t = _parse(case)
    mild = r.chance(3, 4)
    for _ in range(1 if mild else 1 + r.below(3)):
        ps = [p for p in _paths(t) if p]
        p = r.pick(ps)
        sub = _get(t, p)
        if mild:
            # class-preserving change of one atom, or removal / duplication of one list element
            if isinstance(sub, str):
                if sub.isdigit():
                    t = _set(t, p, r.pick(NUM_SUBST))
                else:
                    cl = [c for c in CLASSES if sub in c]
                    if cl:
                        t = _set(t, p, r.pick(cl[0]))
            else:
                par = _get(t, p[:-1])
                if isinstance(par, list) and par and (par[0] in LIST_HEADS or not isinstance(par[0], str)):
                    t = _del(t, p) if r.chance(1, 2) else _set(t, p[:-1], par + [sub])
            continue
        k = r.below(6)
        if k == 0:
            t = _del(t, p)
        elif k == 1 and isinstance(sub, str) and sub.isdigit():
            t = _set(t, p, r.pick(NUM_SUBST))
        elif k == 2 and isinstance(sub, str):
            a = r.pick(ATOM_SUBST)
            if a == "(":
                a = "nosuch"
            t = _set(t, p, a)
        elif k == 3 and isinstance(sub, str) and sub.startswith("x") and len(sub) > 1:
            t = _set(t, p, r.pick([sub[:-1], sub[:-2], sub + "00", sub[:3] + "ff" + sub[5:], "x" + "05" + sub[3:]]))
        elif k == 4 and not isinstance(sub, str):
            t = _set(t, p, sub + sub[-1:])      # duplicate the last element
        else:
            q = r.pick(ps)
            t = _set(t, p, _get(t, q))          # graft another sub-term
    return _show(t)


def gen(seed, n, tier):
    r = Rng(seed * 1000003 + 14)
    out = []
    for i in range(n):
        c = gen_dcase(r, tier) if i % 3 == 2 else gen_case(r, tier)
        if r.chance(1, 8):
            try:
                c = mutate(r, c)
            except Exception:
                pass
        out.append(c)
    return out
