from common import Rng

# boundary / switch buckets of lean/Rbgp/Policy/Stats.lean that every quick run is expected to hit (>= 4 cases in each of
# seeds 1..8 when the list was made); one that stays at zero is listed under coverage_gaps in the evidence
EXPECT_BUCKETS = [
    "aa-accumulate-invalid", "aa-accumulate-ok", "aa-no-policies", "af-hit", "af-miss", "al-above1", "al-below1",
    "al-cmp-eq", "al-cmp-ge", "al-cmp-le", "al-eq", "al-len-ge-256", "al-noattr", "ar-inc-hi-above1", "ar-inc-hi-eq",
    "ar-inc-inverted", "ar-inc-lo-below1", "ar-inc-lo-eq", "ar-inc-point", "ar-inc-subject-empty", "ar-left-hi-above1",
    "ar-left-hi-eq", "ar-left-inverted", "ar-left-lo-below1", "ar-left-lo-eq", "ar-left-point", "ar-left-subject-empty",
    "ar-only-hi-eq", "ar-only-inverted", "ar-only-len1", "ar-only-len2", "ar-only-lo-below1", "ar-only-lo-eq",
    "ar-only-point", "ar-only-subject-empty", "ar-orig-hi-above1", "ar-orig-hi-eq", "ar-orig-inverted", "ar-orig-lo-below1",
    "ar-orig-lo-eq", "ar-orig-point", "ar-orig-subject-empty", "as-all-mixed", "as-inc-above1", "as-inc-below1", "as-inc-eq",
    "as-inc-subject-empty", "as-left-below1", "as-left-eq", "as-left-subject-empty", "as-no-policies", "as-noattr",
    "as-only-above1", "as-only-below1", "as-only-eq", "as-only-len1", "as-only-len2", "as-only-subject-empty",
    "as-orig-above1", "as-orig-below1", "as-orig-eq", "as-orig-subject-empty", "as-over-existing-invalid",
    "as-over-existing-ok", "as-set-has-regex", "asg-needs-rpki", "asg-no-policies", "asg-policy-no-statements", "ca-add",
    "ca-existing-none", "ca-list-empty", "ca-remove", "ca-replace", "ca-result-empty", "ca-result-gt255B", "cc-above1",
    "cc-below1", "cc-cmp-eq", "cc-cmp-ge", "cc-cmp-le", "cc-eq", "cs-comm-all-every", "cs-comm-all-mixed",
    "cs-comm-route-has-none", "cs-ext-all-mixed", "cs-ext-route-has-none", "cs-large-all-mixed", "cs-large-route-has-none",
    "d-override-and-global-export", "d-override-v6-peer", "dop-asgadd-global-invalid", "dop-asgadd-global-ok",
    "dop-asgadd-peer-accumulate-invalid", "dop-asgadd-peer-accumulate-ok", "dop-asgadd-peer-invalid", "dop-asgadd-peer-ok",
    "dop-asgadd-unknown-peer", "dop-asgdel-global-all-ok", "dop-asgdel-global-partial-notfound",
    "dop-asgdel-global-partial-ok", "dop-asgdel-peer-all-invalid", "dop-asgdel-peer-all-ok",
    "dop-asgdel-peer-partial-invalid", "dop-asgdel-peer-partial-notfound", "dop-asgdel-peer-partial-ok",
    "dop-asgset-global-invalid", "dop-asgset-global-ok", "dop-asgset-peer-invalid", "dop-asgset-peer-ok",
    "dop-asgset-peer-over-existing-invalid", "dop-asgset-peer-over-existing-ok", "dop-peer-import-refused",
    "dop-peeradd-plain-exists", "dop-peeradd-plain-ok", "dop-peeradd-with-policy-exists", "dop-peeradd-with-policy-invalid",
    "dop-peeradd-with-policy-ok", "dop-peerdel-exists", "dop-peerdel-ok", "dop-peerdel-with-override", "dop-poladd-inuse",
    "dop-poladd-invalid", "dop-poladd-ok", "dop-poladd-peer-referenced", "dop-poldel-inuse", "dop-poldel-notfound",
    "dop-poldel-ok", "dop-poldel-peer-referenced", "dop-setpolicies-clears-override-invalid",
    "dop-setpolicies-clears-override-ok", "dop-setpolicies-invalid", "dop-setpolicies-ok", "ea-add", "ea-existing-none",
    "ea-list-empty", "ea-remove", "ea-replace", "ea-result-empty", "ex-encap", "ex-lb", "ex-other", "ex-rt2", "ex-rt4",
    "ex-rtip", "ex-soo2", "ex-soo4", "ex-sooip", "ex-validation", "ex-validation-unknown", "la-add", "la-existing-none",
    "la-list-empty", "la-remove", "la-replace", "la-result-empty", "la-result-gt255B", "lp-above1", "lp-absent",
    "lp-absent-vs-0", "lp-below1", "lp-eq", "lp-present-0", "lpa-0", "lpa-max", "md-absent", "md-sum-0", "md-sum-m1",
    "md-sum-max", "md-sum-max1", "md-v-0", "md-v-i32max", "md-v-i32max1", "md-v-i32min", "md-v-i32min1", "md-v-i64max",
    "md-v-i64min", "md-v-wide", "me-above1", "me-absent", "me-absent-vs-0", "me-below1", "me-eq", "me-present-0", "mr-0",
    "mr-max", "mr-max1", "mr-neg", "mr-wide", "name-shared-other-kind-inuse-inuse", "name-shared-other-kind-inuse-invalid",
    "name-shared-other-kind-inuse-notfound", "name-shared-other-kind-inuse-ok", "nb-after", "nb-before", "nb-fam-mismatch",
    "nb-first", "nb-host-net", "nb-last", "nb-zero-net", "nh-none", "nha-addr4", "nha-peer4", "nha-peer6", "nha-self4",
    "nha-self6", "nha-unchanged-none", "nha-unchanged-some", "nhc-fam-mismatch", "nhc-hit", "nhc-miss", "nhc-none", "oa-0",
    "oa-1", "oa-2", "oa-out-of-range", "op-asgadd-invalid", "op-asgadd-ok", "op-asgdel-all-ok", "op-asgdel-partial-notfound",
    "op-asgdel-partial-ok", "op-asgset-invalid", "op-asgset-ok", "op-poladd-inuse", "op-poladd-invalid", "op-poladd-ok",
    "op-poldel-all-cleanup-inuse", "op-poldel-all-cleanup-notfound", "op-poldel-all-cleanup-ok",
    "op-poldel-all-preserve-inuse", "op-poldel-all-preserve-notfound", "op-poldel-all-preserve-ok",
    "op-poldel-partial-cleanup-inuse", "op-poldel-partial-cleanup-notfound", "op-poldel-partial-cleanup-ok",
    "op-poldel-partial-preserve-inuse", "op-poldel-partial-preserve-notfound", "op-poldel-partial-preserve-ok",
    "op-setadd-aspath-inuse", "op-setadd-aspath-invalid", "op-setadd-aspath-ok", "op-setadd-comm-inuse",
    "op-setadd-comm-invalid", "op-setadd-comm-ok", "op-setadd-ext-inuse", "op-setadd-ext-invalid", "op-setadd-ext-ok",
    "op-setadd-large-inuse", "op-setadd-large-invalid", "op-setadd-large-ok", "op-setadd-neighbor-inuse",
    "op-setadd-neighbor-invalid", "op-setadd-neighbor-ok", "op-setadd-prefix-inuse", "op-setadd-prefix-invalid",
    "op-setadd-prefix-ok", "op-setdel-aspath-all-inuse", "op-setdel-aspath-all-notfound", "op-setdel-aspath-all-ok",
    "op-setdel-aspath-partial-inuse", "op-setdel-aspath-partial-invalid", "op-setdel-aspath-partial-notfound",
    "op-setdel-aspath-partial-ok", "op-setdel-comm-all-notfound", "op-setdel-comm-all-ok", "op-setdel-comm-partial-inuse",
    "op-setdel-comm-partial-invalid", "op-setdel-comm-partial-notfound", "op-setdel-comm-partial-ok",
    "op-setdel-ext-all-inuse", "op-setdel-ext-all-notfound", "op-setdel-ext-all-ok", "op-setdel-ext-partial-inuse",
    "op-setdel-ext-partial-invalid", "op-setdel-ext-partial-notfound", "op-setdel-ext-partial-ok",
    "op-setdel-large-all-inuse", "op-setdel-large-all-notfound", "op-setdel-large-all-ok", "op-setdel-large-partial-inuse",
    "op-setdel-large-partial-invalid", "op-setdel-large-partial-notfound", "op-setdel-large-partial-ok",
    "op-setdel-neighbor-all-inuse", "op-setdel-neighbor-all-notfound", "op-setdel-neighbor-all-ok",
    "op-setdel-neighbor-partial-inuse", "op-setdel-neighbor-partial-invalid", "op-setdel-neighbor-partial-notfound",
    "op-setdel-neighbor-partial-ok", "op-setdel-prefix-all-inuse", "op-setdel-prefix-all-notfound",
    "op-setdel-prefix-all-ok", "op-setdel-prefix-partial-inuse", "op-setdel-prefix-partial-invalid",
    "op-setdel-prefix-partial-notfound", "op-setdel-prefix-partial-ok", "op-setreplace-aspath-inuse",
    "op-setreplace-aspath-invalid", "op-setreplace-aspath-ok", "op-setreplace-comm-inuse", "op-setreplace-comm-invalid",
    "op-setreplace-comm-ok", "op-setreplace-ext-inuse", "op-setreplace-ext-invalid", "op-setreplace-ext-ok",
    "op-setreplace-large-inuse", "op-setreplace-large-invalid", "op-setreplace-large-ok", "op-setreplace-neighbor-inuse",
    "op-setreplace-neighbor-invalid", "op-setreplace-neighbor-ok", "op-setreplace-prefix-inuse",
    "op-setreplace-prefix-invalid", "op-setreplace-prefix-ok", "op-stmtadd-inuse", "op-stmtadd-invalid", "op-stmtadd-ok",
    "op-stmtdel-all-inuse", "op-stmtdel-all-notfound", "op-stmtdel-all-ok", "op-stmtdel-partial-inuse",
    "op-stmtdel-partial-invalid", "op-stmtdel-partial-notfound", "op-stmtdel-partial-ok", "opt-aspath-all", "opt-aspath-any",
    "opt-aspath-invert", "opt-comm-all", "opt-comm-any", "opt-comm-invert", "opt-ext-all", "opt-ext-any", "opt-ext-invert",
    "opt-large-all", "opt-large-any", "opt-large-invert", "opt-neighbor-any", "opt-neighbor-invert", "opt-prefix-any",
    "opt-prefix-invert", "or-above1", "or-absent", "or-absent-vs-0", "or-below1", "or-cond-out-of-range", "or-eq",
    "or-present-0", "origin-absent", "pa-append-inuse", "pa-append-invalid", "pa-append-ok", "pa-no-statements",
    "path-absent", "path-empty", "path-first-seg-empty", "path-flat-empty", "path-has-confed-seq", "path-has-confed-set",
    "path-has-set", "path-seg-254", "path-seg-255", "pe4-hi-above1", "pe4-hi-below1", "pe4-hi-eq", "pe4-hi-gt-width",
    "pe4-len-above1", "pe4-len-below1", "pe4-len-eq", "pe4-lo-above1", "pe4-lo-below1", "pe4-lo-eq", "pe4-lo-lt-len",
    "pe4-longer-inrange", "pe4-nested", "pe4-nested-longest-out", "pe4-range-inverted", "pe6-hi-above1", "pe6-hi-below1",
    "pe6-hi-eq", "pe6-hi-gt-width", "pe6-len-above1", "pe6-len-below1", "pe6-len-eq", "pe6-lo-above1", "pe6-lo-below1",
    "pe6-lo-eq", "pe6-lo-lt-len", "pe6-longer-inrange", "pe6-nested", "pe6-nested-longest-out", "pe6-range-inverted",
    "pn4-mask-0", "pn4-mask-max", "pn6-mask-0", "pn6-mask-max", "pp-confed", "pp-cross-by1", "pp-empty-path", "pp-fill-255",
    "pp-first-full", "pp-first-othertype", "pp-lm", "pp-lm-empty-path", "pp-lm-first-seg-empty", "pp-lm-flat-empty",
    "pp-noattr", "pp-rep0", "pp-rep1", "pz4-hi-above1", "pz4-hi-below1", "pz4-hi-eq", "pz4-lo-above1", "pz4-lo-below1",
    "pz4-lo-eq", "pz6-hi-above1", "pz6-hi-below1", "pz6-hi-eq", "pz6-lo-above1", "pz6-lo-eq", "raw-after-good-elements",
    "raw-first-of-many", "raw-setadd-invalid", "raw-setadd-set-existed", "raw-setdel-partial-invalid",
    "raw-setdel-partial-set-existed", "raw-setreplace-invalid", "raw-setreplace-set-existed", "rp-eq", "rp-ne", "rp-none",
    "rpki-invalid", "rpki-none", "rpki-notfound", "rpki-valid", "rt-asn-eq", "rt-asn-ne", "rt-src-local",
    "sa-existing-inuse", "sa-merge-aspath-invalid", "sa-merge-aspath-ok", "sa-merge-comm-invalid", "sa-merge-comm-ok",
    "sa-merge-ext-invalid", "sa-merge-ext-ok", "sa-merge-large-invalid", "sa-merge-large-ok", "sa-merge-neighbor-invalid",
    "sa-merge-neighbor-ok", "sa-merge-prefix-invalid", "sa-merge-prefix-ok", "sa-no-elems-inuse", "sa-no-elems-invalid",
    "sa-no-elems-ok", "sd-partial-aspath-regex", "sd-partial-comm", "sd-partial-ext", "sd-partial-large", "sd-partial-nbr",
    "sd-partial-nbr-missing", "sd-partial-pfx-missing", "sd-partial-pfx-other-range", "sd-partial-pfx4", "sd-partial-pfx6",
    "sd-partial-single", "sd-partial-single-missing", "sd-partial-to-empty", "sd-partial-zero4", "sd-partial-zero4-missing",
    "sd-partial-zero6", "sd-partial-zero6-missing", "sr-existing-inuse", "sr-existing-unref-invalid", "sr-existing-unref-ok",
    "sr-fresh-invalid", "sr-fresh-ok", "src-local", "st-merge-inuse", "st-merge-invalid", "st-merge-ok", "wk-accept-own",
    "wk-blackhole", "wk-graceful-shutdown", "wk-llgr-stale", "wk-mixed-case", "wk-no-advertise", "wk-no-export",
    "wk-no-export-subconfed", "wk-no-llgr", "wk-no-peer",
]

CONFIG = dict(
    level_text="Kernel-checked Lean theorems about a hand-written model of table/src/policy.rs (conditions, AS-path patterns, "
               "match options, statement/policy/assignment chaining, all actions, every PolicyTable CRUD call) and the AS_PATH "
               "helpers of packet/src/bgp.rs: the master theorem that the C14 reference checker (written from the property text: "
               "statements in order, all conditions, ANY covering prefix entry with the length in range, ANY/ALL/INVERT, first "
               "non-pass wins, accumulated actions, referenced objects neither deleted nor changed) accepts EVERY run of the model "
               "over all probe sets and all CRUD sequences; no panic for any AS_PATH segment structure; reference closure of the "
               "table for all CRUD sequences; in-use objects rejected.  The model is tied to the real code by running "
               "PolicyTable / apply_import / apply_export and the model on the same generated cases (routes decoded by the real "
               "wire decoder) and diffing result codes, listings and every probe result, with the reference checker as oracle on "
               "the real observations.  The holders outside PolicyTable (TableManager.import_policy/export_policy and every "
               "peer's export override) are covered the same way: a model of the daemon wrappers on top of the table model, the "
               "invariant extended to them (published copies = the table's assignments, per-peer policies = the table's objects) "
               "for all call sequences, the daemon-level master theorem, and a correspondence stream that drives a real Global + "
               "TableManager + GrpcService in-process and re-evaluates every probe through every holder after every call.",
    level_note="Trusted: Lean kernel; axioms propext/Classical.choice/Quot.sound (decide +kernel for closed examples, no "
               "native_decide); the hand-written model (checked only by the correspondence stream); harness glue (case decoding, "
               "UPDATE framing of probe attributes, RPKI table construction, listing dump).  Uninterpreted in every theorem: the "
               "regex engine and ext-community text form (RegexEnv).  Master theorem is `_partial` in ONE explicit hypothesis: no "
               "free-form AS-path pattern (known finding F14-aspath-regex-ignored, refuted in full by C14_full_refuted).  Well-known "
               "community names (any letter case) are inside the theorem since wave 7.  Modelled, not verified: see modelled_not_verified.",
    lean_modules=["Rbgp.Policy.Props"],
    theorems=[
        "Rbgp.Policy.Props.eval_eq_reference",
        "Rbgp.Policy.Props.eval_chain_eq_reference",
        "Rbgp.Policy.Props.prefixset_match_spec",
        "Rbgp.Policy.Props.aspath_match_total",
        "Rbgp.Policy.Props.aspath_match_flat",
        "Rbgp.Policy.Props.aspath_condition_total",
        "Rbgp.Policy.Props.matchoption_spec",
        "Rbgp.Policy.Props.first_nonpass_wins",
        "Rbgp.Policy.Props.first_nonpass_wins_policies",
        "Rbgp.Policy.Props.actions_accumulate",
        "Rbgp.Policy.Props.statement_applies_iff",
        "Rbgp.Policy.Props.crud_ref_closed",
        "Rbgp.Policy.Props.in_use_not_deleted",
        "Rbgp.Policy.Props.referenced_unchanged",
        "Rbgp.Policy.Props.wellknown_community_value",
        "Rbgp.Policy.Props.wellknown_community_stored",
        "Rbgp.Policy.Props.request_stored",
        "Rbgp.Policy.Props.no_stale_objects",
        "Rbgp.Policy.Props.holders_ref_closed",
        "Rbgp.Policy.Props.eval_eq_reference_daemon",
        "Rbgp.Policy.Props.holder_untouched",
        "Rbgp.Policy.Props.holder_policy_unchanged",
        "Rbgp.Policy.Props.C14_full_refuted",
    ],
    harness=dict(kind="daemon", test="event::verif_event::c14::verif_main"),
    profiles=["debug"],
    n_quick=3200, n_thorough=120000, shards=12,
    nontrivial_re=r"\(r (accept|reject|pass) \(|\(r reject|\(err inuse\)|panic",
    rule="EVERY quick run hits each bucket of EXPECT_BUCKETS (lean/Rbgp/Policy/Stats.lean, counted per case in "
         "coverage.oracle_clause_counts; a zero is listed in coverage_gaps): every comparison of the anchored functions exactly on and one "
         "off its boundary (route length vs entry length / range min / range max for both families and the 0/0 slots, entry one bit longer "
         "than the route, nested entries that disagree, AS number vs range bounds at first / last / any position, path length and community "
         "count vs operand, LOCAL_PREF / MED / ORIGIN present-0 vs absent, neighbor first / last / next address), every width switch of the "
         "MED arithmetic (i32, u32, i64 limits and sums landing on 0, -1, u32::MAX, u32::MAX+1), prepend filling a segment to exactly 255 / "
         "one past, every well-known name in two spellings, every ext-community text form incl. 4-octet / IPv4 site-of-origin and link "
         "bandwidth, list payloads crossing 255 octets, absent ORIGIN / AS_PATH, every (call kind x result) incl. partial deletes of the 0/0 "
         "and IPv6 entries, a name shared by sets of different kinds, merges and deletes that fail half way through their element list.  "
         "One case in four is PINNED: one set member (or one plain condition), one statement, one probe built on / next to that member's "
         "boundary, so the boundary alone decides the disposition.  "
         "cases = (probe routes, CRUD call sequence).  Routes: IPv4/IPv6 prefixes nested in / disjoint from the set entries, "
         "attribute vectors pushed through the real UPDATE decoder (ORIGIN, AS_PATH of every segment type incl. empty segments, "
         "255-member segments, MED, LOCAL_PREF, COMMUNITY, EXT/LARGE communities, unknown optional transitive), local/iBGP/eBGP "
         "sources, RPKI state none/not-found/valid/invalid.  Calls: add/replace/delete(all|partial) on the six set kinds with "
         "nested and overlapping prefix entries (ranges below/above the entry length, inverted), anchored and free-form "
         "AS-path / community patterns incl. invalid ones; statements from the full condition/action grammar (ANY/ALL/INVERT, "
         "MED +-i64 extremes, prepend 0..300 incl. last-as, community add/remove/replace, next hop, local-pref, origin); "
         "policies; import/export assignments; then 2-8 random calls aimed at the same small name space (in-use deletes, "
         "merges, dangling names).  After EVERY call the listing is dumped and all probes are re-evaluated under both "
         "assignments.  Every third case is daemon-level: initial peers, the same calls through the daemon entry points plus "
         "per-peer add/delete/set assignment, add/delete peer (with and without export policy) and SetPolicies reloads; after "
         "every call the listing and, for the published import, the published export and every peer override, the held "
         "assignment and all probe results.  non-trivial = some probe was rewritten or rejected, or an in-use call was refused; distinct = distinct case line",
    expect_tokens=["(r reject", "(r accept (", "(r pass", "(err inuse)", "(err notfound)", "(err invalid)", "(imp none)",
                   "set prefix", "set neighbor", "set aspath", "set comm", "set ext", "set large", "(some (", "cset aspath as1 all",
                   "invert", "(prep ", "(med mod", "(nh ", "(a 2 80 ", "(a 4 128 (v 4294967295))", "(a 4 128 (v 0))",
                   "(a 16 192", "(a 32 192", "(dstep", "(err exists)", " t)", "(hexp ((asg", "(himp ((asg", "(asg @4:", "(asg @6:", "(err exists)"],
    trusted_base=["model lean/Rbgp/Policy/DModel.lean of Global::{add_policy, delete_policy, add_policy_assignment, delete_policy_assignment, "
                  "add_peer} (daemon/src/event/mod.rs) and set_policy_assignment / set_policies / delete_peer (daemon/src/event/grpc.rs)",
                  "harness/daemon/c14.rs (+ harness/common/c14_table.rs shared with the pt binary): real Global, TableManager and "
                  "GrpcService built in-process, API messages for assignments and SetPolicies built by the harness",
                  "model lean/Rbgp/Policy/Model.lean of table/src/policy.rs + AsPathIter/as_path_length/as_path_prepend[_confed] of packet/src/bgp.rs",
                  "harness/pt/src/bin/c14.rs: builds an UPDATE from the declared attributes and takes the attribute vector the real "
                  "decoder returns (must equal the declaration, else bad-case); constructs an RpkiTable that yields the declared "
                  "validation state (checked with RpkiTable::validate); dumps the table through iter_defined_sets/statements/"
                  "policies/assignments sorted by name",
                  "RegexEnv (regex crate, ext_community_to_string) is an uninterpreted parameter of every theorem; the driver runs "
                  "with a small engine (literals . \\d * + ^ $) from which the generator draws its patterns"],
    modelled_not_verified=[
        "daemon level: every policy call goes through the real GrpcService handler and convert.rs — AddDefinedSet(replace) / "
        "DeleteDefinedSet, AddPolicy / DeletePolicy, AddPolicyAssignment / DeletePolicyAssignment / SetPolicyAssignment, SetPolicies, "
        "DeletePeer always; AddStatement / DeleteStatement whenever the statement can be said in an api::Statement (about 3 of 4 "
        "generated ones; everything but ext-community actions, `pass`, repeated or out-of-message-order condition kinds; the rest is "
        "called on global.ptable as the handler does after conversion).  Peers are created by Global::add_peer from the PeerParams "
        "the real configuration path yields (TOML text -> config::Neighbor -> PeerParams::try_from, incl. apply-policy.config "
        "export-policy-list / default-export-policy; a `pass` default cannot be said there and is built directly); the gRPC AddPeer "
        "is not used (it would start connecting).  The harness speaks the enum numbering the converters implement (MatchSet.type "
        "and Comparison read as 0/1/2 although gobgp.proto numbers them 1/2/3 after UNSPECIFIED=0 — reported to the API-conversion "
        "property, not judged here)",
        "the gates and argument choices of the session path are NOT executed: probes call table::apply_import/apply_export with the "
        "holder's assignment and the case's arguments; `.filter(|p| p.needs_rpki)` + override-else-global selection in "
        "handle_prefix_update (event/mod.rs) and the arguments built in export.rs (pre_policy_defaults, original_nexthop, "
        "confed flag, local/remote address) need the export model of C09/C01 to predict.  What IS judged: the needs_rpki flag "
        "every holder's assignment carries against the rpki conditions of the statements its names resolve to",
        "apply_config's loader of defined-sets / policy-definitions (load_policy_from_config), peer groups and dynamic peers are not "
        "exercised (the neighbor part of the configuration conversion is); the lock-free readers of the ArcSwap holders (peer "
        "tasks) are not modelled — calls are sequential",
        "free-form AS-path regex members: the reference consults them, the code does not (open finding F14-aspath-regex-ignored); "
        "excluded from the master theorem by the explicit hypothesis Op.noAsRegex",
        "RpkiTable::validate: its result is an input of the model (C12 owns the classification)",
        "IpLookupTable (treebitmap) modelled as a keyed list; prefix-set and neighbor-set elements are generated without host bits "
        "(the crate asserts on host bits: add_defined_set/delete_defined_set panic on e.g. 10.0.0.16/24 — configuration-time, outside the statement)",
        "IpNet::contains modelled as CIDR containment for nets without host bits",
        "non-unicast NLRI (VPN, labeled, flowspec, EVPN, ...): Prefix condition is false for them whatever the option; AfiSafiIn only exercised for IPv4/IPv6 unicast",
        "attribute values the API can build that the decoder cannot (attr_from_api accepts arbitrary AS_PATH segment types / Unknown{known code}: "
        "as_path_length then hits unreachable!()) — C17 / S27 owns that obligation; probes here are decoder output, decoder output with a "
        "zero-count AS_PATH segment put in the API way, or decoder output minus ORIGIN / AS_PATH (a locally originated API route)",
        "AS-path set members that look like an anchored numeric form but overflow u32 (`_4294967296_`) fall through to the free-form regex "
        "branch (open finding F14-aspath-regex-ignored covers what happens to them); link-bandwidth extended communities only with "
        "whole-number bandwidths below 2^24 (f32 Display is not modelled beyond that)",
        "as-prepend repeat is a u32: the loop is unbounded in practice (generated <= 300)",
        "replace_defined_set removes the old set before add_defined_set validates the new contents: a failing replace of an UNREFERENCED set deletes it (modelled as is; not a violation of the statement)"],
    assumptions=["probe attribute vectors are values Attribute::decode produces (Spec.pathOk); the reference says nothing about others"],
    oracle_stats=True,
    expect_judged=EXPECT_BUCKETS,
    claimed=True,
)

# ---------------------------------------------------------------- small colliding domains
ASNS = [65001, 65002, 65003, 100, 4200000001]
# members around the bounds of the range patterns (100-200, 65001-65002, 0-4294967295, ...)
EDGE_ASNS = [99, 200, 201, 65000, 4294967295, 150, 101, 199]


def v4(a, b, c, d):
    return (a << 24) | (b << 16) | (c << 8) | d


def A4(n):
    return "(4 %d)" % n


def A6(n):
    return "(6 %d)" % n


V6A = 0x20010db8 << 96
V6B = (0x20010db8 << 96) | (1 << 80)
V6C = 0x20010db9 << 96          # outside 2001:db8::/32, inside 2001:db8::/31

# (addr term, mask, family width)
SET_PREFIXES = [
    (A4(v4(10, 0, 0, 0)), 8, 32), (A4(v4(10, 1, 0, 0)), 16, 32), (A4(v4(10, 1, 1, 0)), 24, 32),
    (A4(v4(10, 1, 1, 128)), 25, 32), (A4(v4(192, 168, 0, 0)), 16, 32), (A4(0), 0, 32),
    (A4(v4(10, 0, 0, 0)), 7, 32), (A4(v4(10, 1, 1, 1)), 32, 32), (A4(v4(10, 1, 0, 0)), 20, 32),
    (A6(V6A), 32, 128), (A6(V6B), 48, 128), (A6(0), 0, 128),
    # one bit longer / shorter than a generated route with the same address bits, /1, /31, /32, /127, /128
    (A4(v4(10, 1, 1, 0)), 25, 32), (A4(v4(10, 1, 1, 0)), 31, 32), (A4(v4(10, 1, 1, 0)), 32, 32), (A4(0), 1, 32),
    (A4(v4(128, 0, 0, 0)), 1, 32), (A4(v4(10, 1, 0, 0)), 17, 32),
    (A6(V6A), 33, 128), (A6(V6A), 48, 128), (A6(V6B), 49, 128), (A6(V6A), 31, 128), (A6(V6A), 127, 128),
    (A6(V6A | 1), 128, 128), (A6(0), 1, 128),
]
ROUTE_NETS = [
    (A4(v4(10, 1, 1, 0)), 24), (A4(v4(10, 1, 0, 0)), 16), (A4(v4(10, 0, 0, 0)), 8), (A4(v4(10, 1, 1, 128)), 25),
    (A4(v4(10, 1, 1, 1)), 32), (A4(v4(192, 168, 1, 0)), 24), (A4(v4(172, 16, 0, 0)), 12), (A4(0), 0),
    (A4(v4(10, 1, 1, 0)), 28), (A4(v4(10, 1, 17, 0)), 20), (A4(v4(11, 0, 0, 0)), 8),
    (A6(V6B), 48), (A6(V6A), 32), (A6(V6B | (1 << 64)), 64), (A6(0), 0),
    (A4(v4(10, 1, 1, 0)), 25), (A4(v4(10, 1, 1, 0)), 31), (A4(v4(10, 1, 1, 0)), 32), (A4(0), 1), (A4(v4(128, 0, 0, 0)), 1),
    (A4(v4(10, 1, 0, 0)), 23), (A4(v4(10, 1, 0, 0)), 17),
    (A6(V6A), 33), (A6(V6A), 31), (A6(V6A), 48), (A6(V6A), 47), (A6(V6B), 49), (A6(V6A), 127), (A6(V6A), 128),
    (A6(V6A | 1), 128), (A6(0), 1), (A6(V6C), 32),
]
V4_MASKS = sorted({m for a, m in ROUTE_NETS if a.startswith("(4")})
V6_MASKS = sorted({m for a, m in ROUTE_NETS if a.startswith("(6")})


def _num(term):
    """(v6, value) of an address term"""
    f, v = term.strip("()").split(" ")
    return f == "6", int(v)


def _top(v6, val, n):
    return 0 if n == 0 else val >> ((128 if v6 else 32) - n)


def addr_covered(entry, net):
    """the entry's network contains the ADDRESS of the route (what the lookup table returns), whatever the lengths"""
    (e6, ev), em = _num(entry[0]), entry[1]
    (n6, nv) = _num(net[0])
    return e6 == n6 and _top(e6, ev, em) == _top(n6, nv, em)


# the nets of the probes of the case being generated: set entries and ranges are aimed at them
_TARGETS = []


def related_entries():
    return [e for e in SET_PREFIXES if any(addr_covered(e, t) for t in _TARGETS)]
PEERS = [A4(v4(192, 0, 2, 1)), A4(v4(192, 0, 2, 2)), A4(v4(198, 51, 100, 7)), A6(V6A | 1)]
# the peer address of a probe: also first / last address of a neighbor net and the addresses next to it
PROBE_PEERS = PEERS + [A4(v4(198, 51, 100, 0)), A4(v4(198, 51, 100, 255)), A4(v4(198, 51, 101, 0)), A4(v4(198, 51, 99, 255)),
                       A4(v4(192, 0, 2, 0)), A6(V6A | 2), A6(V6A), A6(V6C), A6(V6A - 1), A6(V6B | 7)]
NEIGHBOR_NETS = [(A4(v4(192, 0, 2, 0)), 24), (A4(v4(192, 0, 2, 1)), 32), (A4(v4(198, 51, 100, 0)), 24),
                 (A4(v4(192, 0, 2, 0)), 31), (A6(V6A), 32), (A4(0), 0),
                 (A6(V6A | 1), 128), (A6(V6B), 48), (A6(0), 0), (A4(v4(198, 51, 100, 0)), 25)]
NEXTHOPS = [A4(v4(192, 0, 2, 1)), A4(v4(192, 0, 2, 2)), A4(v4(10, 9, 9, 9)), A6(V6A | 1), A6(V6A | 2)]


def comm(hi, lo):
    return (hi << 16) | lo


WELL_KNOWN = {"graceful-shutdown": 0xffff0000, "accept-own": 0xffff0001, "llgr-stale": 0xffff0006, "no-llgr": 0xffff0007,
              "blackhole": 0xffff029a, "no-export": 0xffffff01, "no-advertise": 0xffffff02, "no-export-subconfed": 0xffffff03,
              "no-peer": 0xffffff04}
COMMS = [comm(65001, 100), comm(65001, 200), comm(65002, 100), comm(0, 5), 0xffffff01, 0xffff029a, comm(65001, 150)]
COMM_PATS = ["65001:100", str(comm(65001, 200)), "^65001:.*$", "65001:.*", ".*", "no-export", "NO-EXPORT", "blackhole",
             "^6500.:100$", "6500\\d:100", "65001:1\\d\\d", "65002:100", "0:5", "^x$", "65001:1.0", "\\d+:200"]
# every well-known name (and a mixed-case spelling of it); the probes carry the communities they stand for
WK_PATS = list(WELL_KNOWN) + ["No-Peer", "GRACEFUL-SHUTDOWN", "Accept-Own", "LLGR-stale", "NO-LLGR", "No-Advertise", "NO-EXPORT-SUBCONFED"]
BAD_PATS = ["*bad", "+1", "rt:[", "[x"]
# invalid only after `parse_community` has wrapped it in ^...$ (the digit:digit branch)
COMM_BAD_PATS = ["*bad", "65001:1[", "[65001:100"]
EXTS = ["0002fde900000064", "0002fde9000000c8", "0003fde900000064", "0202fde9000a0064", "0102c00002010064",
        "030c000000000008", "4300000000000000", "4300000000000001", "4300000000000002", "4300000000000003",
        "9900000000000001", "0002fdea00000064",
        # 4-octet-AS and IPv4 site-of-origin, link bandwidth (whole-number f32: 125000, 0, 1, 16777215)
        "0203fde9000a0064", "0103c00002010064", "4004fde947f42400", "4004fde900000000", "4004fde93f800000", "4004fde94b7fffff"]
EXT_PATS = ["^rt:65001:100$", "rt:.*", "^soo:", "validation:valid", "validation:", "encap:\\d+", ".*", "rt:192.0.2.1:100",
            "^rt:6500.:100$", "^x$", "rt:65001:\\d+$", "^lb:", "lb:65001:125000$", "lb:\\d+:0$", "^soo:65001:", "soo:192.0.2.1:100",
            "soo:4259905546:100"]
LARGES = [(65001, 1, 2), (65001, 1, 3), (65002, 0, 0), (4200000001, 4294967295, 0)]
LARGE_PATS = ["^65001:1:2$", "^65001:.*$", "65002:0:0", ".*", "^x$", "^\\d+:1:\\d$", "4200000001:"]

SET_NAMES = dict(prefix=["ps1", "ps2"], neighbor=["ns1", "ns2"], aspath=["as1", "as2"], comm=["cs1", "cs2"],
                 ext=["es1"], large=["ls1"])
# a name that exists in every name space at once (sets of all kinds, a statement, a policy)
SHARED = "x1"
# a set nothing refers to (partial deletes are refused on referenced sets)
FREE = dict(prefix="ps3", neighbor="ns3", aspath="as3", comm="cs3", ext="es3", large="ls3")
STMT_NAMES = ["s1", "s2", "s3", "s4"]
POL_NAMES = ["p1", "p2", "p3"]
KINDS = ["prefix", "neighbor", "aspath", "comm", "ext", "large"]


# ---------------------------------------------------------------- routes
def hexb(bs):
    return "x" + "".join("%02x" % b for b in bs)


def be32(n):
    return [(n >> 24) & 255, (n >> 16) & 255, (n >> 8) & 255, n & 255]


def enc_path(segs):
    out = []
    for ty, asns in segs:
        out += [ty, len(asns)]
        for a in asns:
            out += be32(a)
    return out


PATHS = [
    [], [(2, [65001])], [(2, [65001, 65002])], [(2, [65002, 65001])], [(1, [65001, 65003])],
    [(2, [65001]), (1, [65002, 65003])], [(2, [65001]), (2, [])], [(2, []), (2, [65001])], [(1, [])],
    [(3, [65010]), (2, [65001])], [(4, [65010, 65011]), (2, [100])], [(2, [])], [(2, [100, 100, 100, 65002])],
    [(2, [4200000001])], [(1, [65002]), (2, [65003])], [(3, [65001])], [(2, [65003, 65002, 65001, 100])],
    [(2, [65001]), (4, [])], [(2, [150]), (2, [65001])],
    # members on / next to the bounds of the range patterns, first and last position
    [(2, [99])], [(2, [200])], [(2, [201])], [(2, [65000])], [(2, [4294967295])], [(2, [100, 200])], [(2, [200, 100])],
    [(2, [101, 199])], [(1, [99, 201])], [(2, []), (2, [200])], [(3, [100]), (2, [201])],
]


def gen_path(r):
    k = r.below(100)
    if k < 80:
        return r.pick(PATHS)
    if k < 86:
        return [(2, [r.pick(ASNS)] * r.pick([254, 255]))]
    if k < 90:
        return [(3, [65010] * r.pick([254, 255])), (2, [65001])]
    if k < 93:
        return [(2, [65001] * 255), (2, [65002] * r.pick([1, 120]))]
    n = 1 + r.below(4)
    return [(r.pick([1, 2, 2, 2, 3, 4]), [r.pick(ASNS + EDGE_ASNS) for _ in range(r.below(4))]) for _ in range(n)]


def attr(code, flags, payload, val=None):
    if val is not None:
        return "(a %d %d (v %d))" % (code, flags, val)
    if len(payload) > 255:
        flags |= 0x10
    return "(a %d %d %s)" % (code, flags, hexb(payload))


def n_members(r, small, edge):
    """list length: small most of the time, sometimes the sizes around the 255-octet payload boundary"""
    return r.pick(edge) if r.chance(1, 20) else r.below(small)


def gen_attrs(r):
    segs = gen_path(r)
    origin = attr(1, 64, None, r.pick([0, 1, 2]))
    path = attr(2, 64 | (0x10 if r.chance(1, 12) and all(a for _, a in segs) else 0), enc_path(segs))
    # ORIGIN / AS_PATH may be missing: the vector the API builds for a locally originated route
    k = r.below(28)
    head = [path] if k == 0 else [origin] if k in (1, 2) else [] if k == 3 else [origin, path]
    has_path = path in head
    items = []
    if r.chance(1, 2):
        items.append(attr(4, 128, None, r.pick([0, 5, 100, 4294967295, 4294967290, 1, 2147483647, 2147483648])))
    if r.chance(1, 2):
        items.append(attr(5, 64, None, r.pick([0, 100, 200, 1, 4294967295])))
    if r.chance(1, 2):
        cs = [r.pick(COMMS + list(WELL_KNOWN.values())) if r.chance(1, 3) else r.pick(COMMS) for _ in range(n_members(r, 4, [63, 64]))]
        items.append(attr(8, 192 | (0x20 if r.chance(1, 8) else 0), sum((be32(c) for c in cs), [])))
    if r.chance(1, 3):
        es = [r.pick(EXTS) for _ in range(n_members(r, 3, [31, 32]))]
        items.append("(a 16 %d x%s)" % (192 | (0x10 if len(es) > 31 else 0), "".join(es)))
    if r.chance(1, 3):
        ls = [r.pick(LARGES) for _ in range(n_members(r, 3, [21, 22]))]
        items.append(attr(32, 192, sum((be32(a) + be32(b) + be32(c) for a, b, c in ls), [])))
    if r.chance(1, 6):
        items.append("(a 6 64 x)")
    if r.chance(1, 8):
        items.append("(a 99 192 x0102)")
    if r.chance(1, 10):
        items.append(attr(9, 128, None, 16843009))
    # attribute order on the wire is free: shuffle the optional part
    tail = items
    for i in range(len(tail) - 1, 0, -1):
        j = r.below(i + 1)
        tail[i], tail[j] = tail[j], tail[i]
    if r.chance(1, 4):
        head.reverse()
    return head + tail, (segs if has_path else None)


def opt_addr(r, dom):
    return "none" if r.chance(1, 5) else "(some %s)" % r.pick(dom)


def gen_route(r):
    attrs, segs = gen_attrs(r)
    net, mask = r.pick(ROUTE_NETS)
    if r.chance(1, 6):
        src = "(src local)"
    else:
        ra = r.pick([65001, 65002])
        la = r.pick([65001, 65002])
        src = "(src (peer %d %d %s %s))" % (ra, la, r.pick(PROBE_PEERS), r.pick(NEXTHOPS))
    rp = r.pick(["none", "none", "nf", "invalid", "valid"])
    if rp == "valid" and not (segs and segs[-1][0] == 2 and segs[-1][1]):
        rp = "nf"
    if segs is None:
        rp = "none"         # a validation state is declared only for routes with an AS_PATH
    _TARGETS.append((net, mask))
    return "(route %s (net %s %d) (attrs %s) (nh %s) (onh %s) (confed %s) (laddr %s) (paddr %s) (rpki %s))" % (
        src, net, mask, " ".join(attrs), opt_addr(r, NEXTHOPS), opt_addr(r, NEXTHOPS), r.pick(["f", "f", "t"]),
        r.pick(NEXTHOPS), r.pick(PROBE_PEERS), rp)


# ---------------------------------------------------------------- defined sets
def gen_range(r, mask, width):
    """mask-length range of a prefix-set entry; half of them sit exactly on / next to the length t of a generated route"""
    k = r.below(16)
    fam = [m for a, m in _TARGETS if a.startswith("(6") == (width == 128)]
    t = r.pick(fam) if fam and r.chance(3, 4) else r.pick(V6_MASKS if width == 128 else V4_MASKS)
    if k == 0:
        return (mask, mask)
    if k == 1:
        return (mask, width)
    if k == 2:
        return (0, width)
    if k == 3:
        return r.pick([(24, 24), (16, 24), (25, 32), (8, 16)])
    if k == 4:
        return (r.pick([20, 30]), r.pick([10, 24]))   # possibly inverted / below own length
    if k == 5:
        return (t, t)
    if k == 6:
        return (t + 1, width)                          # the route is one short of the range
    if k == 7:
        return (0, max(t, 1) - 1)                      # the route is one past the range
    if k == 8:
        return (t, width)
    if k == 9:
        return (0, t)
    if k == 10:
        return (max(t, 1) - 1, t + 1)
    if k == 11:
        return r.pick([(0, 0), (width, width), (width + 1, 255), (0, 255), (255, 255), (1, 1), (width - 1, width), (width, width + 1)])
    if k == 12:
        return (min(mask, t), max(mask, t))
    return (mask, r.pick([mask, min(mask + 1, width), width]))


def gen_elem(r, kind):
    if kind == "prefix":
        rel = related_entries()
        if r.chance(1, 5):
            a, m, w = r.pick([e for e in SET_PREFIXES if e[1] == 0])       # the 0/0 entries live in their own slot
        else:
            a, m, w = r.pick(rel) if rel and r.chance(1, 2) else r.pick(SET_PREFIXES)
        lo, hi = gen_range(r, m, w)
        return "(p %s %d %d %d)" % (a, m, lo, hi)
    if kind == "neighbor":
        return "(n %s %d)" % r.pick(NEIGHBOR_NETS)
    if kind == "aspath":
        k = r.below(10)
        if k < 5:
            return "(%s %d)" % (r.pick(["inc", "left", "orig", "only"]), r.pick(ASNS + [150, 200, 0, 4294967295]))
        if k < 8:
            lo, hi = r.pick([(65001, 65002), (100, 200), (65002, 65001), (200, 100), (0, 4294967295), (100, 100), (200, 200), (101, 199),
                             (201, 4294967295), (0, 99), (4294967295, 4294967295), (0, 0), (65001, 65001)])
            return "(%s %d %d)" % (r.pick(["rinc", "rleft", "rorig", "ronly"]), lo, hi)
        return "(re %s)" % r.pick([".*", "^x$", "*bad", "[x"] if r.chance(1, 6) else [".*", "^x$"])
    if kind == "comm":
        if r.chance(1, 25):
            return r.pick(COMM_BAD_PATS)
        return r.pick(WK_PATS) if r.chance(1, 6) else r.pick(COMM_PATS)
    if kind == "ext":
        return r.pick(BAD_PATS) if r.chance(1, 25) else r.pick(EXT_PATS)
    return r.pick(BAD_PATS) if r.chance(1, 25) else r.pick(LARGE_PATS)


def gen_elems(r, kind, n=None):
    n = n if n is not None else r.pick([0, 1, 1, 2, 2, 3, 4])
    es = [gen_elem(r, kind) for _ in range(n)]
    if kind in ("prefix", "neighbor") and r.chance(1, 25):
        # a string that does not parse, somewhere in the list: the call must fail as a whole
        es.insert(r.below(len(es) + 1), "raw")
    return "(" + " ".join(es) + ")"


def set_name(r, kind, free=True):
    k = r.below(16)
    return SHARED if k < 3 else FREE[kind] if k == 3 and free else r.pick(SET_NAMES[kind])


# ---------------------------------------------------------------- statements
def gen_cond(r, kinds_bias=None):
    k = r.below(100)
    if k < 55:
        kind = r.pick(kinds_bias or KINDS)
        if kind in ("prefix", "neighbor"):
            o = r.pick(["any", "any", "invert", "invert", "all"] if r.chance(1, 4) else ["any", "any", "invert"])
        else:
            o = r.pick(["any", "all", "invert"])
        name = set_name(r, kind, free=False) if r.chance(15, 16) else "nosuch"
        return "(cset %s %s %s)" % (kind, name, o)
    if k < 60:
        return "(nexthop %s)" % " ".join(r.pick(NEXTHOPS) for _ in range(1 + r.below(2)))
    if k < 68:
        return "(aslen %s %d)" % (r.pick(["eq", "ge", "le"]), r.pick([0, 1, 2, 3, 4, 5, 253, 254, 255, 256, 257, 374, 375, 376]))
    if k < 73:
        return "(rpki %s)" % r.pick(["nf", "valid", "invalid"])
    if k < 77:
        return "(lpeq %d)" % r.pick([0, 100, 200, 300, 1, 4294967295, 99, 101])
    if k < 82:
        return "(medeq %d)" % r.pick([0, 5, 100, 15, 4294967295, 1, 2147483648, 4294967294, 6])
    if k < 86:
        return "(origin %d)" % r.pick([0, 1, 2, 3, 255])
    if k < 91:
        return "(rtype %s)" % r.pick(["internal", "external", "local"])
    if k < 96:
        return "(ccount %s %d)" % (r.pick(["eq", "ge", "le"]), r.pick([0, 1, 2, 3, 4, 63, 64, 65]))
    return "(afi %s)" % " ".join(r.pick(["(1 1)", "(2 1)", "(1 128)"]) for _ in range(1 + r.below(2)))


# MED `mod` deltas / `replace` values: 0, small, and every width boundary of the i64 -> u32 arithmetic
# (i32 and u32 limits and their neighbours, sums that land exactly on 0 / -1 / u32::MAX / u32::MAX + 1, i64 limits)
MED_EDGES = [2147483647, 2147483648, -2147483648, -2147483649, 9223372036854775807, -9223372036854775808, 4294967295, 4294967296]
MED_DELTAS = [0, 10, -10, 5, -5, 95, 1, -1, -100, -101, -6, -4294967295, 4294967300, 4294967294, 4294967290,
              4294967291, 4294967195, 4294967196, -4294967296, 2147483646, 9223372036854775800] + 2 * MED_EDGES


def gen_action(r, allow_nh=True):
    ks = ["comm", "lp", "med", "prep", "ext", "large", "origin"] + (["nh"] if allow_nh else [])
    k = r.pick(ks)
    if k == "nh":
        return "(nh %s)" % r.pick(["self", "peer", "unchanged", "(addr %s)" % r.pick(NEXTHOPS)])
    if k == "comm":
        return "(comm %s (%s))" % (r.pick(["add", "remove", "replace"]), " ".join(str(r.pick(COMMS)) for _ in range(n_members(r, 3, [60, 61, 63, 64]))))
    if k == "lp":
        return "(lp %d)" % r.pick([0, 100, 200, 300, 4294967295, 1])
    if k == "med":
        if r.chance(1, 3):
            return "(med replace %d)" % r.pick([0, -1, 5, 4294967295, 4294967296, 4294967294, -9223372036854775808, 9223372036854775807])
        return "(med mod %d)" % r.pick(MED_DELTAS)
    if k == "prep":
        return "(prep %d %d %s)" % (r.pick(ASNS), r.pick([0, 1, 1, 2, 3, 3, 10, 256, 300, 254, 255, 5]) if r.chance(7, 8) else 1, r.pick(["t", "f", "f"]))
    if k == "ext":
        return "(ext %s (%s))" % (r.pick(["add", "remove", "replace"]), " ".join("x" + r.pick(EXTS) for _ in range(n_members(r, 3, [31, 32]))))
    if k == "large":
        return "(large %s (%s))" % (r.pick(["add", "remove", "replace"]),
                                    " ".join("(%d %d %d)" % r.pick(LARGES) for _ in range(n_members(r, 3, [21, 22]))))
    return "(origin %d)" % (r.pick([0, 1, 2]) if r.chance(11, 12) else r.pick([3, 255]))


def gen_stmt_body(r, allow_nh=True, kinds_bias=None, nconds=None):
    nc = nconds if nconds is not None else r.pick([0, 1, 1, 1, 2, 2, 3])
    conds = [gen_cond(r, kinds_bias) for _ in range(nc)]
    acts = []
    seen = set()
    for _ in range(r.pick([0, 0, 1, 1, 2, 3])):
        a = gen_action(r, allow_nh)
        k = a.split(" ")[0]
        if k not in seen:
            seen.add(k)
            acts.append(a)
    disp = r.pick(["none", "accept", "reject", "reject", "pass", "none", "accept"])
    return "(%s) %s (%s)" % (" ".join(conds), disp, " ".join(acts))


# ---------------------------------------------------------------- pinned cases: one element, one condition, one probe on the boundary
def ext_text(h):
    """`ext_community_to_string` for the generated values (None: no text form)"""
    b = bytes.fromhex(h)
    t, st = b[0], b[1]
    two = lambda x: int.from_bytes(x, "big")
    pre = "rt" if st == 2 else "soo"
    if t == 0 and st in (2, 3):
        return "%s:%d:%d" % (pre, two(b[2:4]), two(b[4:8]))
    if t == 2 and st in (2, 3):
        return "%s:%d:%d" % (pre, two(b[2:6]), two(b[6:8]))
    if t == 1 and st in (2, 3):
        return "%s:%d.%d.%d.%d:%d" % (pre, b[2], b[3], b[4], b[5], two(b[6:8]))
    if t == 3 and st == 12:
        return "encap:%d" % two(b[6:8])
    if t == 0x40 and st == 4:
        import struct
        f = struct.unpack(">f", b[4:8])[0]
        return "lb:%d:%d" % (two(b[2:4]), int(f))
    if t == 0x43 and st == 0 and b[7] <= 2:
        return "validation:" + ["valid", "not-found", "invalid"][b[7]]
    return None


def pin_route(r, net, mask, attrs, peer=None):
    _TARGETS.append((net, mask))
    p = peer or r.pick(PROBE_PEERS)
    return "(route (src (peer 65001 65002 %s %s)) (net %s %d) (attrs %s) (nh (some %s)) (onh none) (confed f) (laddr %s) (paddr %s) (rpki none))" % (
        p, NEXTHOPS[0], net, mask, " ".join(attrs), NEXTHOPS[0], NEXTHOPS[1], p)


def gen_pin_case(r):
    """exactly one set member (or one plain condition) decides the statement, and the probe sits on / next to its boundary"""
    del _TARGETS[:]
    base = [attr(1, 64, None, 0)]
    path1 = attr(2, 64, enc_path([(2, [65001])]))
    kind = r.pick(["prefix", "prefix", "prefix", "aspath", "aspath", "neighbor", "comm", "ext", "ext", "large", "aslen", "ccount", "val"])
    cond = None
    if kind == "prefix":
        net, mask = r.pick(ROUTE_NETS)
        probe = pin_route(r, net, mask, base + [path1])
        w = 128 if net.startswith("(6") else 32
        rel = related_entries()
        a, m, _ = r.pick(rel)                                        # covers the probe's address; may be longer than the probe
        lo, hi = r.pick([(mask, mask), (mask + 1, w), (0, max(mask, 1) - 1), (mask, w), (0, mask), (0, w), (max(mask, 1) - 1, mask + 1)])
        elems = ["(p %s %d %d %d)" % (a, m, min(lo, 255), min(hi, 255))]
        if r.chance(1, 3):
            # a second, nested entry that says the opposite
            a2, m2, _ = r.pick(rel)
            if (a2, m2) != (a, m):
                elems.append("(p %s %d %d %d)" % ((a2, m2) + r.pick([(mask, mask), (mask + 1, min(w, 255)), (0, max(mask, 1) - 1)])))
    elif kind == "aspath":
        segs = r.pick([p for p in PATHS if any(a for _, a in p)])
        flat = [x for _, a in segs for x in a]
        probe = pin_route(r, *r.pick(ROUTE_NETS), base + [attr(2, 64, enc_path(segs))])
        form = r.pick(["inc", "left", "orig", "only"])
        subj = {"inc": r.pick(flat), "left": flat[0], "orig": flat[-1], "only": flat[0]}[form]
        if r.chance(1, 2):
            elems = ["(%s %d)" % (form, max(0, subj + r.pick([0, 0, 1, -1])))]
        else:
            lo, hi = r.pick([(subj, subj), (subj + 1, subj + 10), (max(subj, 10) - 10, max(subj, 1) - 1), (subj, subj + 5), (max(subj, 5) - 5, subj),
                             (subj + 1, max(subj, 1) - 1)])
            elems = ["(r%s %d %d)" % (form, min(lo, 4294967295), min(hi, 4294967295))]
    elif kind == "neighbor":
        na, nm = r.pick([x for x in NEIGHBOR_NETS if x[1] not in (0,)])
        v6, val = _num(na)
        size = 1 << ((128 if v6 else 32) - nm)
        top = (1 << (128 if v6 else 32)) - 1
        pv = r.pick([val, val + size - 1, min(val + size, top), max(val, 1) - 1])
        probe = pin_route(r, *r.pick(ROUTE_NETS), base + [path1], peer=(A6 if v6 else A4)(pv))
        elems = ["(n %s %d)" % (na, nm)]
    elif kind == "comm":
        c = r.pick(COMMS + list(WELL_KNOWN.values()))
        probe = pin_route(r, *r.pick(ROUTE_NETS), base + [path1, attr(8, 192, be32(c))])
        names = [n for n, v in WELL_KNOWN.items() if v == c]
        d = c + r.pick([0, 0, 1, -1])
        elems = [r.pick(names + [n.upper() for n in names]) if names and r.chance(1, 2) else r.pick([str(d), "%d:%d" % (d >> 16, d & 0xffff)])]
    elif kind == "ext":
        h = r.pick([e for e in EXTS if ext_text(e)])
        other = r.pick([e for e in EXTS if ext_text(e)])
        probe = pin_route(r, *r.pick(ROUTE_NETS), base + [path1, "(a 16 192 x%s)" % h])
        elems = ["^" + ext_text(r.pick([h, h, other])) + "$"]
    elif kind == "large":
        a, b, c = r.pick(LARGES)
        probe = pin_route(r, *r.pick(ROUTE_NETS), base + [path1, attr(32, 192, be32(a) + be32(b) + be32(c))])
        elems = ["^%d:%d:%d$" % (a, b, max(0, c + r.pick([0, 0, 1, -1])))]
    elif kind == "aslen":
        segs = gen_path(r)
        n = sum(1 if t == 1 else len(a) if t == 2 else 0 for t, a in segs)
        probe = pin_route(r, *r.pick(ROUTE_NETS), base + [attr(2, 64, enc_path(segs))])
        cond = "(aslen %s %d)" % (r.pick(["eq", "ge", "le"]), max(0, n + r.pick([0, 1, -1])))
    elif kind == "ccount":
        n = r.pick([0, 1, 2, 3, 63, 64])
        probe = pin_route(r, *r.pick(ROUTE_NETS), base + [path1] + ([attr(8, 192, sum((be32(COMMS[i % len(COMMS)]) for i in range(n)), []))] if n else []))
        cond = "(ccount %s %d)" % (r.pick(["eq", "ge", "le"]), max(0, n + r.pick([0, 1, -1])))
    else:
        code, name, flags = r.pick([(5, "lpeq", 64), (4, "medeq", 128)])
        v = r.pick([0, 1, 100, 4294967295])
        present = r.chance(3, 4)
        probe = pin_route(r, *r.pick(ROUTE_NETS), base + [path1] + ([attr(code, flags, None, v)] if present else []))
        cond = "(%s %d)" % (name, min(4294967295, max(0, v + r.pick([0, 0, 1, -1]))) if present else r.pick([0, 1]))
    ops = []
    if cond is None:
        name = SET_NAMES[kind][0]
        ops.append("(set-add %s %s (%s))" % (kind, name, " ".join(elems)))
        cond = "(cset %s %s %s)" % (kind, name, r.pick(["any", "invert", "all"] if kind not in ("prefix", "neighbor") or r.chance(1, 4) else ["any", "invert"]))
    disp = r.pick(["accept", "reject"])
    ops += ["(stmt-add s1 (%s) %s ())" % (cond, disp), "(pol-add p1 (s1))",
            "(asg-add %s ga %s (p1))" % (r.pick(["imp", "exp"]), "reject" if disp == "accept" else "accept")]
    return "(case (probes %s %s) (ops %s))" % (probe, gen_route(r), " ".join(ops))


# ---------------------------------------------------------------- case flavours
def setup_ops(r, focus=None):
    ops = []
    kinds = KINDS if focus is None else focus
    for kind in KINDS:
        for name in SET_NAMES[kind] + [SHARED]:
            if kind in kinds or r.chance(1, 2):
                ops.append("(set-add %s %s %s)" % (kind, name, gen_elems(r, kind, n=1 + r.below(4))))
    ns = 2 + r.below(3)
    for i in range(ns):
        ops.append("(stmt-add %s %s)" % (STMT_NAMES[i], gen_stmt_body(r, allow_nh=(i >= 2), kinds_bias=focus)))
    # p1: statements without nexthop action (usable for import), p2: any
    ops.append("(pol-add p1 (%s))" % " ".join(r.pick(STMT_NAMES[:2]) for _ in range(1 + r.below(2))))
    ops.append("(pol-add p2 (%s))" % " ".join(r.pick(STMT_NAMES[:ns]) for _ in range(1 + r.below(3))))
    if r.chance(1, 2):
        ops.append("(pol-add p3 (%s))" % " ".join(r.pick(STMT_NAMES[:ns]) for _ in range(r.below(3))))
    ops.append("(asg-add exp ga %s (%s))" % (r.pick(["accept", "reject", "pass"]), " ".join(r.pick([["p2"], ["p1", "p2"], ["p2", "p1"], ["p1"]]))))
    ops.append("(asg-add imp gi %s (%s))" % (r.pick(["accept", "reject"]), r.pick(["p1", "p1", "p1 p2", "p2"])))
    return ops


_CSET = None


def guard_ops(r, ops):
    """every way to take a referenced object away or to change it under its users: the set a statement of the case
    refers to (delete, delete elements, replace, merge into), that statement, the policy that lists it"""
    import re
    global _CSET
    _CSET = _CSET or re.compile(r"\(cset (\w+) (\S+) \w+\)")
    refs = [(m.group(1), m.group(2), o.split(" ")[1]) for o in ops if o.startswith("(stmt-add ") for m in _CSET.finditer(o)]
    refs = [x for x in refs if x[1] != "nosuch"]
    if not refs:
        return []
    kind, name, stmt = r.pick(refs)
    out = ["(set-del %s %s t ())" % (kind, name), "(set-del %s %s f %s)" % (kind, name, gen_elems(r, kind, n=1)),
           "(set-replace %s %s %s)" % (kind, name, gen_elems(r, kind, n=2)), "(set-add %s %s %s)" % (kind, name, gen_elems(r, kind, n=1)),
           "(stmt-del %s t () none ())" % stmt, "(stmt-del %s f () accept ())" % stmt,
           "(stmt-add %s %s)" % (stmt, gen_stmt_body(r, nconds=1)),
           "(pol-del %s t t ())" % r.pick(["p1", "p2"]), "(pol-add %s (%s))" % (r.pick(["p1", "p2"]), stmt)]
    for i in range(len(out) - 1, 0, -1):
        j = r.below(i + 1)
        out[i], out[j] = out[j], out[i]
    return out[:3 + r.below(len(out) - 2)]


def churn_op(r):
    k = r.below(100)
    kind = r.pick(KINDS)
    sname = set_name(r, kind)
    stmts, pols = STMT_NAMES + [SHARED], POL_NAMES + [SHARED]
    if k < 12:
        return "(set-add %s %s %s)" % (kind, sname, gen_elems(r, kind))
    if k < 24:
        return "(set-replace %s %s %s)" % (kind, sname, gen_elems(r, kind))
    if k < 38:
        return "(set-del %s %s %s %s)" % (kind, sname, r.pick(["t", "f", "f"]), gen_elems(r, kind))
    if k < 50:
        return "(stmt-add %s %s)" % (r.pick(stmts), gen_stmt_body(r, nconds=r.pick([0, 1, 1, 2])))
    if k < 62:
        body = gen_stmt_body(r, nconds=r.pick([0, 0, 1]))
        return "(stmt-del %s %s %s)" % (r.pick(stmts), r.pick(["t", "f", "f"]), body)
    if k < 72:
        return "(pol-add %s (%s))" % (r.pick(pols), " ".join(r.pick(stmts + ["nosuch"]) for _ in range(r.below(3))))
    if k < 84:
        return "(pol-del %s %s %s (%s))" % (r.pick(pols), r.pick(["t", "f"]), r.pick(["t", "f"]),
                                            " ".join(r.pick(stmts) for _ in range(r.below(3))))
    if k < 90:
        return "(asg-add %s g2 %s (%s))" % (r.pick(["imp", "exp"]), r.pick(["accept", "reject", "pass"]),
                                            " ".join(r.pick(pols + ["nosuch"]) for _ in range(r.pick([0, 1, 1, 1, 2, 2]))))
    if k < 95:
        return "(asg-set %s g3 %s (%s))" % (r.pick(["imp", "exp"]), r.pick(["accept", "reject"]),
                                            " ".join(r.pick(pols) for _ in range(r.below(3))))
    return "(asg-del %s %s (%s))" % (r.pick(["imp", "exp"]), r.pick(["t", "f", "f"]), " ".join(r.pick(pols) for _ in range(r.below(2))))


def free_set_ops(r):
    """life cycle of a set nothing refers to: create, merge, delete single elements (present, absent, the 0/0 entries,
    IPv6 entries, the last one), delete the rest, delete again"""
    kind = r.pick(KINDS + ["prefix", "prefix"])
    name = FREE[kind]
    if kind == "prefix":
        base = ["(p (4 0) 0 %d %d)" % r.pick([(0, 32), (8, 24), (0, 0)]), "(p (6 0) 0 %d %d)" % r.pick([(0, 128), (32, 64)]),
                "(p %s 48 48 64)" % A6(V6B)]
        keys = {"(4 0) 0", "(6 0) 0", A6(V6B) + " 48"}
        while len(base) < 5:
            e = gen_elem(r, kind)
            key = " ".join(e.split(" ")[1:4])
            if key not in keys:             # one range per prefix, else the whole call is refused
                keys.add(key)
                base.append(e)
    else:
        base = []
        while len(base) < 4:
            e = gen_elem(r, kind)
            if e not in base and e not in BAD_PATS + COMM_BAD_PATS and "bad" not in e and "[" not in e:
                base.append(e)
    n1 = 1 + r.below(len(base) - 1)
    first, second = base[:n1], base[n1:]
    ops = ["(set-add %s %s (%s))" % (kind, name, " ".join(first)), "(set-add %s %s (%s))" % (kind, name, " ".join(second))]
    if r.chance(1, 3):
        # a merge that fails half way through its element list must leave the set as it was
        bad = "raw" if kind in ("prefix", "neighbor") else "(re *bad)" if kind == "aspath" else r.pick(COMM_BAD_PATS if kind == "comm" else ["*bad", "rt:[", "[x"])
        ops.insert(1, "(set-add %s %s (%s %s))" % (kind, name, second[0], bad))
    order = list(base)
    for i in range(len(order) - 1, 0, -1):
        j = r.below(i + 1)
        order[i], order[j] = order[j], order[i]
    k = 1 + r.below(2)
    ops.append("(set-del %s %s f (%s))" % (kind, name, " ".join(order[:k])))
    ops.append("(set-del %s %s f (%s))" % (kind, name, " ".join([order[0], gen_elem(r, kind)])))     # gone already / never there
    if r.chance(1, 2):
        # an element list that turns out invalid after its first member was looked at
        bad = "raw" if kind in ("prefix", "neighbor") else "(re *bad)" if kind == "aspath" else r.pick(COMM_BAD_PATS if kind == "comm" else ["*bad", "rt:[", "[x"])
        ops.append("(set-del %s %s f (%s %s))" % (kind, name, order[-1], bad))
    if r.chance(1, 2):
        ops.append("(set-del %s %s f (%s))" % (kind, name, " ".join(order[k:])))                          # down to nothing
    if r.chance(1, 3):
        ops.append("(set-replace %s %s %s)" % (kind, name, gen_elems(r, kind, n=2)))
    ops.append("(set-del %s %s t ())" % (kind, name))
    ops.append("(set-del %s %s %s ())" % (kind, name, r.pick(["t", "f"])))
    return ops


def gen_case(r, tier):
    if r.chance(1, 4):
        return gen_pin_case(r)
    fl = r.below(100)
    nprobe = r.pick([2, 3, 3, 4])
    del _TARGETS[:]
    probes = [gen_route(r) for _ in range(nprobe)]
    if fl < 45:
        focus = r.pick([None, ["prefix"], ["aspath"], ["comm", "ext", "large"], ["neighbor", "prefix"], ["aspath", "comm"]])
        ops = setup_ops(r, focus)
    elif fl < 85:
        ops = setup_ops(r, r.pick([None, ["prefix", "aspath"]]))
        if r.chance(1, 3):
            ops += guard_ops(r, ops)
        ops += [churn_op(r) for _ in range(2 + r.below(7))]
    else:
        ops = [churn_op(r) for _ in range(3 + r.below(10))]
    if r.chance(1, 5):
        at = r.below(len(ops) + 1)
        ops = ops[:at] + free_set_ops(r) + ops[at:]
    if r.chance(1, 8):
        # unassign, rebuild the objects under the same names, assign again: nothing stale may survive
        sn = r.pick(STMT_NAMES[:2])
        kind = r.pick(KINDS)
        ops += ["(asg-del exp t ())", "(asg-del imp t ())", "(pol-del p1 %s t ())" % r.pick(["t", "f"]), "(pol-del p2 t t ())",
                "(stmt-del %s t () none ())" % sn, "(set-replace %s %s %s)" % (kind, r.pick(SET_NAMES[kind]), gen_elems(r, kind, n=2)),
                "(stmt-add %s %s)" % (sn, gen_stmt_body(r, allow_nh=False)), "(pol-add p1 (%s))" % sn,
                "(asg-add exp ga accept (p1))", "(asg-add imp gi accept (p1))"]
    return "(case (probes %s) (ops %s))" % (" ".join(probes), " ".join(ops))


# ---------------------------------------------------------------- daemon-level cases (holders outside PolicyTable)
API_COND_ORDER = ["prefix", "neighbor", "aspath", "comm", "ext", "large"]


def gen_api_stmt_body(r, allow_nh=True):
    """statement expressible in an api::Statement as the harness builds it (conditions once per kind, message order)"""
    conds = []

    def cset(kind):
        o = r.pick(["any", "invert"]) if kind in ("prefix", "neighbor") else r.pick(["any", "all", "invert"])
        if kind in ("prefix", "neighbor") and r.chance(1, 12):
            o = "all"
        conds.append("(cset %s %s %s)" % (kind, set_name(r, kind, free=False) if r.chance(11, 12) else "nosuch", o))
    for kind in ["prefix", "neighbor", "aspath"]:
        if r.chance(1, 4):
            cset(kind)
    if r.chance(1, 6):
        conds.append("(aslen %s %d)" % (r.pick(["eq", "ge", "le"]), r.pick([0, 1, 2, 3, 254, 255, 256])))
    for kind in ["comm", "ext", "large"]:
        if r.chance(1, 5):
            cset(kind)
    if r.chance(1, 8):
        conds.append("(nexthop %s)" % " ".join(r.pick(NEXTHOPS) for _ in range(1 + r.below(2))))
    if r.chance(1, 6):
        conds.append("(rpki %s)" % r.pick(["nf", "valid", "invalid"]))
    if r.chance(1, 6):
        conds.append("(lpeq %d)" % r.pick([0, 100, 200, 1, 4294967295]))
    if r.chance(1, 6):
        conds.append("(medeq %d)" % r.pick([0, 5, 100, 1, 4294967295]))
    if r.chance(1, 8):
        conds.append("(origin %d)" % r.pick([0, 1, 2]))
    if r.chance(1, 8):
        conds.append("(rtype %s)" % r.pick(["internal", "external", "local"]))
    if r.chance(1, 8):
        conds.append("(ccount %s %d)" % (r.pick(["eq", "ge", "le"]), r.pick([0, 1, 2, 3, 64])))
    if r.chance(1, 10):
        conds.append("(afi %s)" % " ".join(r.pick(["(1 1)", "(2 1)", "(1 128)"]) for _ in range(1 + r.below(2))))
    acts = []
    seen = set()
    for _ in range(r.pick([0, 1, 1, 2, 3])):
        a = gen_action(r, allow_nh)
        k = a.split(" ")[0]
        if k not in seen and k != "(ext":
            seen.add(k)
            acts.append(a)
    return "(%s) %s (%s)" % (" ".join(conds), r.pick(["none", "accept", "reject", "reject"]), " ".join(acts))


def gen_set_policies(r):
    ops = []
    for kind in KINDS:
        for name in SET_NAMES[kind]:
            if r.chance(2, 3):
                ops.append("(set-add %s %s %s)" % (kind, name, gen_elems(r, kind, n=r.pick([1, 1, 2, 3, 0] if r.chance(1, 6) else [1, 2, 3]))))
    ns = 1 + r.below(3)
    names = STMT_NAMES[:ns]
    for n in names:
        ops.append("(stmt-add %s %s)" % (n, gen_api_stmt_body(r)))
    used = set()
    pols = []
    for pn in POL_NAMES[:1 + r.below(2)]:
        ss = [r.pick(names) for _ in range(1 + r.below(2))]
        used.update(ss)
        pols.append("(pol-add %s (%s))" % (pn, " ".join(ss)))
    rest = [n for n in names if n not in used]
    if rest:
        pols.append("(pol-add p3 (%s))" % " ".join(rest))
    ops += pols
    if r.chance(3, 4):
        ops.append("(asg-add exp global %s (%s))" % (r.pick(["accept", "reject", "pass"]), r.pick(["p1", "p1 p2", "p2", "nosuch"]) if r.chance(9, 10) else "nosuch"))
    if r.chance(1, 2):
        ops.append("(asg-add imp global %s (p1))" % r.pick(["accept", "reject"]))
    return "(set-policies (%s))" % " ".join(ops)


def holder(r, peers):
    return "global" if r.chance(1, 2) else r.pick(peers + PEERS[:3])


def dchurn_op(r, peers):
    k = r.below(100)
    if k < 30:
        op = churn_op(r)
        while op.startswith("(pol-") or op.startswith("(asg-"):
            op = churn_op(r)
        return "(tbl %s)" % op
    if k < 40:
        return "(pol-add %s (%s))" % (r.pick(POL_NAMES), " ".join(r.pick(STMT_NAMES + ["nosuch"]) for _ in range(r.below(3))))
    if k < 54:
        return "(pol-del %s %s %s (%s))" % (r.pick(POL_NAMES), r.pick(["t", "f"]), r.pick(["t", "f"]),
                                            " ".join(r.pick(STMT_NAMES) for _ in range(r.below(3))))
    if k < 66:
        return "(asg-add %s %s %s (%s))" % (holder(r, peers), r.pick(["exp", "exp", "imp"]), r.pick(["accept", "reject", "pass"]),
                                            " ".join(r.pick(POL_NAMES + ["nosuch"]) for _ in range(1 + r.below(2))))
    if k < 76:
        return "(asg-del %s %s %s (%s))" % (holder(r, peers), r.pick(["exp", "exp", "imp"]), r.pick(["t", "f", "f"]),
                                            " ".join(r.pick(POL_NAMES) for _ in range(r.below(2))))
    if k < 84:
        return "(asg-set %s %s %s (%s))" % (holder(r, peers), r.pick(["exp", "exp", "imp"]), r.pick(["accept", "reject"]),
                                            " ".join(r.pick(POL_NAMES) for _ in range(r.below(3))))
    if k < 89:
        ex = "none" if r.chance(1, 2) else "(some %s (%s))" % (r.pick(["accept", "reject", "pass"]), " ".join(r.pick(POL_NAMES) for _ in range(1 + r.below(2))))
        return "(peer-add %s %s)" % (r.pick(PEERS), ex)
    if k < 93:
        return "(peer-del %s)" % r.pick(PEERS)
    return gen_set_policies(r)


def gen_dcase(r, tier):
    del _TARGETS[:]
    probes = [gen_route(r) for _ in range(r.pick([2, 2, 3]))]
    npeer = r.pick([1, 2, 2, 3])
    peers = PEERS[:npeer]
    ops = []
    focus = r.pick([None, ["prefix"], ["prefix", "aspath"], ["comm", "neighbor"]])
    for o in setup_ops(r, focus):
        if o.startswith("(pol-add"):
            ops.append(o)
        elif o.startswith("(asg-add exp"):
            ops.append("(asg-add global exp %s" % o.split(" ", 3)[3])
        elif o.startswith("(asg-add imp"):
            ops.append("(asg-add global imp %s" % o.split(" ", 3)[3])
        elif o.startswith("(stmt-add") and r.chance(2, 3):
            nm = o.split(" ")[1]
            body = gen_api_stmt_body(r, allow_nh=(nm not in STMT_NAMES[:2]))
            ops.append("(tbl (stmt-add %s %s))" % (nm, body))
        else:
            ops.append("(tbl %s)" % o)
    for p in peers:
        if r.chance(2, 3):
            first = r.pick(["p1", "p2", "p2 p1", "p3"])
            ops.append("(asg-add %s exp %s (%s))" % (p, r.pick(["accept", "reject"]), first))
            if r.chance(1, 3):
                # AddPolicyAssignment accumulates: a second call for the same peer
                ops.append("(asg-add %s exp %s (%s))" % (p, r.pick(["accept", "reject"]), r.pick([q for q in ["p1", "p2", "p3"] if q not in first] + ["p1"])))
    ops += [dchurn_op(r, peers) for _ in range(3 + r.below(8))]
    if r.chance(1, 6):
        at = r.below(len(ops) + 1)
        ops = ops[:at] + ["(tbl %s)" % o for o in free_set_ops(r)] + ops[at:]
    return "(dcase (probes %s) (peers %s) (dops %s))" % (" ".join(probes), " ".join(peers), " ".join(ops))


# ---------------------------------------------------------------- malformed / adversarial stream
def _parse(s):
    stack, cur = [], []
    tok = ""
    for ch in s:
        if ch in "() ":
            if tok:
                cur.append(tok); tok = ""
            if ch == "(":
                stack.append(cur); cur = []
            elif ch == ")":
                done = cur; cur = stack.pop(); cur.append(done)
        else:
            tok += ch
    return cur[0]


def _show(t):
    return t if isinstance(t, str) else "(" + " ".join(_show(x) for x in t) + ")"


def _paths(t, pre=()):
    """all positions (as index tuples) of sub-terms"""
    out = [pre]
    if not isinstance(t, str):
        for i, x in enumerate(t):
            out += _paths(x, pre + (i,))
    return out


def _get(t, path):
    for i in path:
        t = t[i]
    return t


def _set(t, path, v):
    if not path:
        return v
    return t[:path[0]] + [_set(t[path[0]], path[1:], v)] + t[path[0] + 1:]


def _del(t, path):
    if len(path) == 1:
        return t[:path[0]] + t[path[0] + 1:]
    return t[:path[0]] + [_del(t[path[0]], path[1:])] + t[path[0] + 1:]


NUM_SUBST = ["0", "1", "2", "3", "4", "5", "24", "32", "33", "128", "129", "255", "256", "65535", "4294967295", "4294967296"]
ATOM_SUBST = ["prefix", "neighbor", "aspath", "comm", "ext", "large", "any", "all", "invert", "t", "f", "none", "accept",
              "reject", "pass", "imp", "exp", "ps1", "as1", "cs1", "s1", "p1", "nosuch", ".*", "*bad", "(", "x", "x0", "x00"]


CLASSES = [["any", "all", "invert"], ["accept", "reject", "pass"], ["t", "f"], ["imp", "exp"], ["eq", "ge", "le"],
           ["add", "remove", "replace"], ["ps1", "ps2"], ["ns1", "ns2"], ["as1", "as2"], ["cs1", "cs2"],
           ["s1", "s2", "s3", "s4"], ["p1", "p2", "p3"], ["nf", "valid", "invalid", "none"], ["self", "peer", "unchanged"],
           ["inc", "left", "orig", "only"], ["rinc", "rleft", "rorig", "ronly"], ["internal", "external", "local"],
           ["set-add", "set-replace"], ["asg-add", "asg-set"], ["mod", "replace"]]
LIST_HEADS = ("ops", "probes", "attrs")


def mutate(r, case):
    t = _parse(case)
    mild = r.chance(3, 4)
    for _ in range(1 if mild else 1 + r.below(3)):
        ps = [p for p in _paths(t) if p]
        p = r.pick(ps)
        sub = _get(t, p)
        if mild:
            # class-preserving change of one atom, or removal / duplication of one list element
            if isinstance(sub, str):
                if sub.isdigit():
                    t = _set(t, p, r.pick(NUM_SUBST))
                else:
                    cl = [c for c in CLASSES if sub in c]
                    if cl:
                        t = _set(t, p, r.pick(cl[0]))
            else:
                par = _get(t, p[:-1])
                if isinstance(par, list) and par and (par[0] in LIST_HEADS or not isinstance(par[0], str)):
                    t = _del(t, p) if r.chance(1, 2) else _set(t, p[:-1], par + [sub])
            continue
        k = r.below(6)
        if k == 0:
            t = _del(t, p)
        elif k == 1 and isinstance(sub, str) and sub.isdigit():
            t = _set(t, p, r.pick(NUM_SUBST))
        elif k == 2 and isinstance(sub, str):
            a = r.pick(ATOM_SUBST)
            if a == "(":
                a = "nosuch"
            t = _set(t, p, a)
        elif k == 3 and isinstance(sub, str) and sub.startswith("x") and len(sub) > 1:
            t = _set(t, p, r.pick([sub[:-1], sub[:-2], sub + "00", sub[:3] + "ff" + sub[5:], "x" + "05" + sub[3:]]))
        elif k == 4 and not isinstance(sub, str):
            t = _set(t, p, sub + sub[-1:])      # duplicate the last element
        else:
            q = r.pick(ps)
            t = _set(t, p, _get(t, q))          # graft another sub-term
    return _show(t)


def gen(seed, n, tier):
    r = Rng(seed * 1000003 + 14)
    out = []
    for i in range(n):
        c = gen_dcase(r, tier) if i % 3 == 2 else gen_case(r, tier)
        if r.chance(1, 8):
            try:
                c = mutate(r, c)
            except Exception:
                pass
        out.append(c)
    return out
