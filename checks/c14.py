from common import Rng

CONFIG = dict(
    level_text="(filled in below)",
    level_note="",
    lean_modules=["Rbgp.Policy.Props"],
    theorems=[],
    harness=dict(kind="pt", bin="c14"),
    profiles=["debug"],
    n_quick=1500, n_thorough=60000, shards=12,
    nontrivial_re=r"\(r (accept|reject|pass) \(|inuse|\(r reject|panic",
    rule="",
    expect_tokens=[],
    trusted_base=[],
    modelled_not_verified=[],
    assumptions=[],
    claimed=False,
    na_reason="in progress",
)

# ---------------------------------------------------------------- small colliding domains
ASNS = [65001, 65002, 65003, 100, 4200000001]


def v4(a, b, c, d):
    return (a << 24) | (b << 16) | (c << 8) | d


def A4(n):
    return "(4 %d)" % n


def A6(n):
    return "(6 %d)" % n


V6A = 0x20010db8 << 96
V6B = (0x20010db8 << 96) | (1 << 80)

# (addr term, mask, family width)
SET_PREFIXES = [
    (A4(v4(10, 0, 0, 0)), 8, 32), (A4(v4(10, 1, 0, 0)), 16, 32), (A4(v4(10, 1, 1, 0)), 24, 32),
    (A4(v4(10, 1, 1, 128)), 25, 32), (A4(v4(192, 168, 0, 0)), 16, 32), (A4(0), 0, 32),
    (A4(v4(10, 0, 0, 0)), 7, 32), (A4(v4(10, 1, 1, 1)), 32, 32), (A4(v4(10, 1, 0, 0)), 20, 32),
    (A6(V6A), 32, 128), (A6(V6B), 48, 128), (A6(0), 0, 128),
]
ROUTE_NETS = [
    (A4(v4(10, 1, 1, 0)), 24), (A4(v4(10, 1, 0, 0)), 16), (A4(v4(10, 0, 0, 0)), 8), (A4(v4(10, 1, 1, 128)), 25),
    (A4(v4(10, 1, 1, 1)), 32), (A4(v4(192, 168, 1, 0)), 24), (A4(v4(172, 16, 0, 0)), 12), (A4(0), 0),
    (A4(v4(10, 1, 1, 0)), 28), (A4(v4(10, 1, 17, 0)), 20), (A4(v4(11, 0, 0, 0)), 8),
    (A6(V6B), 48), (A6(V6A), 32), (A6(V6B | (1 << 64)), 64), (A6(0), 0),
]
PEERS = [A4(v4(192, 0, 2, 1)), A4(v4(192, 0, 2, 2)), A4(v4(198, 51, 100, 7)), A6(V6A | 1)]
NEIGHBOR_NETS = [(A4(v4(192, 0, 2, 0)), 24), (A4(v4(192, 0, 2, 1)), 32), (A4(v4(198, 51, 100, 0)), 24),
                 (A4(v4(192, 0, 2, 0)), 31), (A6(V6A), 32), (A4(0), 0)]
NEXTHOPS = [A4(v4(192, 0, 2, 1)), A4(v4(192, 0, 2, 2)), A4(v4(10, 9, 9, 9)), A6(V6A | 1), A6(V6A | 2)]


def comm(hi, lo):
    return (hi << 16) | lo


COMMS = [comm(65001, 100), comm(65001, 200), comm(65002, 100), comm(0, 5), 0xffffff01, 0xffff029a, comm(65001, 150)]
COMM_PATS = ["65001:100", str(comm(65001, 200)), "^65001:.*$", "65001:.*", ".*", "no-export", "NO-EXPORT", "blackhole",
             "^6500.:100$", "6500\\d:100", "65001:1\\d\\d", "65002:100", "0:5", "^x$", "65001:1.0", "\\d+:200"]
BAD_PATS = ["*bad", "+1"]
EXTS = ["0002fde900000064", "0002fde9000000c8", "0003fde900000064", "0202fde9000a0064", "0102c00002010064",
        "030c000000000008", "4300000000000000", "4300000000000001", "4300000000000002", "4300000000000003",
        "9900000000000001", "0002fdea00000064"]
EXT_PATS = ["^rt:65001:100$", "rt:.*", "^soo:", "validation:valid", "validation:", "encap:\\d+", ".*", "rt:192.0.2.1:100",
            "^rt:6500.:100$", "^x$", "rt:65001:\\d+$"]
LARGES = [(65001, 1, 2), (65001, 1, 3), (65002, 0, 0), (4200000001, 4294967295, 0)]
LARGE_PATS = ["^65001:1:2$", "^65001:.*$", "65002:0:0", ".*", "^x$", "^\\d+:1:\\d$", "4200000001:"]

SET_NAMES = dict(prefix=["ps1", "ps2"], neighbor=["ns1", "ns2"], aspath=["as1", "as2"], comm=["cs1", "cs2"],
                 ext=["es1"], large=["ls1"])
STMT_NAMES = ["s1", "s2", "s3", "s4"]
POL_NAMES = ["p1", "p2", "p3"]
KINDS = ["prefix", "neighbor", "aspath", "comm", "ext", "large"]


# ---------------------------------------------------------------- routes
def hexb(bs):
    return "x" + "".join("%02x" % b for b in bs)


def be32(n):
    return [(n >> 24) & 255, (n >> 16) & 255, (n >> 8) & 255, n & 255]


def enc_path(segs):
    out = []
    for ty, asns in segs:
        out += [ty, len(asns)]
        for a in asns:
            out += be32(a)
    return out


PATHS = [
    [], [(2, [65001])], [(2, [65001, 65002])], [(2, [65002, 65001])], [(1, [65001, 65003])],
    [(2, [65001]), (1, [65002, 65003])], [(2, [65001]), (2, [])], [(2, []), (2, [65001])], [(1, [])],
    [(3, [65010]), (2, [65001])], [(4, [65010, 65011]), (2, [100])], [(2, [])], [(2, [100, 100, 100, 65002])],
    [(2, [4200000001])], [(1, [65002]), (2, [65003])], [(3, [65001])], [(2, [65003, 65002, 65001, 100])],
    [(2, [65001]), (4, [])], [(2, [150]), (2, [65001])],
]


def gen_path(r):
    k = r.below(100)
    if k < 80:
        return r.pick(PATHS)
    if k < 86:
        return [(2, [r.pick(ASNS)] * r.pick([254, 255]))]
    if k < 90:
        return [(3, [65010] * r.pick([254, 255])), (2, [65001])]
    if k < 93:
        return [(2, [65001] * 255), (2, [65002] * r.pick([1, 120]))]
    n = 1 + r.below(4)
    return [(r.pick([1, 2, 2, 2, 3, 4]), [r.pick(ASNS) for _ in range(r.below(4))]) for _ in range(n)]


def attr(code, flags, payload, val=None):
    if val is not None:
        return "(a %d %d (v %d))" % (code, flags, val)
    if len(payload) > 255:
        flags |= 0x10
    return "(a %d %d %s)" % (code, flags, hexb(payload))


def gen_attrs(r):
    segs = gen_path(r)
    items = [attr(1, 64, None, r.pick([0, 1, 2])), attr(2, 64 | (0x10 if r.chance(1, 12) else 0), enc_path(segs))]
    if r.chance(1, 2):
        items.append(attr(4, 128, None, r.pick([0, 5, 100, 4294967295, 4294967290])))
    if r.chance(1, 2):
        items.append(attr(5, 64, None, r.pick([0, 100, 200])))
    if r.chance(1, 2):
        cs = [r.pick(COMMS) for _ in range(r.below(4))]
        items.append(attr(8, 192 | (0x20 if r.chance(1, 8) else 0), sum((be32(c) for c in cs), [])))
    if r.chance(1, 3):
        es = [r.pick(EXTS) for _ in range(r.below(3))]
        items.append("(a 16 192 x%s)" % "".join(es))
    if r.chance(1, 3):
        ls = [r.pick(LARGES) for _ in range(r.below(3))]
        items.append(attr(32, 192, sum((be32(a) + be32(b) + be32(c) for a, b, c in ls), [])))
    if r.chance(1, 6):
        items.append("(a 6 64 x)")
    if r.chance(1, 8):
        items.append("(a 99 192 x0102)")
    if r.chance(1, 10):
        items.append(attr(9, 128, None, 16843009))
    # attribute order on the wire is free: shuffle the optional part
    head, tail = items[:2], items[2:]
    for i in range(len(tail) - 1, 0, -1):
        j = r.below(i + 1)
        tail[i], tail[j] = tail[j], tail[i]
    if r.chance(1, 4):
        head.reverse()
    return head + tail, segs


def opt_addr(r, dom):
    return "none" if r.chance(1, 5) else "(some %s)" % r.pick(dom)


def gen_route(r):
    attrs, segs = gen_attrs(r)
    net, mask = r.pick(ROUTE_NETS)
    if r.chance(1, 6):
        src = "(src local)"
    else:
        ra = r.pick([65001, 65002])
        la = r.pick([65001, 65002])
        src = "(src (peer %d %d %s %s))" % (ra, la, r.pick(PEERS), r.pick(NEXTHOPS))
    rp = r.pick(["none", "none", "nf", "invalid", "valid"])
    if rp == "valid" and not (segs and segs[-1][0] == 2 and segs[-1][1]):
        rp = "nf"
    return "(route %s (net %s %d) (attrs %s) (nh %s) (onh %s) (confed %s) (laddr %s) (paddr %s) (rpki %s))" % (
        src, net, mask, " ".join(attrs), opt_addr(r, NEXTHOPS), opt_addr(r, NEXTHOPS), r.pick(["f", "f", "t"]),
        r.pick(NEXTHOPS), r.pick(PEERS), rp)


# ---------------------------------------------------------------- defined sets
def gen_range(r, mask, width):
    k = r.below(8)
    if k == 0:
        return (mask, mask)
    if k == 1:
        return (mask, width)
    if k == 2:
        return (0, width)
    if k == 3:
        return (24, 24)
    if k == 4:
        return (16, 24)
    if k == 5:
        return (25, 32)
    if k == 6:
        return (8, 16)
    return (r.pick([20, 30]), r.pick([10, 24]))   # possibly inverted / below own length


def gen_elems(r, kind, n=None):
    n = n if n is not None else r.pick([0, 1, 1, 2, 2, 3, 4])
    out = []
    for _ in range(n):
        if kind == "prefix":
            a, m, w = r.pick(SET_PREFIXES)
            lo, hi = gen_range(r, m, w)
            out.append("(p %s %d %d %d)" % (a, m, lo, hi))
        elif kind == "neighbor":
            a, m = r.pick(NEIGHBOR_NETS)
            out.append("(n %s %d)" % (a, m))
        elif kind == "aspath":
            k = r.below(10)
            if k < 5:
                out.append("(%s %d)" % (r.pick(["inc", "left", "orig", "only"]), r.pick(ASNS + [150])))
            elif k < 8:
                lo, hi = r.pick([(65001, 65002), (100, 200), (65002, 65001), (0, 4294967295)])
                out.append("(%s %d %d)" % (r.pick(["rinc", "rleft", "rorig", "ronly"]), lo, hi))
            else:
                out.append("(re %s)" % r.pick([".*", "^x$", "*bad"] if r.chance(1, 6) else [".*", "^x$"]))
        elif kind == "comm":
            out.append(r.pick(BAD_PATS) if r.chance(1, 25) else r.pick(COMM_PATS))
        elif kind == "ext":
            out.append(r.pick(BAD_PATS) if r.chance(1, 25) else r.pick(EXT_PATS))
        else:
            out.append(r.pick(BAD_PATS) if r.chance(1, 25) else r.pick(LARGE_PATS))
    return "(" + " ".join(out) + ")"


# ---------------------------------------------------------------- statements
def gen_cond(r, kinds_bias=None):
    k = r.below(100)
    if k < 55:
        kind = r.pick(kinds_bias or KINDS)
        if kind in ("prefix", "neighbor"):
            o = r.pick(["any", "any", "invert", "invert", "all"] if r.chance(1, 10) else ["any", "any", "invert"])
        else:
            o = r.pick(["any", "all", "invert"])
        name = r.pick(SET_NAMES[kind]) if r.chance(15, 16) else "nosuch"
        return "(cset %s %s %s)" % (kind, name, o)
    if k < 60:
        return "(nexthop %s)" % " ".join(r.pick(NEXTHOPS) for _ in range(1 + r.below(2)))
    if k < 68:
        return "(aslen %s %d)" % (r.pick(["eq", "ge", "le"]), r.pick([0, 1, 2, 3, 4, 254, 255, 256]))
    if k < 73:
        return "(rpki %s)" % r.pick(["nf", "valid", "invalid"])
    if k < 77:
        return "(lpeq %d)" % r.pick([0, 100, 200, 300])
    if k < 82:
        return "(medeq %d)" % r.pick([0, 5, 100, 15, 4294967295])
    if k < 86:
        return "(origin %d)" % r.pick([0, 1, 2, 3])
    if k < 91:
        return "(rtype %s)" % r.pick(["internal", "external", "local"])
    if k < 96:
        return "(ccount %s %d)" % (r.pick(["eq", "ge", "le"]), r.pick([0, 1, 2, 3]))
    return "(afi %s)" % " ".join(r.pick(["(1 1)", "(2 1)", "(1 128)"]) for _ in range(1 + r.below(2)))


def gen_action(r, allow_nh=True):
    ks = ["comm", "lp", "med", "prep", "ext", "large", "origin"] + (["nh"] if allow_nh else [])
    k = r.pick(ks)
    if k == "nh":
        return "(nh %s)" % r.pick(["self", "peer", "unchanged", "(addr %s)" % r.pick(NEXTHOPS)])
    if k == "comm":
        return "(comm %s (%s))" % (r.pick(["add", "remove", "replace"]), " ".join(str(r.pick(COMMS)) for _ in range(r.below(3))))
    if k == "lp":
        return "(lp %d)" % r.pick([0, 100, 200, 300, 4294967295])
    if k == "med":
        return "(med %s %d)" % (r.pick(["mod", "mod", "replace"]),
                                r.pick([0, 10, -10, 5, -5, 95, 4294967295, -4294967295, 4294967300, 9223372036854775807,
                                        -9223372036854775808, 9223372036854775800]))
    if k == "prep":
        return "(prep %d %d %s)" % (r.pick(ASNS), r.pick([0, 1, 1, 2, 3, 3, 10, 256, 300]) if r.chance(7, 8) else 1, r.pick(["t", "f", "f"]))
    if k == "ext":
        return "(ext %s (%s))" % (r.pick(["add", "remove", "replace"]), " ".join("x" + r.pick(EXTS) for _ in range(r.below(3))))
    if k == "large":
        return "(large %s (%s))" % (r.pick(["add", "remove", "replace"]),
                                    " ".join("(%d %d %d)" % r.pick(LARGES) for _ in range(r.below(3))))
    return "(origin %d)" % r.pick([0, 1, 2])


def gen_stmt_body(r, allow_nh=True, kinds_bias=None, nconds=None):
    nc = nconds if nconds is not None else r.pick([0, 1, 1, 1, 2, 2, 3])
    conds = [gen_cond(r, kinds_bias) for _ in range(nc)]
    acts = []
    seen = set()
    for _ in range(r.pick([0, 0, 1, 1, 2, 3])):
        a = gen_action(r, allow_nh)
        k = a.split(" ")[0]
        if k not in seen:
            seen.add(k)
            acts.append(a)
    disp = r.pick(["none", "accept", "reject", "reject", "pass", "none", "accept"])
    return "(%s) %s (%s)" % (" ".join(conds), disp, " ".join(acts))


# ---------------------------------------------------------------- case flavours
def setup_ops(r, focus=None):
    ops = []
    kinds = KINDS if focus is None else focus
    for kind in KINDS:
        for name in SET_NAMES[kind]:
            if kind in kinds or r.chance(1, 2):
                ops.append("(set-add %s %s %s)" % (kind, name, gen_elems(r, kind, n=1 + r.below(4))))
    ns = 2 + r.below(3)
    for i in range(ns):
        ops.append("(stmt-add %s %s)" % (STMT_NAMES[i], gen_stmt_body(r, allow_nh=(i >= 2), kinds_bias=focus)))
    # p1: statements without nexthop action (usable for import), p2: any
    ops.append("(pol-add p1 (%s))" % " ".join(r.pick(STMT_NAMES[:2]) for _ in range(1 + r.below(2))))
    ops.append("(pol-add p2 (%s))" % " ".join(r.pick(STMT_NAMES[:ns]) for _ in range(1 + r.below(3))))
    if r.chance(1, 2):
        ops.append("(pol-add p3 (%s))" % " ".join(r.pick(STMT_NAMES[:ns]) for _ in range(r.below(3))))
    ops.append("(asg-add exp ga %s (%s))" % (r.pick(["accept", "reject", "pass"]), " ".join(r.pick([["p2"], ["p1", "p2"], ["p2", "p1"], ["p1"]]))))
    ops.append("(asg-add imp gi %s (%s))" % (r.pick(["accept", "reject"]), r.pick(["p1", "p1", "p1 p2", "p2"])))
    return ops


def churn_op(r):
    k = r.below(100)
    kind = r.pick(KINDS)
    sname = r.pick(SET_NAMES[kind])
    if k < 12:
        return "(set-add %s %s %s)" % (kind, sname, gen_elems(r, kind))
    if k < 24:
        return "(set-replace %s %s %s)" % (kind, sname, gen_elems(r, kind))
    if k < 38:
        return "(set-del %s %s %s %s)" % (kind, sname, r.pick(["t", "f", "f"]), gen_elems(r, kind))
    if k < 50:
        return "(stmt-add %s %s)" % (r.pick(STMT_NAMES), gen_stmt_body(r, nconds=r.pick([0, 1, 1, 2])))
    if k < 62:
        body = gen_stmt_body(r, nconds=r.pick([0, 0, 1]))
        return "(stmt-del %s %s %s)" % (r.pick(STMT_NAMES), r.pick(["t", "f", "f"]), body)
    if k < 72:
        return "(pol-add %s (%s))" % (r.pick(POL_NAMES), " ".join(r.pick(STMT_NAMES + ["nosuch"]) for _ in range(r.below(3))))
    if k < 84:
        return "(pol-del %s %s %s (%s))" % (r.pick(POL_NAMES), r.pick(["t", "f"]), r.pick(["t", "f"]),
                                            " ".join(r.pick(STMT_NAMES) for _ in range(r.below(3))))
    if k < 90:
        return "(asg-add %s g2 %s (%s))" % (r.pick(["imp", "exp"]), r.pick(["accept", "reject", "pass"]),
                                            " ".join(r.pick(POL_NAMES + ["nosuch"]) for _ in range(1 + r.below(2))))
    if k < 95:
        return "(asg-set %s g3 %s (%s))" % (r.pick(["imp", "exp"]), r.pick(["accept", "reject"]),
                                            " ".join(r.pick(POL_NAMES) for _ in range(r.below(3))))
    return "(asg-del %s %s (%s))" % (r.pick(["imp", "exp"]), r.pick(["t", "f", "f"]), " ".join(r.pick(POL_NAMES) for _ in range(r.below(2))))


def gen_case(r, tier):
    fl = r.below(100)
    nprobe = r.pick([2, 3, 3, 4])
    probes = [gen_route(r) for _ in range(nprobe)]
    if fl < 45:
        focus = r.pick([None, ["prefix"], ["aspath"], ["comm", "ext", "large"], ["neighbor", "prefix"], ["aspath", "comm"]])
        ops = setup_ops(r, focus)
    elif fl < 85:
        ops = setup_ops(r, r.pick([None, ["prefix", "aspath"]]))
        ops += [churn_op(r) for _ in range(2 + r.below(7))]
    else:
        ops = [churn_op(r) for _ in range(3 + r.below(10))]
    return "(case (probes %s) (ops %s))" % (" ".join(probes), " ".join(ops))


def gen(seed, n, tier):
    r = Rng(seed * 1000003 + 14)
    return [gen_case(r, tier) for _ in range(n)]
