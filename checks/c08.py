from common import Rng

CONFIG = dict(
    claimed=True,
    level_text="Kernel-checked Lean theorems over ALL accepted configurations (hold time 0 or 3..65535) and ALL well-formed timed "
               "histories of the driver model (FSM of daemon/src/fsm.rs + the two timer slots per session task of "
               "PeerSession::apply_outputs/run_select on a virtual clock): the master theorem that the C08 reference checker "
               "(written from the property text) accepts every model run, and from it: negotiated hold = min(local, remote) and "
               "keepalive = a third of it, armed with exactly those values; hold deadline = last KEEPALIVE/UPDATE/OPEN + negotiated "
               "hold in every reachable state; re-armed by KEEPALIVE/UPDATE and by nothing else; a wait produces a hold expiry iff "
               "nothing was received for the negotiated hold time; negotiated hold 0 => no timer armed, no firing, no hold-expiry "
               "SessionDown, for ever.  The model is tied to the code by running the real PeerFsm (with the timer bookkeeping "
               "transcribed from apply_outputs on a virtual clock) and the model on the same generated timed histories and diffing "
               "every output, firing time and state, with the reference checker as oracle on the real observations; the "
               "transcription itself is tied to the real PeerSession::apply_outputs by timer-probe cases (real tokio sleeps: "
               "armed deadline and whether run_select's poll fires) judged by a behavioural oracle; and a driver-level wire "
               "stream runs the REAL session code on loopback TCP (accept_connection, ConnArbiter::process, run_select with all "
               "its arms, apply_outputs, finish_session, apply_disconnect): real wire frames (OPEN, KEEPALIVE, every kind of "
               "UPDATE incl. AS-looped and attributes-only ones, NOTIFICATION, ROUTE-REFRESH), timers made due, the hold timer due "
               "together with a readable KEEPALIVE; after every action both timer collections are probed (re-set or kept, "
               "deadline) and judged by the clauses 'every KEEPALIVE/UPDATE received re-arms the hold timer to the negotiated "
               "value, nothing else does, negotiated 0 = both disabled'.",
    level_note="Trusted: Lean kernel; axioms propext/Classical.choice/Quot.sound; hand-written model Rbgp/Fsm/{Model,Timed}.lean "
               "(checked only by the correspondence streams); the virtual-clock timer loop in harness/daemon/fsm.rs run_case_c08 "
               "(transcription of apply_outputs/run_select; its reading of SetHoldTimer/SetKeepaliveTimer is checked against the "
               "real apply_outputs by the probe cases, the select_biased! firing order hold-before-keepalive is not).  "
               "Well-formedness hypothesis wfHist: timer inputs come from the clock only and a directly injected parsed OPEN does "
               "not carry hold time 1 or 2 (what parse_message guarantees; raw OPENs go through the real parser) - both are "
               "necessary, Lean counter-examples wf_needed_*.  Fixed defect S15 (commit 6e5d82a in /repo: a negotiated hold time "
               "of zero still armed SetHoldTimer(0)=immediate expiry and never cancelled the 240 s OpenSent timer); model and "
               "proofs are about the repaired code.  Fixed defect F08-filtered-update-does-not-rearm-hold-timer (an UPDATE whose "
               "routes are all ignored - AS loop, attributes only - never reached the FSM: no hold-timer restart, no FSM error "
               "outside Established; found by the wire stream).  Remark R08: a configured local hold time 0 becomes 180 in both "
               "configuration paths, so negotiated 0 is reachable in the daemon only through the remote value.  The passage of "
               "time is now ALSO run through the real code: wire cases contain `(wait d)` actions executed on the real "
               "run_select with real tokio timers under the runtime's paused clock (tokio test-util; the rig moves the clock "
               "from one second with a due timer to the next and pumps the sessions there), and the expiries seen on the wire "
               "(KEEPALIVE = keepalive timer, NOTIFICATION (4,0) = hold timer), their times, their order, the re-armed deadlines "
               "and the tear-down are compared with Timed.advance and judged by TimedSpec.onWait (fired exactly at lastRx+n / "
               "lastKa+n/3, nothing overdue at the end of a wait) plus the general clause 'hold deadline = last received + n, "
               "keepalive deadline = last start + n/3' after EVERY action.  So which future feeds which input, the polling "
               "order (hold before keepalive, timers before the socket) and termination are the real run_select's; the `wait` "
               "loop of run_case_c08 (FSM stream) remains a transcription that is cross-checked by these cases.  Not tied: "
               "tokio's timer wheel itself; ties between the two tasks of one peer (the rig pumps active before passive).",
    lean_modules=["Rbgp.Fsm.TimedProps"],
    theorems=[
        "Rbgp.Fsm.TimedProps.check_run_ok",
        "Rbgp.Fsm.TimedProps.Reach.step",
        "Rbgp.Fsm.TimedProps.open_accept",
        "Rbgp.Fsm.TimedProps.negotiated_min",
        "Rbgp.Fsm.TimedProps.keepalive_third",
        "Rbgp.Fsm.TimedProps.keepalive_third_invariant",
        "Rbgp.Fsm.TimedProps.hold_deadline_invariant",
        "Rbgp.Fsm.TimedProps.lastRx_on_open",
        "Rbgp.Fsm.TimedProps.record_ev",
        "Rbgp.Fsm.TimedProps.record_wait",
        "Rbgp.Fsm.TimedProps.ka_update_rearm",
        "Rbgp.Fsm.TimedProps.only_ka_update_rearm",
        "Rbgp.Fsm.TimedProps.expiry_iff_silence",
        "Rbgp.Fsm.TimedProps.no_expiry_without_timer",
        "Rbgp.Fsm.TimedProps.zero_disables",
        "Rbgp.Fsm.TimedProps.timed_at_most_one_confirmed",
        "Rbgp.Fsm.TimedProps.probe_ok",
        "Rbgp.Fsm.TimedProps.wf_needed_hold1",
        "Rbgp.Fsm.TimedProps.wf_needed_holdTimer",
        "Rbgp.Fsm.TimedProps.wf_needed_kaTimer",
    ],
    # one entry point for both kinds of case line: (case ..) -> FSM harness run_case_c08 (re-included),
    # (probe ..) -> real PeerSession::apply_outputs
    harness=dict(kind="daemon", test="event::verif_event::c08::verif_main"),
    profiles=["debug"],
    oracle_stats=True,
    # boundary buckets (Rbgp/C08/Stats.lean, computed from each case and its REAL observation) that every run must hit
    expect_judged=['lh:0', 'lh:3', 'lh:4', 'lh:5', 'lh:6', 'lh:7..239', 'lh:240', 'lh:241..65533', 'lh:65534', 'lh:65535', 'rh:0',
                   'rh:3', 'rh:4', 'rh:5', 'rh:6', 'rh:7..239', 'rh:240', 'rh:241..65533', 'rh:65534', 'rh:65535', 'neg:0', 'neg:3',
                   'neg:4', 'neg:5', 'neg:6', 'neg:7..239', 'neg:240', 'neg:241..65533', 'neg:65534', 'neg:65535', 'w:lh:0', 'w:lh:3',
                   'w:lh:4', 'w:lh:5', 'w:lh:6', 'w:lh:7..239', 'w:lh:240', 'w:lh:241..65533', 'w:lh:65534', 'w:lh:65535', 'w:neg:0',
                   'w:neg:3', 'w:neg:4', 'w:neg:5', 'w:neg:6', 'w:neg:7..239', 'w:neg:240', 'w:neg:241..65533', 'w:neg:65534',
                   'w:neg:65535', 'neg%3:0', 'neg%3:1', 'neg%3:2', 'w:neg%3:0', 'w:neg%3:1', 'w:neg%3:2', 'rel:eq', 'rel:l+1',
                   'rel:l-1', 'rel:lt', 'rel:gt', 'w:rel:eq', 'w:rel:l+1', 'w:rel:l-1', 'w:rel:lt', 'w:rel:gt', 'wait:hold-1',
                   'wait:hold@', 'wait:hold+1', 'wait:hold>>', 'wait:ka-1', 'wait:ka@', 'wait:ka+1', 'wait:ka>>', 'w:wait:hold-1',
                   'w:wait:hold@', 'w:wait:hold+1', 'w:wait:hold>>', 'w:wait:ka-1', 'w:wait:ka@', 'w:wait:ka+1', 'w:wait:ka>>',
                   'wait:0', 'wait:confirmed-neg0', 'wait:opensent', 'w:wait:confirmed-neg0', 'w:wait:opensent', 'fired:ka',
                   'fired:hold-confirmed', 'fired:hold-opensent', 'fired:3-or-more-in-one-wait', 'fired:two-roles-same-second',
                   'w:fired:ka', 'w:fired:hold', 'w:fired:two-roles-same-second', 'w:connect-refused', 'w:no-conn',
                   'w:ka-timer-skipped', 'w:keepalive@opensent', 'w:update@opensent', 'w:update-looped@opensent',
                   'w:update-attrs@opensent', 'w:update-withdraw@opensent', 'w:eor@opensent', 'w:route-refresh@opensent',
                   'w:notification@opensent', 'w:close@opensent', 'w:admin-shutdown@opensent', 'w:hold-timer@opensent',
                   'w:hold-timer+keepalive@opensent', 'w:reset@opensent', 'w:bfd-down@opensent', 'w:open@opensent',
                   'w:keepalive@openconfirm', 'w:update@openconfirm', 'w:update-looped@openconfirm', 'w:update-attrs@openconfirm',
                   'w:update-withdraw@openconfirm', 'w:eor@openconfirm', 'w:route-refresh@openconfirm', 'w:notification@openconfirm',
                   'w:close@openconfirm', 'w:admin-shutdown@openconfirm', 'w:hold-timer@openconfirm',
                   'w:hold-timer+keepalive@openconfirm', 'w:reset@openconfirm', 'w:bfd-down@openconfirm', 'w:open@openconfirm',
                   'w:keepalive@established', 'w:update@established', 'w:update-looped@established', 'w:update-attrs@established',
                   'w:update-withdraw@established', 'w:eor@established', 'w:route-refresh@established', 'w:notification@established',
                   'w:close@established', 'w:admin-shutdown@established', 'w:hold-timer@established',
                   'w:hold-timer+keepalive@established', 'w:reset@established', 'w:bfd-down@established', 'w:open@established',
                   'w:ka-timer@openconfirm', 'w:ka-timer@established', 'w:connect@idle', 'w:open@idle', 'probe:nothing-set',
                   'probe:set-hold-twice-last-wins', 'probe:other-output', 'probe:set-hold:0', 'probe:set-hold:1', 'probe:set-hold:3',
                   'probe:set-hold:7..239', 'probe:set-hold:240', 'probe:set-hold:65535', 'probe:set-ka:0', 'probe:set-ka:1',
                   'probe:set-ka:3', 'probe:set-ka:7..239', 'probe:set-ka:240', 'probe:set-ka:65535', 'ev:keepalive@idle',
                   'ev:keepalive@opensent', 'ev:keepalive@confirmed', 'ev:update@idle', 'ev:update@opensent', 'ev:update@confirmed',
                   'ev:update-sent@idle', 'ev:update-sent@opensent', 'ev:update-sent@confirmed', 'ev:route-refresh@idle',
                   'ev:route-refresh@opensent', 'ev:route-refresh@confirmed', 'ev:open@idle', 'ev:open@opensent', 'ev:open@confirmed',
                   'ev:open-parsed@idle', 'ev:open-parsed@opensent', 'ev:open-parsed@confirmed', 'ev:notification@idle',
                   'ev:notification@opensent', 'ev:notification@confirmed', 'ev:disconnected@idle', 'ev:disconnected@opensent',
                   'ev:disconnected@confirmed', 'ev:admin-shutdown@idle', 'ev:admin-shutdown@opensent', 'ev:admin-shutdown@confirmed',
                   'ev:connected@idle', 'ev:connected@opensent', 'ev:connected@confirmed'],
    n_quick=3000, n_thorough=150000, shards=12,
    nontrivial_re=r"\(fired \(|probe-obs|wire-obs",
    rule="(a) timed histories (message arrivals, sends, passage of virtual time) through OpenSent/OpenConfirm/Established on both "
         "roles; local and remote hold times from {0,3,4,9,30,90,240,65535}; OPENs raw (through the real parser, incl. hold 1/2 "
         "and bad identifiers) and parsed; waits chosen around the keepalive and hold deadlines (deadline-1, deadline, "
         "deadline+1), around the 240 s OpenSent timer and long ones; (b) about one case in twelve is a timer probe: a list of "
         "0..5 Set*Timer/other outputs (values 0,1,3,30,90,240,65535) applied by the real PeerSession::apply_outputs; "
         "(c) one case in five is a driver-level wire case (real sessions on loopback TCP under the paused tokio clock, "
         "2..17 actions incl. waits around the keepalive/hold deadlines, looped / attributes-only / withdraw / End-of-RIB "
         "UPDATEs, both timers made due, collisions, refused OPENs, reset, BFD down); hold times from {0,3,4,5,6,8,9,30,90,240,"
         "65534,65535} with the remote value independent, equal or adjacent to the local one; (d) deterministic sweep in every "
         "run: every pair of boundary hold times (13 values, each against itself, its neighbours, 0, 3, 90, 65535) as a timed "
         "history and as a wire case with waits ending one second before / at / one second after the keepalive and the hold "
         "deadline, and every wire action in each of OpenSent / OpenConfirm / Established; the boundary buckets hit are "
         "counted from the real observations (coverage.oracle_clause_counts, list expect_judged); "
         "non-trivial = at least one timer fired, a probe observation or a wire observation; distinct = distinct case line",
    expect_tokens=["hold-expired", "(fired (", "ka ", "established", "probe-obs", "far", "parse-reject", "(6 7)",
                   "stop-active-connect", "wire-obs", "(hold set", "(hold kept", "(ka set", "(notif 4 0)", "(notif 6 7)",
                   "refused"],
    trusted_base=["model Rbgp/Fsm/Timed.lean of the timer bookkeeping in PeerSession::apply_outputs / run_select",
                  "harness/daemon/fsm.rs run_case_c08 keeps the two timer slots per task on a virtual clock (transcribed "
                  "from apply_outputs; the Set*Timer reading is cross-checked on the real apply_outputs by the probe cases); "
                  "that tokio::time::sleep(n) completes n seconds later is assumed",
                  "harness/daemon/c08.rs: helpers copied from event/mod.rs `mod tests` (make_global, default_peer_params, "
                  "loopback_pair); a 30 ms timeout on the runtime's (paused) clock decides fires/quiet",
                  "harness/daemon/rig.rs (wire stream): transcribed session_loop preamble/tail and run->apply_disconnect call, "
                  "timer expiry provoked either by moving the paused clock (`wait`) or by replacing the collection with sleep(0), "
                  "single-threaded pumping (a session is idle when run_select stays pending over several driver turns); the "
                  "clock runs up to 0.45 s ahead of the model second (1 ms per action / expiry group) and all times are reported "
                  "rounded to whole seconds; model Rbgp/Fsm/Wire.lean (incl. 'End-of-RIB is sent on entering Established => update-sent'), "
                  "checker Rbgp/Fsm/WireSpec.lean (no Lean master theorem for this stream)"],
    modelled_not_verified=["tokio's timer wheel (that a Sleep completes when the clock reaches its deadline) and wall-clock "
                           "accuracy", "the second SetKeepaliveTimer site (flush_tx -> Input::UpdateSent) is executed for real only "
                           "for the End-of-RIB sent on entering Established (wire stream); update-sent at other moments is "
                           "covered as the FSM output only"],
    assumptions=["timers fire exactly at their deadline on a clock in whole seconds (wire stream: tokio's paused clock)",
                 "wfHist: timer-expiry inputs are produced by the clock only; parsed OPENs injected directly do not carry hold "
                 "time 1 or 2 (parse_message rejects them)"],
)

HOLDS = [0, 0, 3, 4, 5, 6, 8, 9, 30, 90, 240, 65534, 65535]   # incl. every residue mod 3 at the low and the high end
PROBE_VALS = [0, 0, 1, 3, 30, 90, 240, 65535]


def gen_probe(r):
    outs = []
    for _ in range(r.below(6)):
        k = r.weighted([("set-hold", 5), ("set-ka", 4), ("send-keepalive", 1), ("state", 1), ("stop-active-connect", 1)])
        if k in ("set-hold", "set-ka"):
            outs.append("(%s %d)" % (k, r.pick(PROBE_VALS)))
        elif k == "state":
            outs.append("(state %s)" % r.pick(["opensent", "openconfirm", "established"]))
        else:
            outs.append(k)
    return "(probe%s)" % "".join(" " + o for o in outs)


def gen_case(r):
    local_hold = r.pick(HOLDS)
    # remote hold time: independent, equal to the local one, or adjacent to it (the min() switch point)
    remote_hold = r.weighted([(r.pick(HOLDS), 6), (local_hold, 2), (local_hold + 1, 1), (max(local_hold, 1) - 1, 1)])
    if remote_hold in (1, 2) or remote_hold > 65535:
        remote_hold = 3
    neg = min(local_hold, remote_hold)
    local_rid = r.pick([1, 167772161])
    remote_rid = 33686018
    evs = []
    roles = ["A"] if r.chance(2, 3) else ["A", "P"]

    def waits():
        cands = [0, 1, 2, 5]
        if neg:
            cands += [neg // 3 - 1, neg // 3, neg // 3 + 1, neg - 1, neg, neg + 1, 2 * neg, neg - neg // 3,
                      neg - 2 * (neg // 3), 3 * (neg // 3)]
        cands += [239, 240, 241, 300]
        if r.chance(1, 20):
            cands = [1000, 65534, 65535, 65536, 70000]
        return max(0, r.pick(cands))

    def open_ev(role):
        # mostly the acceptable raw OPEN of this case; sometimes another hold time, a parsed OPEN, or an OPEN the
        # wire parser / the FSM refuses (hold 1/2, bad identifier, unexpected AS)
        k = r.weighted([("raw", 14), ("parsed", 3), ("otherhold", 2), ("badhold", 1), ("badrid", 1), ("badas", 1)])
        if k == "raw":
            return "(%s (open 65002 %d %d))" % (role, remote_hold, remote_rid)
        if k == "parsed":
            return "(%s (open-parsed 65002 %d %d))" % (role, remote_hold, remote_rid)
        if k == "otherhold":
            return "(%s (open 65002 %d %d))" % (role, r.pick(HOLDS), remote_rid)
        if k == "badhold":
            return "(%s (open 65002 %d %d))" % (role, r.pick([1, 2]), remote_rid)
        if k == "badrid":
            return "(%s (open 65002 %d %d))" % (role, remote_hold, r.pick([0, 4294967295, 3758096385]))
        return "(%s (open 65003 %d %d))" % (role, remote_hold, remote_rid)

    for role in roles:
        evs.append("(%s (connected f))" % role)
        if r.chance(1, 6):
            evs.append("(A (wait %d))" % waits())
    for role in roles:
        if r.chance(9, 10):
            evs.append(open_ev(role))
            if r.chance(1, 3):
                evs.append("(A (wait %d))" % waits())
            if r.chance(9, 10):
                evs.append("(%s keepalive)" % role)
    n = r.below(r.pick([4, 10, 25]))
    for _ in range(n):
        role = r.pick(roles)
        k = r.weighted([("wait", 10), ("keepalive", 5), ("update", 3), ("update-sent", 3), ("rr", 1), ("open", 1),
                        ("notification", 1), ("disconnected", 1), ("connected", 1), ("admin-shutdown", 1)])
        if k == "wait":
            evs.append("(A (wait %d))" % waits())
        elif k == "rr":
            evs.append("(%s (route-refresh 1))" % role)
        elif k == "open":
            evs.append(open_ev(role))
        elif k == "notification":
            evs.append("(%s (notification 6 2))" % role)
        elif k == "connected":
            evs.append("(%s (connected f))" % role)
        else:
            evs.append("(%s %s)" % (role, k))
    return "(case (cfg %d 65001 %d 65002) (evs %s))" % (local_rid, local_hold, " ".join(evs))


WIRE_HOLDS = [0, 0, 3, 4, 5, 6, 9, 30, 90, 240, 65534, 65535]


def gen_wire(r):
    """Driver-level case: real sessions on loopback TCP under the runtime's paused clock (harness/daemon/rig.rs),
    model Rbgp/Fsm/Wire.lean.  Since the clock is virtual these cases are as cheap as the others."""
    local_hold = r.pick(WIRE_HOLDS)
    # remote hold time: independent, equal to the local one, or adjacent to it
    remote_hold = r.weighted([(r.pick(WIRE_HOLDS), 6), (local_hold, 2), (local_hold + 1, 1), (max(local_hold, 1) - 1, 1)])
    if remote_hold in (1, 2) or remote_hold > 65535:
        remote_hold = 3
    neg = min(local_hold, remote_hold)
    local_rid = r.pick([16777217, 167772161])
    remote_rid = 33686018
    expected = r.pick([0, 65002, 65002])
    roles = ["P"] if r.chance(1, 2) else (["A"] if r.chance(1, 2) else ["A", "P"])
    evs = []

    def waits():
        cands = [0, 1, 2]
        if neg:
            k = neg // 3
            cands += [k - 1, k, k + 1, 2 * k, 3 * k, neg - 1, neg, neg + 1, neg - k, neg - 2 * k]
        cands += [239, 240, 241]
        d = max(0, r.pick(cands))
        return min(d, 400) if neg and neg < 400 else min(d, 70000)

    for role in roles:
        evs.append("(%s connect)" % role)
        if r.chance(1, 8):
            evs.append("(A (wait %d))" % waits())
    for role in roles:
        if r.chance(9, 10):
            evs.append("(%s (open 65002 %d %d))" % (role, remote_hold, remote_rid))
            if r.chance(1, 4):
                evs.append("(A (wait %d))" % waits())
            if r.chance(8, 10):
                evs.append("(%s keepalive)" % role)
            elif r.chance(1, 2):
                # something else while still in OpenConfirm
                k2 = r.pick(["route-refresh", "reset", "eor", "update-withdraw", "(notification 6 2)", "ka-timer",
                             "hold-timer", "admin-shutdown", "bfd-down"])
                if k2 == "ka-timer" and neg == 0:
                    k2 = "route-refresh"
                evs.append("(%s %s)" % (role, k2))
    acts = [("wait", 9), ("keepalive", 4), ("update", 3), ("update-looped", 3), ("update-attrs", 2), ("update-withdraw", 1),
            ("eor", 1), ("route-refresh", 2), ("hold-timer", 1), ("hold-timer+keepalive", 1), ("notification", 1),
            ("close", 1), ("admin-shutdown", 1), ("connect", 2), ("open", 1), ("badopen", 1), ("reset", 1), ("bfd-down", 1)]
    if neg != 0:
        acts.append(("ka-timer", 2))
    for _ in range(r.below(r.pick([3, 6, 10, 14]))):
        role = r.pick(roles) if r.chance(5, 6) else r.pick(["A", "P"])
        k = r.weighted(acts)
        if k == "wait":
            evs.append("(A (wait %d))" % waits())
        elif k == "notification":
            evs.append("(%s (notification 6 2))" % role)
        elif k == "open":
            evs.append("(%s (open 65002 %d %d))" % (role, remote_hold, remote_rid))
        elif k == "badopen":
            evs.append("(%s (open %d %d %d))" % (role, r.pick([65002, 65003]), r.pick([1, 2, remote_hold]),
                                                 r.pick([0, remote_rid, 3758096385])))
        else:
            evs.append("(%s %s)" % (role, k))
    return "(wire (cfg %d 65001 %d %d) (evs %s))" % (local_rid, local_hold, expected, " ".join(evs))


BOUNDARY_HOLDS = [0, 3, 4, 5, 6, 7, 8, 9, 240, 241, 65533, 65534, 65535]
WIRE_ACTS = ["keepalive", "update", "update-looped", "update-attrs", "update-withdraw", "eor", "route-refresh",
             "(notification 6 2)", "(open 65002 30 33686018)", "close", "admin-shutdown", "hold-timer", "hold-timer+keepalive",
             "ka-timer", "reset", "bfd-down", "connect", "(wait 1)"]


def sweep():
    """Deterministic part, in EVERY run: (1) every pair of boundary hold times (each value against itself, its two
    neighbours and a far value) as a timed history AND as a wire case on real timers, with waits ending one second
    before, exactly at and one second after the first keepalive deadline and the hold deadline; (2) every wire action in
    each of OpenSent / OpenConfirm / Established."""
    out = []
    seen = set()
    for lh in BOUNDARY_HOLDS:
        for rh in sorted({lh, lh + 1, max(lh, 1) - 1, 0, 3, 90, 65535}):
            if rh in (1, 2) or rh > 65535 or (lh, rh) in seen:
                continue
            seen.add((lh, rh))
            neg = min(lh, rh)
            k = neg // 3
            if neg:
                w = [max(k - 1, 0), 1, 1]                      # ka deadline -1, =, +1
                t = max(k - 1, 0) + 2
                tail = [max(neg - 1, 0), 1, 1]                 # after a KEEPALIVE at t: hold deadline -1, =, +1
            else:
                w, tail = [1000], [70000]
            tev = ["(A (connected f))", "(A (open 65002 %d 33686018))" % rh, "(A keepalive)"]
            wev = ["(P connect)", "(P (open 65002 %d 33686018))" % rh, "(P keepalive)"]
            for d in w:
                tev.append("(A (wait %d))" % d); wev.append("(P (wait %d))" % d)
            tev.append("(A keepalive)"); wev.append("(P keepalive)")
            for d in tail:
                tev.append("(A (wait %d))" % d); wev.append("(P (wait %d))" % d)
            out.append("(case (cfg 1 65001 %d 65002) (evs %s))" % (lh, " ".join(tev)))
            if neg == 0 or neg >= 9 or True:
                out.append("(wire (cfg 16777217 65001 %d 65002) (evs %s))" % (lh, " ".join(wev)))
    for pre in (["(P connect)"], ["(P connect)", "(P (open 65002 30 33686018))"],
                ["(P connect)", "(P (open 65002 30 33686018))", "(P keepalive)"]):
        for act in WIRE_ACTS:
            out.append("(wire (cfg 16777217 65001 90 65002) (evs %s (P %s) (P (wait 1)) (P connect)))" % (" ".join(pre), act))
    return out


def gen(seed, n, tier):
    r = Rng(seed * 1000003 + 8)
    out = []
    for _ in range(n):
        k = r.below(300)
        if k < 60:
            out.append(gen_wire(r))       # virtual time: one in five
        elif k < 84:
            out.append(gen_probe(r))
        else:
            out.append(gen_case(r))
    return out + sweep()
