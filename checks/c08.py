from common import Rng

CONFIG = dict(
    claimed=True,
    level_text="Kernel-checked Lean theorems over ALL accepted configurations (hold time 0 or 3..65535) and ALL well-formed timed "
               "histories of the driver model (FSM of daemon/src/fsm.rs + the two timer slots per session task of "
               "PeerSession::apply_outputs/run_select on a virtual clock): the master theorem that the C08 reference checker "
               "(written from the property text) accepts every model run, and from it: negotiated hold = min(local, remote) and "
               "keepalive = a third of it, armed with exactly those values; hold deadline = last KEEPALIVE/UPDATE/OPEN + negotiated "
               "hold in every reachable state; re-armed by KEEPALIVE/UPDATE and by nothing else; a wait produces a hold expiry iff "
               "nothing was received for the negotiated hold time; negotiated hold 0 => no timer armed, no firing, no hold-expiry "
               "SessionDown, for ever.  The model is tied to the code by running the real PeerFsm (with the timer bookkeeping "
               "transcribed from apply_outputs on a virtual clock) and the model on the same generated timed histories and diffing "
               "every output, firing time and state, with the reference checker as oracle on the real observations; the "
               "transcription itself is tied to the real PeerSession::apply_outputs by timer-probe cases (real tokio sleeps: "
               "armed deadline and whether run_select's poll fires) judged by a behavioural oracle; and a driver-level wire "
               "stream runs the REAL session code on loopback TCP (accept_connection, ConnArbiter::process, run_select with all "
               "its arms, apply_outputs, finish_session, apply_disconnect): real wire frames (OPEN, KEEPALIVE, every kind of "
               "UPDATE incl. AS-looped and attributes-only ones, NOTIFICATION, ROUTE-REFRESH), timers made due, the hold timer due "
               "together with a readable KEEPALIVE; after every action both timer collections are probed (re-set or kept, "
               "deadline) and judged by the clauses 'every KEEPALIVE/UPDATE received re-arms the hold timer to the negotiated "
               "value, nothing else does, negotiated 0 = both disabled'.",
    level_note="Trusted: Lean kernel; axioms propext/Classical.choice/Quot.sound; hand-written model Rbgp/Fsm/{Model,Timed}.lean "
               "(checked only by the correspondence streams); the virtual-clock timer loop in harness/daemon/fsm.rs run_case_c08 "
               "(transcription of apply_outputs/run_select; its reading of SetHoldTimer/SetKeepaliveTimer is checked against the "
               "real apply_outputs by the probe cases, the select_biased! firing order hold-before-keepalive is not).  "
               "Well-formedness hypothesis wfHist: timer inputs come from the clock only and a directly injected parsed OPEN does "
               "not carry hold time 1 or 2 (what parse_message guarantees; raw OPENs go through the real parser) - both are "
               "necessary, Lean counter-examples wf_needed_*.  Fixed defect S15 (commit 6e5d82a in /repo: a negotiated hold time "
               "of zero still armed SetHoldTimer(0)=immediate expiry and never cancelled the 240 s OpenSent timer); model and "
               "proofs are about the repaired code.  Fixed defect F08-filtered-update-does-not-rearm-hold-timer (an UPDATE whose "
               "routes are all ignored - AS loop, attributes only - never reached the FSM: no hold-timer restart, no FSM error "
               "outside Established; found by the wire stream).  Remark R08: a configured local hold time 0 becomes 180 in both "
               "configuration paths, so negotiated 0 is reachable in the daemon only through the remote value.  The `wait` loop "
               "of run_case_c08 (virtual clock, firing order, fuel) stays transcribed; what the wire stream ties to the real "
               "run_select is: the hold collection feeds HoldTimerExpired and ends the task with NOTIFICATION (4,0), the "
               "keepalive collection feeds KeepaliveTimerExpired (KEEPALIVE sent, timer re-armed to a third), both are polled "
               "before the socket, an emptied collection is reported (timer-collection-empty).  Not tied: that a tokio sleep "
               "completes at its deadline, hold-before-keepalive on an exact tie.",
    lean_modules=["Rbgp.Fsm.TimedProps"],
    theorems=[
        "Rbgp.Fsm.TimedProps.check_run_ok",
        "Rbgp.Fsm.TimedProps.Reach.step",
        "Rbgp.Fsm.TimedProps.open_accept",
        "Rbgp.Fsm.TimedProps.negotiated_min",
        "Rbgp.Fsm.TimedProps.keepalive_third",
        "Rbgp.Fsm.TimedProps.keepalive_third_invariant",
        "Rbgp.Fsm.TimedProps.hold_deadline_invariant",
        "Rbgp.Fsm.TimedProps.lastRx_on_open",
        "Rbgp.Fsm.TimedProps.record_ev",
        "Rbgp.Fsm.TimedProps.record_wait",
        "Rbgp.Fsm.TimedProps.ka_update_rearm",
        "Rbgp.Fsm.TimedProps.only_ka_update_rearm",
        "Rbgp.Fsm.TimedProps.expiry_iff_silence",
        "Rbgp.Fsm.TimedProps.no_expiry_without_timer",
        "Rbgp.Fsm.TimedProps.zero_disables",
        "Rbgp.Fsm.TimedProps.timed_at_most_one_confirmed",
        "Rbgp.Fsm.TimedProps.probe_ok",
        "Rbgp.Fsm.TimedProps.wf_needed_hold1",
        "Rbgp.Fsm.TimedProps.wf_needed_holdTimer",
        "Rbgp.Fsm.TimedProps.wf_needed_kaTimer",
    ],
    # one entry point for both kinds of case line: (case ..) -> FSM harness run_case_c08 (re-included),
    # (probe ..) -> real PeerSession::apply_outputs
    harness=dict(kind="daemon", test="event::verif_event::c08::verif_main"),
    profiles=["debug"],
    n_quick=3000, n_thorough=150000, shards=12,
    nontrivial_re=r"\(fired \(|probe-obs|wire-obs",
    rule="(a) timed histories (message arrivals, sends, passage of virtual time) through OpenSent/OpenConfirm/Established on both "
         "roles; local and remote hold times from {0,3,4,9,30,90,240,65535}; OPENs raw (through the real parser, incl. hold 1/2 "
         "and bad identifiers) and parsed; waits chosen around the keepalive and hold deadlines (deadline-1, deadline, "
         "deadline+1), around the 240 s OpenSent timer and long ones; (b) about one case in twelve is a timer probe: a list of "
         "0..5 Set*Timer/other outputs (values 0,1,3,30,90,240,65535) applied by the real PeerSession::apply_outputs; "
         "(c) about one case in twenty-five is a driver-level wire case (real sessions on loopback TCP, 2..12 actions incl. "
         "looped / attributes-only / withdraw / End-of-RIB UPDATEs, both timers made due, collisions, refused OPENs); "
         "non-trivial = at least one timer fired, a probe observation or a wire observation; distinct = distinct case line",
    expect_tokens=["hold-expired", "(fired (", "ka ", "established", "probe-obs", "far", "parse-reject", "(6 7)",
                   "stop-active-connect", "wire-obs", "(hold set", "(hold kept", "(ka set", "(notif 4 0)", "(notif 6 7)",
                   "refused"],
    trusted_base=["model Rbgp/Fsm/Timed.lean of the timer bookkeeping in PeerSession::apply_outputs / run_select",
                  "harness/daemon/fsm.rs run_case_c08 keeps the two timer slots per task on a virtual clock (transcribed "
                  "from apply_outputs; the Set*Timer reading is cross-checked on the real apply_outputs by the probe cases); "
                  "that tokio::time::sleep(n) completes n seconds later is assumed",
                  "harness/daemon/c08.rs: helpers copied from event/mod.rs `mod tests` (make_global, default_peer_params, "
                  "loopback_pair); 30 ms of real time decide fires/quiet",
                  "harness/daemon/rig.rs (wire stream): transcribed session_loop preamble/tail and run->apply_disconnect call, "
                  "timer expiry provoked by replacing the collection with sleep(0), single-threaded pumping, 12 ms idle "
                  "detection; model Rbgp/Fsm/Wire.lean (incl. 'End-of-RIB is sent on entering Established => update-sent'), "
                  "checker Rbgp/Fsm/WireSpec.lean (no Lean master theorem for this stream)"],
    modelled_not_verified=["wall-clock accuracy of tokio sleeps", "FuturesUnordered polling order beyond hold-before-keepalive",
                           "the second SetKeepaliveTimer site (flush of pending UPDATEs feeding Input::UpdateSent) is covered as "
                           "the FSM output only"],
    assumptions=["timers fire exactly at their deadline on a virtual clock in whole seconds",
                 "wfHist: timer-expiry inputs are produced by the clock only; parsed OPENs injected directly do not carry hold "
                 "time 1 or 2 (parse_message rejects them)"],
)

HOLDS = [0, 0, 3, 4, 9, 30, 90, 240, 65535]
PROBE_VALS = [0, 0, 1, 3, 30, 90, 240, 65535]


def gen_probe(r):
    outs = []
    for _ in range(r.below(6)):
        k = r.weighted([("set-hold", 5), ("set-ka", 4), ("send-keepalive", 1), ("state", 1), ("stop-active-connect", 1)])
        if k in ("set-hold", "set-ka"):
            outs.append("(%s %d)" % (k, r.pick(PROBE_VALS)))
        elif k == "state":
            outs.append("(state %s)" % r.pick(["opensent", "openconfirm", "established"]))
        else:
            outs.append(k)
    return "(probe%s)" % "".join(" " + o for o in outs)


def gen_case(r):
    local_hold = r.pick(HOLDS)
    remote_hold = r.pick(HOLDS)
    neg = min(local_hold, remote_hold)
    local_rid = r.pick([1, 167772161])
    remote_rid = 33686018
    evs = []
    roles = ["A"] if r.chance(2, 3) else ["A", "P"]

    def waits():
        cands = [0, 1, 2, 5]
        if neg:
            cands += [neg // 3 - 1, neg // 3, neg // 3 + 1, neg - 1, neg, neg + 1, 2 * neg, neg - neg // 3,
                      neg - 2 * (neg // 3), 3 * (neg // 3)]
        cands += [239, 240, 241, 300]
        if r.chance(1, 20):
            cands = [1000, 65534, 65535, 65536, 70000]
        return max(0, r.pick(cands))

    def open_ev(role):
        # mostly the acceptable raw OPEN of this case; sometimes another hold time, a parsed OPEN, or an OPEN the
        # wire parser / the FSM refuses (hold 1/2, bad identifier, unexpected AS)
        k = r.weighted([("raw", 14), ("parsed", 3), ("otherhold", 2), ("badhold", 1), ("badrid", 1), ("badas", 1)])
        if k == "raw":
            return "(%s (open 65002 %d %d))" % (role, remote_hold, remote_rid)
        if k == "parsed":
            return "(%s (open-parsed 65002 %d %d))" % (role, remote_hold, remote_rid)
        if k == "otherhold":
            return "(%s (open 65002 %d %d))" % (role, r.pick(HOLDS), remote_rid)
        if k == "badhold":
            return "(%s (open 65002 %d %d))" % (role, r.pick([1, 2]), remote_rid)
        if k == "badrid":
            return "(%s (open 65002 %d %d))" % (role, remote_hold, r.pick([0, 4294967295, 3758096385]))
        return "(%s (open 65003 %d %d))" % (role, remote_hold, remote_rid)

    for role in roles:
        evs.append("(%s (connected f))" % role)
        if r.chance(1, 6):
            evs.append("(A (wait %d))" % waits())
    for role in roles:
        if r.chance(9, 10):
            evs.append(open_ev(role))
            if r.chance(1, 3):
                evs.append("(A (wait %d))" % waits())
            if r.chance(9, 10):
                evs.append("(%s keepalive)" % role)
    n = r.below(r.pick([4, 10, 25]))
    for _ in range(n):
        role = r.pick(roles)
        k = r.weighted([("wait", 10), ("keepalive", 5), ("update", 3), ("update-sent", 3), ("rr", 1), ("open", 1),
                        ("notification", 1), ("disconnected", 1), ("connected", 1), ("admin-shutdown", 1)])
        if k == "wait":
            evs.append("(A (wait %d))" % waits())
        elif k == "rr":
            evs.append("(%s (route-refresh 1))" % role)
        elif k == "open":
            evs.append(open_ev(role))
        elif k == "notification":
            evs.append("(%s (notification 6 2))" % role)
        elif k == "connected":
            evs.append("(%s (connected f))" % role)
        else:
            evs.append("(%s %s)" % (role, k))
    return "(case (cfg %d 65001 %d 65002) (evs %s))" % (local_rid, local_hold, " ".join(evs))


def gen_wire(r):
    """Driver-level case: real sessions on loopback TCP (harness/daemon/rig.rs), model Rbgp/Fsm/Wire.lean."""
    local_hold = r.pick([0, 3, 9, 30, 90, 90, 240, 65535])
    remote_hold = r.pick([0, 3, 9, 30, 30, 90, 65535])
    neg = min(local_hold, remote_hold)
    local_rid = r.pick([16777217, 167772161])
    remote_rid = 33686018
    expected = r.pick([0, 65002, 65002])
    roles = ["P"] if r.chance(1, 2) else (["A"] if r.chance(1, 2) else ["A", "P"])
    evs = []
    for role in roles:
        evs.append("(%s connect)" % role)
    for role in roles:
        if r.chance(9, 10):
            evs.append("(%s (open 65002 %d %d))" % (role, remote_hold, remote_rid))
            if r.chance(8, 10):
                evs.append("(%s keepalive)" % role)
    acts = [("keepalive", 4), ("update", 3), ("update-looped", 4), ("update-attrs", 3), ("update-withdraw", 1), ("eor", 1),
            ("route-refresh", 2), ("hold-timer", 1), ("hold-timer+keepalive", 1), ("notification", 1), ("close", 1),
            ("admin-shutdown", 1), ("connect", 2), ("open", 1), ("badopen", 1), ("reset", 1), ("bfd-down", 1)]
    if neg != 0:
        acts.append(("ka-timer", 3))
    for _ in range(r.below(r.pick([3, 6, 10]))):
        role = r.pick(roles) if r.chance(5, 6) else r.pick(["A", "P"])
        k = r.weighted(acts)
        if k == "notification":
            evs.append("(%s (notification 6 2))" % role)
        elif k == "open":
            evs.append("(%s (open 65002 %d %d))" % (role, remote_hold, remote_rid))
        elif k == "badopen":
            evs.append("(%s (open %d %d %d))" % (role, r.pick([65002, 65003]), r.pick([1, 2, remote_hold]),
                                                 r.pick([0, remote_rid, 3758096385])))
        else:
            evs.append("(%s %s)" % (role, k))
    return "(wire (cfg %d 65001 %d %d) (evs %s))" % (local_rid, local_hold, expected, " ".join(evs))


def gen(seed, n, tier):
    r = Rng(seed * 1000003 + 8)
    out = []
    for _ in range(n):
        k = r.below(300)
        if k < 12:
            out.append(gen_wire(r))       # ~0.4 s of real time each: kept rare
        elif k < 36:
            out.append(gen_probe(r))
        else:
            out.append(gen_case(r))
    return out
