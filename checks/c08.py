from common import Rng

CONFIG = dict(
    claimed=False, na_reason="proofs in progress (model, spec, correspondence and oracle already run; see checks/c08.py)",
    lean_modules=["Rbgp.Fsm.TimedProps"],
    theorems=[
        "Rbgp.Fsm.TimedProps.check_run_ok",
        "Rbgp.Fsm.TimedProps.negotiated_min",
        "Rbgp.Fsm.TimedProps.keepalive_third",
        "Rbgp.Fsm.TimedProps.hold_deadline_invariant",
        "Rbgp.Fsm.TimedProps.zero_disables",
    ],
    harness=dict(kind="daemon", test="fsm::verif_fsm::verif_main"),
    profiles=["debug"],
    n_quick=3000, n_thorough=150000, shards=12,
    nontrivial_re=r"\(fired \(",
    rule="timed histories (message arrivals, sends, passage of virtual time) through OpenSent/OpenConfirm/Established on both "
         "roles; local and remote hold times from {0,3,9,30,90,240,65535}; waits chosen around the keepalive and hold "
         "deadlines (deadline-1, deadline, deadline+1); non-trivial = at least one timer fired; distinct = distinct case line",
    expect_tokens=["hold-expired", "(fired (", "ka ", "established"],
    trusted_base=["model Rbgp/Fsm/Timed.lean of the timer bookkeeping in PeerSession::apply_outputs / run_select",
                  "harness/daemon/fsm.rs run_case_c08 keeps the two timer slots per task on a virtual clock (transcribed "
                  "from apply_outputs); that tokio::time::sleep(n) completes n seconds later is assumed"],
    modelled_not_verified=["wall-clock accuracy of tokio sleeps", "FuturesUnordered polling order beyond hold-before-keepalive"],
    assumptions=["timers fire exactly at their deadline on a virtual clock in whole seconds"],
)

HOLDS = [0, 0, 3, 9, 30, 90, 240, 65535]


def gen_case(r):
    local_hold = r.pick(HOLDS)
    remote_hold = r.pick(HOLDS)
    neg = min(local_hold, remote_hold)
    local_rid = r.pick([1, 167772161])
    remote_rid = 33686018
    evs = []
    roles = ["A"] if r.chance(2, 3) else ["A", "P"]
    def waits():
        cands = [0, 1, 2, 5]
        if neg:
            cands += [neg // 3 - 1, neg // 3, neg // 3 + 1, neg - 1, neg, neg + 1, 2 * neg, neg - neg // 3]
        cands += [239, 240, 241, 300]
        return max(0, r.pick(cands))
    for role in roles:
        evs.append("(%s (connected f))" % role)
        if r.chance(1, 6):
            evs.append("(A (wait %d))" % waits())
    for role in roles:
        if r.chance(9, 10):
            evs.append("(%s (open 65002 %d %d))" % (role, remote_hold, remote_rid))
            if r.chance(1, 3):
                evs.append("(A (wait %d))" % waits())
            if r.chance(9, 10):
                evs.append("(%s keepalive)" % role)
    n = r.below(r.pick([4, 10, 25]))
    for _ in range(n):
        role = r.pick(roles)
        k = r.weighted([("wait", 10), ("keepalive", 5), ("update", 3), ("update-sent", 3), ("rr", 1), ("open", 1),
                        ("notification", 1), ("disconnected", 1), ("connected", 1), ("admin-shutdown", 1)])
        if k == "wait":
            evs.append("(A (wait %d))" % waits())
        elif k == "rr":
            evs.append("(%s (route-refresh 1))" % role)
        elif k == "open":
            evs.append("(%s (open 65002 %d %d))" % (role, remote_hold, remote_rid))
        elif k == "notification":
            evs.append("(%s (notification 6 2))" % role)
        elif k == "connected":
            evs.append("(%s (connected f))" % role)
        else:
            evs.append("(%s %s)" % (role, k))
    return "(case (cfg %d 65001 %d 65002) (evs %s))" % (local_rid, local_hold, " ".join(evs))


def gen(seed, n, tier):
    r = Rng(seed * 1000003 + 8)
    return [gen_case(r) for _ in range(n)]
