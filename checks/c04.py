import hashlib, os, subprocess, tempfile
from common import Rng

# the harness build that ./check uses (a scratch copy of the repo selected with VERIF_REPO gets its own directory)
_REPO = os.environ.get("VERIF_REPO", "/repo")
PT = "/verif/.build/pt" + ("" if _REPO == "/repo" else "-alt" + hashlib.sha1(_REPO.encode()).hexdigest()[:6])

THEOREMS = [
    "check_run_ok", "negotiate_agrees", "codecs_mirror", "encode_lengths_consistent", "encode_frame_bound", "fitLoop_is_fitN",
    "put_entries_progress", "encode_frame_bound_all", "encode_never_drops", "chunks_partition_entries",
    "encodeLoop_is_chunks", "roundtrip_update", "roundtrip_open", "roundtrip_small", "roundtrip_keepalive",
    "roundtrip_refresh", "roundtrip_notification", "as4_roundtrip", "decode_encode_fixed_point",
    "decode_encode_fixed_point_frame", "as4_roundtrip_full_false", "check_run_full_false", "witness_nexthop",
    "witness_confed_tail", "dom_examples_multiframe", "two_octet_peer_example", "flowspec_len_roundtrip", "flowspec_nlri_framed", "flowspec_len_4096", "two_octet_attributes_roundtrip",
    "two_octet_attribute_block", "label_stack_roundtrip", "vpn_nlri_roundtrip", "labeled_nlri_roundtrip",
    "labeled_withdraw_roundtrip", "label_nlri_too_long", "flowspec_op_roundtrip", "flowspec_rule_roundtrip",
    "flowspec_rule_too_long", "evpn_nlri_roundtrip", "nlri_codecs_roundtrip", "struct_entries_decode_as_sent",
    "nlri_codec_examples", "nlri_codec_examples_wf", "repaired_dropped", "repaired_refused", "repaired_open", "repaired_partial", "repaired_confed",
    "repaired_notification",
]

THEOREM_BACKED = ["OPEN + all capability kinds (block <= 253 bytes)", "NOTIFICATION", "KEEPALIVE", "ROUTE-REFRESH",
                  "End-of-RIB (any negotiated family)",
                  "UPDATE Unreach IPv4/IPv6 unicast+multicast: legacy and MP_UNREACH_NLRI, add-path on/off, both frame limits, any "
                  "encodable input (no further size side condition)",
                  "UPDATE Reach IPv4/IPv6 unicast+multicast: legacy (NEXT_HOP) and MP_REACH_NLRI "
                  "(IPv6 / link-local / RFC 8950 next hop), all attribute kinds of Attribute::decode, add-path on/off, on "
                  "4-octet-AS sessions AND towards 2-octet-AS peers (whole messages: AS_PATH / AGGREGATOR down-conversion, "
                  "AS4_PATH / AS4_AGGREGATOR, the peer's attribute loop + reconcile_as4, splitting, fixed point: master theorem; "
                  "two_octet_attributes_roundtrip, two_octet_attribute_block) - with the two RFC 6793 protocol limits as explicit "
                  "hypotheses (Carriable / carriableB: a confederation segment that is not leading, a wide AS inside a confederation "
                  "segment; witness_confed_tail, known findings F4e3 / F4e4)",
                  "AS_PATH 2-byte downgrade + AS4_PATH + reconciliation incl. leading confederation segments (as4_roundtrip, function "
                  "level, exact condition = what RFC 6793 can carry)",
                  "PeerCodec::negotiate vs the RFC reading of simple capability sets (negotiate_agrees; also re-checked by the "
                  "oracle on every generated case), mirror property of the two codecs",
                  "NLRI codecs of VPN-IPv4/IPv6 (RFC 4364/4659: label stack of any depth, the three RD types, prefix), labeled "
                  "unicast IPv4/IPv6 (RFC 8277: label stack; withdrawal with the compatibility field 0x800000), Flow "
                  "Specification IPv4/IPv6 and their VPN forms (RFC 8955/8956: prefix components incl. the IPv6 offset, "
                  "operator/value lists with 1/2/4/8-octet values and recomputed length bits, any number of components, both "
                  "forms of the length field, the RD) and EVPN route types 1-5 (RFC 7432 7.1-7.4, RFC 9136): modelled encoder "
                  "AND decoder, decode . encode = id on every well-formed value, refusal beyond the one-octet bit count / the "
                  "12-bit rule length (function level: vpn_nlri_roundtrip, labeled_nlri_roundtrip, labeled_withdraw_roundtrip, "
                  "flowspec_op_roundtrip, flowspec_rule_roundtrip, evpn_nlri_roundtrip, nlri_codecs_roundtrip, "
                  "label_nlri_too_long, flowspec_rule_too_long; struct_entries_decode_as_sent: in the model run such entries "
                  "decode as sent by the modelled codec, no measurement involved; nlri_codec_examples: the model writes the "
                  "octets pinned in the corpus). The harness reads the structure of every such NLRI off the Rust value through "
                  "public fields and puts it into the case, so the model's octets are compared with the real encoder's on "
                  "every generated entry of these 11 families",
                  "chunk loop, for EVERY input (all families, all message kinds, both profiles): every frame do_encode returns is "
                  "within the negotiated maximum (encode_frame_bound_all), put_entries never returns a zero count for a non-empty "
                  "list (put_entries_progress), and whenever encode_to returns Ok the per-frame counts partition the entry list "
                  "(encode_never_drops)"]
HYPOTHESIS_BACKED = ["UPDATEs of the families outside IPv4/IPv6 unicast+multicast as WHOLE messages: the master theorem does not range "
                     "over them. What holds for them by theorem: every frame within the negotiated maximum, progress, the per-frame "
                     "counts partition the entry list (chunk-loop theorems, every family), and - for VPN-IPv4/IPv6, labeled unicast, "
                     "flowspec(+VPN) and EVPN - the NLRI codec round trip at function level. What connects the two is checked per case, "
                     "not proved: the structural oracle (frame bound, length consistency, byte-level partition of the NLRI region into "
                     "the entries' encodings, decode-back equality by the REAL decoder, fixed point) and the assumption that the "
                     "decoder of an MP_REACH/MP_UNREACH region is the concatenation of the per-NLRI decoders (Run.combineProbes)",
                     "NLRI encoders/decoders of BGP-LS, MUP v4/v6, SR-policy v4/v6, RTC, and EVPN route types other than 1-5 "
                     "(the Rust type has none): not modelled; wire bytes and per-entry decode verdict are measured on the real code "
                     "(probe) and passed in the case; framing/chunking around them is the modelled code; judged by the structural "
                     "oracle. Corpus seed-families-embedded-probes.case pins the wire bytes of every family",
                     "Flow Specification, additionally: the oracle checks on every flowspec entry that the real wire bytes are a "
                     "well-framed length + rule in the form RFC 8955 4.1 prescribes; rule bodies of exactly 238..242, 254..257, 4094, "
                     "4095 and 4096 octets and operator values at the 1/2/4/8-octet boundaries are generated every run. The codec "
                     "theorems are about rules as the decoder returns them (FComp.Wf: operator lists non-empty, end-of-list bit on the "
                     "last operator only, no length bits in `bits`, prefix bits beyond the mask zero); other inputs are encoded by "
                     "model and real code alike but are outside the round-trip statement",
                     "Whether an NLRI is encodable at all is decided from the INPUT (structWire / Codec.hasWireForm: label-stack bits "
                     "<= 255, rule <= 4095 octets), not by the probe: a refused valid NLRI is the failure `valid-entry-refused`"]

CONFIG = dict(
    level_text="Kernel-checked Lean theorems about a hand-written model of the BGP encoder (PeerCodec::negotiate, encode_to / "
               "do_encode chunk loop with put_entries (NLRI fitted by their encoded length) and the final size check, "
               "mp_reach/mp_unreach_encode, Attribute::encode with the 2-byte-AS downgrade, Capability::encode with its one-octet "
               "length checks) and of the peer's decoder: the master theorem "
               "(the C04 reference checker - framing, negotiated maximum, length-field consistency, decoded (prefix, path-id) "
               "multiset, next hop, attributes up to the extended-length flag, fixed-point probe - accepts every model run on a "
               "decidable domain, in the debug and the release arithmetic profile), unconditional theorems about the chunk loop "
               "(every frame within the negotiated maximum; no frame without progress; encode_to Ok => the per-frame counts "
               "partition the entry list, for every input), OPEN/NOTIFICATION/KEEPALIVE/ROUTE-REFRESH/EoR round trips, "
               "the AS4 round trip with its exact condition, and kernel-evaluated witnesses for what the domain excludes and for "
               "the repaired defects (now accepted / refused with Err). "
               "The model is tied to packet/src/bgp.rs by running the real encoder + the real peer decoder and the model on the "
               "same generated cases in debug and release builds and diffing byte streams and decoded values; the reference "
               "checker is the oracle on the real outputs (it found 17 defect signatures that were repaired; 4 signatures stay "
               "recorded: the IPv4-next-hop padding in MP_REACH and two RFC 6793 protocol limitations).",
    level_note="Trusted: Lean kernel; axioms propext/Classical.choice/Quot.sound; the hand-written model and reader (checked "
               "only by the correspondence stream); harness glue (case construction incl. attributes obtained through the real "
               "decoder, rendering). Master-theorem domain = buildable+encodable messages; UPDATEs of IPv4/IPv6 "
               "unicast/multicast (incl. multi-frame ones, kernel-evaluated examples dom_examples_multiframe); announcements on "
               "4-octet-AS sessions and towards 2-octet-AS peers (there: AS_PATH within what RFC 6793 can carry; example "
               "two_octet_peer_example), "
               "without the padded IPv4 next hop inside MP_REACH (F4d; IPv4 multicast with its as-is IPv4 next hop is inside). VPN / labeled-unicast / flowspec / EVPN NLRI: "
               "codec theorems at function level (NStruct.Wf), whole messages of these families by oracle + correspondence only. "
               "Modelled, not verified: BGP-LS, MUP, SR-policy, RTC NLRI (probe-parameterised, impl-only oracle), BytesMut growth, "
               "Family reserved octet.",
    lean_modules=["Rbgp.Enc.Props"],
    theorems=["Rbgp.Enc.Props." + t for t in THEOREMS],
    harness=dict(kind="pt", bin="c04"),
    profiles=["debug", "release"],
    profile_in_case=True,
    n_quick=2500, n_thorough=40000, shards=12,
    nontrivial_re=r"\(obs [0-9]+ x[0-9a-f]{60,}",
    rule="one case = (local capability set, remote capability set, message); the real encode_to output (all frames) and what "
         "the real peer codec negotiate(remote, local) decodes from it, plus the re-encode/decode fixed-point probe, are "
         "compared with the model byte for byte in debug and release builds; the oracle is run on the real observation. "
         "Generator: all message kinds; IPv4/IPv6 unicast+multicast plus 15 further families (11 of them with a modelled NLRI "
         "codec: the case carries the NLRI's structure and the model encodes/decodes it itself; 4 probe-only); entry counts 0..3x frame "
         "capacity around the frame boundaries (4096 and 65535); attribute blocks 0..limit incl. just below/above what leaves "
         "room for one NLRI; all pairs of (4-octet AS, extended message, add-path mode 0-3, extended next hop) per side; AS paths "
         "with 255-AS segments, >255 hops, wide AS, confed segments; attributes stored with EXTENDED/PARTIAL bits (values "
         "obtained through the real decoder); OPEN capability blocks around 255 bytes; non-trivial = at least one frame "
         "longer than the fixed header was produced; distinct = distinct case line",
    expect_tokens=["(err)", "(fp t)"] + ["(r %d %d " % f for f in
                   [(1, 128), (2, 128), (1, 4), (2, 4), (1, 132), (1, 73), (2, 73), (1, 85), (2, 85), (1, 133), (2, 133),
                    (1, 134), (2, 134), (25, 70), (16388, 71), (1, 2), (2, 2)]] + ["(u %d %d " % f for f in
                   [(1, 128), (2, 128), (1, 4), (2, 4), (1, 132), (1, 85), (2, 85), (1, 133), (2, 133), (25, 70), (16388, 71)]] + [ "(fp na)", "(eor ", "(open ",
                   "(notif ", "keepalive", "(rr ", "(upd (r 1 1 ", "(upd none (r 2 1 ", "(upd none (r 1 1 ", "(v6ll ", "(o ",
                   "none none (u 1 1 ", "none none none (u 2 1 ", "(errs (", "(opq "],
    trusted_base=["model Rbgp/Enc/Model.lean (encoder) and Rbgp/Enc/Reader.lean (peer decoder, written from RFC 4271/4760/7911/"
                  "6793/5492 and aligned with parse_message on encoder-producible frames) of packet/src/bgp.rs",
                  "harness/pt/src/bin/c04.rs + src/c04_fam.rs: builds Message values through the public constructors (and `raw` "
                  "attributes through the real decoder), renders ParsedMessage through public accessors; for the families "
                  "outside IPv4/IPv6 the NLRI values come from deterministic constructors; their wire bytes / decode verdicts are "
                  "probes measured on the same build and, for VPN / labeled unicast / flowspec / EVPN, their structure (labels, RD, "
                  "prefix, components, operators, route fields) is read off the value through public fields (struct_term)",
                  "spec Rbgp/Enc/Spec.lean: `buildable` (what the daemon can build) delimits the quantifier; `encodable` (every entry "
                  "fits a frame of its own by the RFC wire sizes, capability block within its one-octet lengths, every NLRI has a "
                  "wire form) decides whether a refusal (Err) is the required or a forbidden outcome; canonicalisation = "
                  "extended-length flag, FQDN lower-casing, NOTIFICATION data cut to the negotiated maximum"],
    modelled_not_verified=["announcements towards a 2-octet-AS peer whose AS_PATH hits an RFC 6793 limit (confederation segment not "
                           "leading / wide AS inside one): model + correspondence, outside the theorem by hypothesis", "whole UPDATEs of VPN / labeled-unicast / flowspec / EVPN: NLRI codec proved at function level, chunk loop proved for "
                           "every family, their composition with the peer's MP attribute parser only checked per case (see assumptions)",
                           "BGP-LS, MUP, SR-policy, RTC NLRI: not modelled (probes)",
                           "BytesMut growth/reserve, the tokio Framed adapter",
                           "daemon/src/event/mod.rs flush_tx (Err => log + skip the message, sync_tx counting, the txbuf flush "
                           "threshold) and PendingTx::drain_messages (grouping prefixes into messages): daemon code that no C04 "
                           "harness executes; the property is checked at PeerCodec::encode_to", "non-ASCII FQDN strings, the reserved octet of "
                           "Family(u32) in MP capabilities", "`withdrawn_len as u16` / `mp_len as u16` casts (cannot truncate: the loop "
                           "keeps the frame within the maximum; modelled with the truncation)"],
    assumptions=["theorem_backed: " + "; ".join(THEOREM_BACKED), "hypothesis_backed: " + "; ".join(HYPOTHESIS_BACKED),
                 "RFC 8950 is read per (AFI, SAFI): an IPv4-AFI family may carry an IPv6 next hop only if both sides listed that "
                 "family; IPv4 unicast travels in MP_REACH/MP_UNREACH iff the tuple (1,1) is in force (mirrors FamilyState / "
                 "PeerCodec::extended_nexthop(Family::IPV4) of the per-family negotiate)",
                 "buildable messages: UPDATEs carry at least one route, distinct attribute codes, none of NEXT_HOP/MP_REACH/MP_UNREACH/AS4_PATH/AS4_AGGREGATOR in the "
                 "attribute list (the encoder synthesises them), attribute contents as Attribute::decode guarantees, ORIGIN and "
                 "AS_PATH present, path-id 0 without add-path, family negotiated, simple capability sets (no duplicate MP / "
                 "add-path / ext-nexthop tuples)"],
    theorem_backed=THEOREM_BACKED,
    hypothesis_backed=HYPOTHESIS_BACKED,
    claimed=True,
)

# ------------------------------------------------------------------------------------------------ families
V4, V6 = (1, 1), (2, 1)
IPFAMS = [V4, V6, (1, 2), (2, 2)]
# impl-only (exploration) families: (afi, safi) -> list of (kind, weight)
OPAQUE = {
    (1, 128): [(1, 8), (2, 2), (3, 1)],
    (2, 128): [(1, 8), (2, 2), (3, 1)],
    (1, 4): [(1, 8), (2, 2), (3, 1)],
    (2, 4): [(1, 8), (2, 2), (3, 1)],
    (1, 132): [(0, 1), (1, 2), (2, 4)],
    (1, 73): [(0, 1), (1, 1)],
    (2, 73): [(0, 1), (1, 1)],
    (1, 85): [(0, 2), (1, 2), (2, 2), (3, 2), (4, 2)],
    (2, 85): [(0, 2), (1, 2), (2, 2), (3, 2), (4, 2)],
    (1, 133): [(0, 4), (1, 4), (2, 2), (3, 1), (4, 5), (5, 1)],     # 4: exact body length (see FLOW_BODY_TARGETS), 5: operator widths
    (2, 133): [(0, 4), (1, 4), (2, 2), (3, 1), (4, 5), (5, 1)],     # 4: exact body length (see FLOW_BODY_TARGETS), 5: operator widths
    (1, 134): [(0, 4), (1, 4), (2, 2), (3, 1), (4, 5), (5, 1)],     # 4: exact body length (see FLOW_BODY_TARGETS), 5: operator widths
    (2, 134): [(0, 4), (1, 4), (2, 2), (3, 1), (4, 5), (5, 1)],     # 4: exact body length (see FLOW_BODY_TARGETS), 5: operator widths
    (25, 70): [(1, 2), (2, 3), (12, 2), (22, 2), (3, 2), (13, 1), (4, 1), (14, 1), (5, 2), (15, 2)],
    (16388, 71): [(0, 2), (1, 2), (2, 2), (3, 2), (4, 2)],
}
FLOWSPEC = [(1, 133), (2, 133), (1, 134), (2, 134)]
OK_PROBE = "((o 0 t))"

# Integer-width boundary values, used in EVERY numeric domain of the generator.
AS_NARROW = [0, 1, 64512, 65001, 65002, 65534, 65535, 23456]          # fit two octets; 23456 = AS_TRANS used as a REAL AS
AS_WIDE = [65536, 65537, 70000, 131072, 4200000001, 4294967294, 4294967295]
AS_EDGE = [65534, 65535, 65536, 23456, 4294967295]
U32_EDGE = [0, 1, 255, 256, 65535, 65536, 16777215, 16777216, 2147483647, 2147483648, 4294967294, 4294967295]
LEN_EDGE = [0, 1, 254, 255, 256, 257]


def has_wire_form(fam, reach, kind, seed):
    """Mirror of Codec.hasWireForm: the only NLRI without a wire form are label stacks whose bit count exceeds 255."""
    mx = 32 if fam[0] == 1 else 128
    if fam[0] in (1, 2) and fam[1] == 128:
        return 24 * kind + 64 + seed % (mx + 1) <= 255
    if fam[0] in (1, 2) and fam[1] == 4:
        return (24 * kind + seed % (mx + 1) <= 255) if reach else True
    if fam[0] in (1, 2) and fam[1] in (133, 134) and kind == 4:
        return FLOW_BODY_TARGETS[seed % 12] <= 4095      # the flowspec NLRI length field has 12 bits
    return True


# c04_fam.rs FLOW_BODY_TARGETS: flowspec kind 4 builds a rule body of exactly this many octets (seed % 12): around the
# one-octet / two-octet length forms (240), around 255/256, and around the 12-bit limit
FLOW_BODY_TARGETS = [238, 239, 240, 241, 242, 254, 255, 256, 257, 4094, 4095, 4096]

# strings for the FQDN capability: ASCII with upper case, multi-byte UTF-8, letters whose case mapping changes the UTF-8
# length (U+0130 -> "i" + U+0307, U+212A KELVIN SIGN -> "k", U+1E9E -> U+00DF), other non-ASCII upper-case letters
NAME_PIECES = ["R", "r", "Z", "a", "-", "0", ".", "\u0130", "\u212a", "\u1e9e", "\u00c9", "\u00e9", "\u00df", "\u03a9",
               "\u0416", "\u01c5", "\u4e2d", "\U0001f600", "\U00010400"]


def gen_name(r, nbytes):
    """a well-formed UTF-8 string of exactly `nbytes` octets (as a list of octets)"""
    out = b""
    while len(out) < nbytes:
        p = r.pick(NAME_PIECES if r.chance(1, 2) else NAME_PIECES[:7]).encode("utf-8")
        if len(out) + len(p) <= nbytes:
            out += p
        else:
            out += b"x" * (nbytes - len(out))
    return list(out)


def hexs(bs):
    return "x" + "".join("%02x" % b for b in bs)


# ------------------------------------------------------------------------------------------------ probes
class Prober:
    """Asks both harness binaries for the (ENC DEC) probe of opaque NLRI values; caches results."""
    def __init__(self):
        self.cache = {}

    def ask(self, items):
        todo = [it for it in dict.fromkeys(items) if it not in self.cache]
        if not todo:
            return
        res = {}
        for prof in ("debug", "release"):
            exe = os.path.join(PT, prof, "c04")
            if not os.path.exists(exe):
                res[prof] = None
                continue
            with tempfile.TemporaryDirectory(dir="/verif/.build") as td:
                ip, op = os.path.join(td, "i"), os.path.join(td, "o")
                with open(ip, "w") as f:
                    for (afi, safi, reach, kind, seed) in todo:
                        f.write("%d %d %s %d %d\n" % (afi, safi, "reach" if reach else "unreach", kind, seed))
                subprocess.run([exe, "probe", ip, op], check=True)
                res[prof] = [l.rstrip("\n") for l in open(op)]
        for k, it in enumerate(todo):
            d = res["debug"][k] if res["debug"] else None
            r = res["release"][k] if res["release"] else d
            if d is None:
                d = r
            self.cache[it] = (d, r)

    def get(self, it):
        return self.cache.get(it)


PROBER = Prober()


# ------------------------------------------------------------------------------------------------ capabilities
def gen_caps(r, fams, must, want_as4, want_em, ap_mode, enh, noise=True):
    caps = []
    for f in fams:
        caps.append("(mp %d %d)" % f)
    for f in must:
        if f not in fams:
            caps.append("(mp %d %d)" % f)
    if noise and r.chance(1, 3):
        caps.append("rr")
    if want_as4:
        caps.append("(as4 %d)" % r.pick([65001, 65002, 4200000001, 23456] + AS_EDGE))
    if want_em:
        caps.append("em")
    aps = [(f, ap_mode(f)) for f in list(fams) + [m for m in must if m not in fams]]
    aps = [(f, m) for f, m in aps if m]
    if aps:
        caps.append("(ap %s)" % " ".join("(%d %d %d)" % (f[0], f[1], m) for f, m in aps))
    if enh:
        caps.append("(enh %s)" % " ".join("(%d %d 2)" % f for f in enh))
    if noise and r.chance(1, 6):
        caps.append("(gr %d %d%s)" % (r.below(16), r.below(4096), "".join(" (%d %d %d)" % (f[0], f[1], r.pick([0, 128])) for f in fams[:3])))
    if noise and r.chance(1, 10):
        caps.append("(llgr%s)" % "".join(" (%d %d %d %d)" % (f[0], f[1], r.pick([0, 128]), r.below(1 << 24)) for f in fams[:3]))
    if noise and r.chance(1, 8):
        if r.chance(1, 2):
            caps.append("(fqdn %s %s)" % (hexs(b"Router-" + bytes([65 + r.below(26)])), hexs(b"Example.NET"[: r.below(12)])))
        else:
            caps.append("(fqdn %s %s)" % (hexs(gen_name(r, r.below(20))), hexs(gen_name(r, r.below(12)))))
    if noise and r.chance(1, 10):
        caps.append("err")
    if noise and r.chance(1, 12):
        caps.append("(unk %d %s)" % (r.pick([3, 66, 67, 128, 200]), hexs([r.below(256) for _ in range(r.below(5))])))
    return caps


def cap_pair(r, fam, force=None):
    """Capability sets of both sides; `fam` is (almost always) negotiated."""
    force = force or {}
    others = [f for f in IPFAMS + [(1, 128), (2, 128), (1, 4)] if f != fam]
    lf = [fam] if r.chance(49, 50) else []
    rf = [fam] if r.chance(49, 50) else []
    for f in others:
        if r.chance(1, 4):
            lf.append(f)
        if r.chance(1, 4):
            rf.append(f)
    r.chance(1, 2) and lf.reverse()
    apl = force.get("apl", r.pick([0, 0, 1, 2, 3, 3]))
    apr = force.get("apr", r.pick([0, 0, 1, 2, 3, 3]))
    as4l = force.get("as4l", r.chance(3, 4))
    as4r = force.get("as4r", r.chance(3, 4))
    eml = force.get("eml", r.chance(1, 3))
    emr = force.get("emr", r.chance(1, 3))
    # RFC 8950 tuples: each side lists its own subset of the IPv4-AFI families (independently, so that "negotiated for
    # family X" and "negotiated for some family" differ); `enh` forces the tuple of `fam` on a side
    def enh_list(fs, forced):
        if forced is False:
            return []
        out = [f for f in fs if f[0] == 1 and (r.chance(1, 2) or (forced and f == fam))]
        return out
    fl, fr_ = force.get("enhl"), force.get("enhr")
    enh_l = enh_list(lf, fl if fl is not None else (True if r.chance(1, 4) else (None if r.chance(1, 5) else False)))
    enh_r = enh_list(rf, fr_ if fr_ is not None else (True if r.chance(1, 4) else (None if r.chance(1, 5) else False)))
    loc = gen_caps(r, lf, [], as4l, eml, lambda f: apl if (f == fam or r.chance(1, 2)) else 0, enh_l)
    rem = gen_caps(r, rf, [], as4r, emr, lambda f: apr if (f == fam or r.chance(1, 2)) else 0, enh_r)
    both = set(enh_l) & set(enh_r)
    info = dict(ap=(fam in lf and fam in rf and apl & 2 and apr & 1), em=(eml and emr), two=not (as4l and as4r),
                enh=(fam in both and fam in lf and fam in rf), enh4=(V4 in both and V4 in lf and V4 in rf),
                neg=(fam in lf and fam in rf))
    return loc, rem, info


# ------------------------------------------------------------------------------------------------ attributes
def gen_aspath(r, two):
    segs = []
    style = r.weighted([("short", 10), ("empty", 2), ("long", 3), ("huge", 1), ("confed", 2), ("wide", 6 if not two else 12),
                        ("set", 2), ("emptyseg", 1), ("edge", 3)])
    def asn(wide):
        if wide:
            return r.pick(AS_WIDE)
        return r.pick(AS_NARROW)
    if style == "emptyseg" and r.chance(3, 4):
        style = "short"          # a zero-length segment is malformed (RFC 7606): outside the quantifier, keep it rare
    if style == "empty":
        return "(asp)"
    if style == "emptyseg":
        segs.append("(%d)" % r.pick([1, 2]))
        segs.append("(2 %s)" % " ".join(str(asn(r.chance(1, 3))) for _ in range(1 + r.below(3))))
    if style == "edge":
        # segment counts / attribute lengths at the one-octet boundary (2-octet form: 2 + 2n, 4-octet form: 2 + 4n bytes),
        # AS numbers at the 16-bit boundary
        n = r.pick([62, 63, 64, 126, 127, 128, 254, 255])
        segs.append("(segr 2 %d %d %d)" % (n, r.pick([65534 - n // 2, 65535, 65536, 23456, 1]), r.pick([0, 1])))
        if r.chance(1, 2):
            segs.append("(%d %s)" % (r.pick([1, 2]), " ".join(str(r.pick(AS_EDGE)) for _ in range(1 + r.below(3)))))
    if style == "short":
        segs.append("(2 %s)" % " ".join(str(asn(False)) for _ in range(1 + r.below(4))))
    elif style == "wide":
        segs.append("(2 %s)" % " ".join(str(asn(r.chance(1, 2))) for _ in range(1 + r.below(5))))
        if r.chance(1, 3):
            segs.append("(1 %s)" % " ".join(str(asn(r.chance(1, 2))) for _ in range(1 + r.below(3))))
    elif style == "set":
        segs.append("(2 %d)" % asn(False))
        segs.append("(1 %s)" % " ".join(str(asn(False)) for _ in range(1 + r.below(3))))
    elif style == "long":
        segs.append("(segr 2 255 %d %d)" % (r.pick([1, 64000, 65400, 70000]), r.pick([0, 1, 7])))
        if r.chance(1, 2):
            segs.append("(segr 2 %d %d 1)" % (1 + r.below(255), r.pick([1, 65530])))
    elif style == "huge":
        for _ in range(2 + r.below(3)):
            segs.append("(segr 2 255 %d %d)" % (r.pick([1, 65400, 70000]), r.pick([0, 1])))
    elif style == "confed":
        # leading confederation segments (RFC 5065); rarely what RFC 6793 cannot carry to a 2-byte peer:
        # a wide AS inside the confederation segment, a confederation segment behind a sequence
        wide_member = r.chance(1, 8)
        segs.append("(3 %s)" % " ".join(str(asn(wide_member)) for _ in range(1 + r.below(3))))
        if r.chance(1, 3):
            segs.append("(4 %d)" % asn(False))
        segs.append("(2 %s)" % " ".join(str(asn(r.chance(1, 4))) for _ in range(1 + r.below(3))))
        if r.chance(1, 8):
            segs.append("(3 %d)" % asn(False))
    return "(asp %s)" % " ".join(segs)


def gen_attrs(r, info, big_target=None):
    """Attribute list (strings).  Mostly well-formed and complete; a few deliberately odd ones.
    `raw` forms are values obtained through the real decoder (stored EXTENDED / PARTIAL bits, the 6-byte AGGREGATOR)."""
    attrs = []

    def fixed(code, canon, val, nbytes):
        """a fixed-size attribute: constructor form or (1 in 6) decoded from the wire with the canonical / EXTENDED flags"""
        if r.chance(5, 6):
            return "(val %d %d)" % (code, val)
        return "(raw %d %d %s)" % (r.pick([canon, canon | 16]), code, hexs(list(val.to_bytes(nbytes, "big"))))

    attrs.append(fixed(1, 64, r.below(3), 1) if r.chance(19, 20) else "(raw 96 1 x%02x)" % r.below(3))
    if r.chance(11, 12):
        attrs.append("(bin 2 %s)" % gen_aspath(r, info["two"]))
    else:
        attrs.append("(raw %d 2 %s)" % (r.pick([64, 80]), r.pick(["x", "x02020000fde900011170", "x0301000000010201000000020101fffffffe"])))
    if r.chance(1, 2):
        attrs.append(fixed(4, 128, r.pick([0, 1, 100, 4294967295] + U32_EDGE), 4))
    if r.chance(1, 2):
        attrs.append(fixed(5, 64, r.pick([0, 100, 200, 4294967295] + U32_EDGE), 4))
    if r.chance(1, 6):
        attrs.append("(bin 6 x)" if r.chance(3, 4) else "(raw %d 6 x)" % r.pick([64, 80]))
    # AGGREGATOR: more often towards a 2-octet-AS peer (the RFC 6793 down-conversion / AS4_AGGREGATOR / "ignore AS4_PATH"
    # rule), AS numbers at the 16-bit boundary and AS_TRANS as a real AS, independently of the AS_PATH's width
    if r.chance(1, 2) if info["two"] else r.chance(1, 4):
        asn = r.pick([65001, 70000, 4200000001] + AS_EDGE + AS_EDGE)
        ip = [192, 0, 2, r.below(256)]
        form = r.pick(["bin", "bin", "raw", "rawp", "raw6"])
        body = hexs(list(asn.to_bytes(4, "big")) + ip)
        if form == "raw6":
            # the 6-byte form of a 2-octet-AS speaker, as the decoder up-converts it
            attrs.append("(raw %d 7 %s)" % (r.pick([192, 224]), hexs(list(r.pick([65001, 65534, 65535, 23456, 0]).to_bytes(2, "big")) + ip)))
        else:
            attrs.append("(bin 7 %s)" % body if form == "bin" else "(raw %d 7 %s)" % (192 if form == "raw" else 224, body))
    if r.chance(1, 3):
        n = r.pick([0, 1, 2, 5, 63, 64, 65, 70])          # 252 / 256 / 260 bytes: the one-octet length boundary
        attrs.append("(bin 8 (fill %d %d))" % (4 * n, r.below(1000)))
    if r.chance(1, 6):
        attrs.append(fixed(9, 128, r.pick([1, 3232235777] + U32_EDGE), 4))
    if r.chance(1, 6):
        n = 4 * r.below(5)
        attrs.append("(bin 10 (fill %d %d))" % (n, r.below(1000)) if r.chance(3, 4)
                     else "(raw %d 10 (fill %d %d))" % (r.pick([128, 144]), n, r.below(1000)))
    if r.chance(1, 8):
        attrs.append("(bin 16 (fill %d %d))" % (8 * r.pick([r.below(40), 31, 32, 33]), r.below(1000)))
    if r.chance(1, 8):
        attrs.append("(bin 32 (fill %d %d))" % (12 * r.pick([r.below(30), 21, 22]), r.below(1000)))
    # TUNNEL_ENCAP / BGP-LS / PREFIX_SID values (opaque byte strings to the codec; > 255 bytes are common for LS)
    for code, canon in ((23, 192), (29, 128), (40, 192)):
        if r.chance(1, 10):
            n = r.pick([0, 7, 40, 254, 255, 256, 257, 300, 1200])
            if r.chance(3, 4):
                attrs.append("(bin %d (fill %d %d))" % (code, n, r.below(1000)))
            else:
                fl = r.pick([canon, canon | 16] + ([canon | 32] if canon == 192 else []))
                if n > 255:
                    fl |= 16
                attrs.append("(raw %d %d (fill %d %d))" % (fl, code, n, r.below(1000)))
    if r.chance(1, 10):
        # AIGP: one or two well-formed TLVs
        tlvs = "01000b%016x" % r.below(1 << 40) + ("" if r.chance(2, 3) else "020004aa")
        attrs.append("(bin 26 x%s)" % tlvs if r.chance(2, 3) else "(raw %d 26 x%s)" % (r.pick([128, 144]), tlvs))
    if r.chance(1, 6):
        code = r.pick([99, 100, 200, 255])
        flags = r.pick([192, 192, 224, 208, 193])
        attrs.append("(opq %d %d (fill %d %d))" % (code, flags, r.pick([0, 1, 10, 254, 255, 256, 257, 300]), r.below(1000)))
    if r.chance(1, 10):
        fl = r.pick([192, 208, 224])
        attrs.append("(raw %d %d (fill %d %d))" % (fl, r.pick([8, 16, 32]), 24 * r.below(12 if fl == 208 else 10), r.below(100)))
    if big_target is not None and big_target > 0:
        code, flags = r.pick([(98, 192), (97, 224)])
        attrs.append("(opq %d %d (fill %d %d))" % (code, flags, big_target, r.below(1000)))
    odd = r.chance(1, 30)
    if not odd:
        # distinct attribute codes (the quantifier): keep the first of each
        seen, keep = set(), []
        for a in attrs:
            w = a.split()
            code = int(w[2]) if w[0] == "(raw" else int(w[1])
            if code not in seen:
                seen.add(code)
                keep.append(a)
        attrs = keep
    else:
        # oddities (outside the quantifier; exercise the model only)
        attrs.append(r.pick(["(val 1 0)", "(bin 8 x0102)", "(val 8 5)", "(bin 7 x0001)", "(bin 2 x0201)", "(bin 3 x0a000001)", "(bin 17 x020100010000)", "(bin 3 x0a0000)",
                             "(bin 26 x010003)", "(bin 26 x0100)", "(raw 128 26 x01000400)"]))
        if r.chance(1, 2) and len(attrs) > 2:
            attrs.pop(r.below(2))
    if r.chance(1, 3):
        # keep ORIGIN / AS_PATH anywhere
        k = r.below(len(attrs))
        attrs = attrs[k:] + attrs[:k]
    return attrs


def gen_nh(r, fam, info):
    legacy = fam == V4 and not info["enh"]
    if r.chance(1, 60):
        return "none"
    v4 = "(v4 %d)" % r.pick([3232235777, 167772161, 16843009])
    g = hexs([0x20, 0x01, 0x0d, 0xb8] + [0] * 11 + [1 + r.below(200)])
    ll = hexs([0xfe, 0x80] + [0] * 13 + [1 + r.below(200)])
    v6 = "(v6 %s)" % g
    v6ll = "(v6ll %s %s)" % (g, ll if r.chance(9, 10) else hexs([0] * 16))
    if legacy:
        return v4 if r.chance(29, 30) else v6
    if fam[0] == 2:
        return r.weighted([(v6, 32), (v6ll, 16), (v4, 1)])
    if fam[0] == 1 and not info["enh"]:
        # RFC 8950: an IPv6 next hop for an IPv4-AFI family only when negotiated for that family
        return v4 if r.chance(14, 15) else r.pick([v6, v6ll])
    return r.weighted([(v6, 6), (v6ll, 2), (v4, 4)])


# ------------------------------------------------------------------------------------------------ entries
def gen_ip_entries(r, fam, info, count):
    v6 = fam[0] == 2
    out = []
    ap = info["ap"]
    remaining = count
    while remaining > 0:
        n = remaining if r.chance(2, 3) else 1 + r.below(remaining)
        if v6:
            mask = r.pick([0, 1, 8, 32, 48, 64, 64, 127, 128])
            addr = [0x20, 0x01, 0x0d, 0xb8, r.below(256)] + [r.below(256) if r.chance(1, 2) else 0 for _ in range(11)]
            pid = r.pick([1 + r.below(5)] * 6 + [255, 256, 65535, 65536, 4294967290, 4294967295]) if (ap or r.chance(1, 50)) else 0
            ps = r.below(2) if ap else 0
            if n == 1 and r.chance(1, 2):
                out.append("(v6 %s %d %d)" % (hexs(addr), mask, pid))
            else:
                out.append("(v6r %s %d %d %d %d)" % (hexs(addr), mask, pid, ps, n))
        else:
            mask = r.pick([0, 1, 8, 16, 24, 24, 25, 31, 32, 32])
            addr = r.pick([167772160, 3232235520, 2886729728, 16777216 * r.below(224)]) + r.below(1 << 16)
            pid = r.pick([1 + r.below(5)] * 6 + [255, 256, 65535, 65536, 4294967290, 4294967295]) if (ap or r.chance(1, 50)) else 0
            ps = r.below(2) if ap else 0
            if n == 1 and r.chance(1, 2):
                out.append("(v4 %d %d %d)" % (addr % (1 << 32), mask, pid))
            else:
                out.append("(v4r %d %d %d %d %d)" % (addr % (1 << 32), mask, pid, ps, n))
        remaining -= n
    return out


def pick_count(r, cap):
    """0 … 3×capacity, biased to small values and the frame boundaries."""
    return r.weighted([(0, 1), (1, 8), (2, 4), (3 + r.below(10), 8), (r.pick([254, 255, 256, 257]), 1), (max(0, cap - 3 + r.below(7)), 6),
                       (max(0, 2 * cap - 3 + r.below(7)), 3), (cap + r.below(2 * cap + 1), 3), (3 * cap, 1)])


def entry_size(fam, ap):
    return (17 if fam[0] == 2 else 5) + (4 if ap else 0)


# ------------------------------------------------------------------------------------------------ cases
def case(loc, rem, msg):
    return "(case (local %s) (remote %s) %s)" % (" ".join(loc), " ".join(rem), msg)


def gen_update(r, explore_ok=True):
    fam = r.weighted([(V4, 10), (V6, 8), ((1, 2), 1), ((2, 2), 1)])
    big = r.chance(1, 25)
    force = {}
    if not big:
        # giant frames only rarely
        if r.chance(9, 10):
            force["eml"] = False
    loc, rem, info = cap_pair(r, fam, force)
    limit = 65535 if info["em"] else 4096
    reach = r.chance(2, 3)
    target = None
    if reach:
        target = r.weighted([(None, 30), (r.below(300), 6), (limit - 200 + r.below(140), 2), (limit - 60 + r.below(70), 1),
                             (r.below(limit - 200), 4)])
    overhead = 60 + (target or 0)
    cap = max(1, (limit - min(overhead, limit - 30)) // entry_size(fam, info["ap"]))
    count = pick_count(r, cap)
    if limit == 65535 and count > 300 and not big:
        count = r.below(300)
    es = gen_ip_entries(r, fam, info, count)
    if reach:
        attrs = gen_attrs(r, info, target)
        msg = "(reach %d %d %s (attrs %s) (entries %s))" % (fam[0], fam[1], gen_nh(r, fam, info), " ".join(attrs), " ".join(es))
    else:
        msg = "(unreach %d %d (entries %s))" % (fam[0], fam[1], " ".join(es))
    return case(loc, rem, msg)


def gen_open(r):
    fams = [f for f in IPFAMS + list(OPAQUE) if r.chance(1, 3)]
    style = r.weighted([("normal", 12), ("many", 2), ("edge", 2)])
    odd = r.chance(1, 8)          # values outside the quantifier (model = impl is still compared)
    asn = r.pick([65001, 65535, 23456, 65536, 4200000001] + AS_EDGE + [1, 65537, 4294967294])
    caps = ["(mp %d %d)" % f for f in fams]
    if asn > 65535 or asn == 23456 or r.chance(1, 2):
        caps.append("(as4 %d)" % (asn if (asn > 65535 or asn == 23456) and not odd else r.pick([asn, 65001])))
    if r.chance(1, 2):
        caps.append("rr")
    if r.chance(1, 3):
        caps.append("em")
    if r.chance(1, 3):
        caps.append("err")
    if r.chance(1, 3) and fams:
        caps.append("(ap %s)" % " ".join("(%d %d %d)" % (f[0], f[1], r.pick([1, 2, 3, 3, 0, 4] if odd else [1, 2, 3, 3]))
                                         for f in fams if r.chance(2, 3)))
    if r.chance(1, 4):
        caps.append("(enh %s)" % " ".join("(%d %d %d)" % (f[0], f[1], r.pick([2, 2, 2, 1]) if odd else 2)
                                          for f in fams if f[0] == 1 or (odd and r.chance(1, 10))))
    if r.chance(1, 3):
        caps.append("(gr %d %d%s)" % (r.pick([0, 4, 8, 12, 15, 16] if odd else [0, 4, 8, 12, 15]),
                                      r.pick([0, 120, 4095, 4096] if odd else [0, 120, 4095]),
                                      "".join(" (%d %d %d)" % (f[0], f[1], r.pick([0, 128])) for f in fams if r.chance(2, 3))))
    if r.chance(1, 4):
        caps.append("(llgr%s)" % "".join(" (%d %d %d %d)" % (f[0], f[1], r.pick([0, 128]), r.pick([0, 3600, 16777215]))
                                        for f in fams if r.chance(2, 3)))
    if r.chance(1, 3):
        hl = r.pick([0, 1, 8, 64]) if style != "edge" else r.pick([120, 126, 127, 200] if odd else [100, 120, 126, 127])
        dl = r.pick([0, 11]) if style != "edge" else r.pick([120, 126, 127, 128] if odd else [100, 120, 126, 127])
        if style == "edge" and r.chance(1, 2):
            # value length 2 + h + d at the one-octet boundary / the largest block that fits an OPEN (251) / beyond
            tot = r.pick([249, 250, 251, 252, 253, 254] + ([255, 256, 300] if odd else []))
            hl = r.pick([0, 1, tot // 2, tot - 2 - 1, tot - 2])
            dl = tot - 2 - hl
        if r.chance(1, 3):
            caps.append("(fqdn %s %s)" % (hexs([r.pick([65, 97, 45, 48, 90]) for _ in range(hl)]), hexs([r.pick([66, 98, 46]) for _ in range(dl)])))
        else:
            caps.append("(fqdn %s %s)" % (hexs(gen_name(r, hl)), hexs(gen_name(r, dl))))
    if r.chance(1, 4):
        n = r.below(6) if style != "edge" else r.pick([200, 254, 255])
        caps.append("(unk %d %s)" % (r.pick([3, 66, 128]), hexs([r.below(256) for _ in range(n)])))
    if style == "many":
        # capability block around and beyond 255 bytes
        allf = IPFAMS + list(OPAQUE) + [(25, 70), (16388, 71), (1, 133), (2, 133), (1, 134), (2, 134)]
        k = r.pick([8, 12, 16, 19])
        caps += ["(mp %d %d)" % f for f in allf[:k]]
        caps.append("(ap %s)" % " ".join("(%d %d 3)" % f for f in allf[:k]))
        if r.chance(1, 2):
            caps.append("(gr 8 120%s)" % "".join(" (%d %d 128)" % f for f in allf[:k]))
        if r.chance(1, 2):
            caps.append("(llgr%s)" % "".join(" (%d %d 128 3600)" % f for f in allf[:k]))
    r.chance(1, 3) and caps.reverse()
    hold = r.pick([0, 3, 90, 180, 65535])
    rid = r.pick([1, 16843009, 3232235777, 4294967294, 3758096383])
    if odd and r.chance(1, 4):
        rid = r.pick([0, 4294967295, 3758096385])
    loc, rem, _ = cap_pair(r, V4)
    return case(loc, rem, "(open %d %d %d %s)" % (asn, hold, rid, " ".join(caps)))


NOTIFS = [(1, 2), (1, 3), (2, 0), (2, 1), (2, 2), (2, 3), (2, 4), (2, 6), (2, 7), (3, 1), (3, 2), (3, 3), (3, 4), (3, 5), (3, 6),
          (3, 8), (3, 9), (3, 10), (3, 11), (4, 0), (5, 0), (5, 3), (6, 1), (6, 2), (6, 4), (6, 9), (7, 1), (6, 10), (9, 9), (3, 7), (1, 1)]
WITH_DATA = {(1, 2), (1, 3), (2, 1), (2, 4), (2, 7), (2, 6), (3, 2), (3, 3), (3, 4), (3, 5), (3, 6), (3, 8), (7, 1), (6, 10), (9, 9), (3, 7), (1, 1)}


def gen_small(r):
    loc, rem, info = cap_pair(r, r.pick([V4, V6]))
    k = r.weighted([("notif", 5), ("keepalive", 1), ("rr", 2), ("eor", 3)])
    if k == "keepalive":
        return case(loc, rem, "keepalive")
    if k == "rr":
        f = r.pick(IPFAMS + list(OPAQUE) + [(65535, 255), (0, 0)])
        return case(loc, rem, "(rr %d %d)" % f)
    if k == "eor":
        f = r.pick(IPFAMS + [V4, V6, (1, 128)])
        if r.chance(3, 4):
            loc.append("(mp %d %d)" % f) if ("(mp %d %d)" % f) not in loc else None
            rem.append("(mp %d %d)" % f) if ("(mp %d %d)" % f) not in rem else None
        return case(loc, rem, "(eor %d %d)" % f)
    c, s = r.pick(NOTIFS)
    limit = 65535 if info["em"] else 4096
    if (c, s) in WITH_DATA:
        n = r.weighted([(0, 3), (2, 3), (r.below(64), 3), (r.pick(LEN_EDGE), 1), (limit - 21 - 2 + r.below(5), 1), (r.below(limit), 1)])
        if limit == 65535 and n > 5000 and r.chance(3, 4):
            n = r.below(300)
        data = "(fill %d %d)" % (n, r.below(1000)) if n > 8 else hexs([r.below(256) for _ in range(n)])
    else:
        data = "x" if r.chance(9, 10) else "x0102"
    return case(loc, rem, "(notif %d %d %s)" % (c, s, data))


def gen_explore(r, items_out):
    """Impl-only stream: a family outside the Lean model.  Returns a closure producing the case once probes are known."""
    fam = r.pick(list(OPAQUE))
    force = {"eml": False} if r.chance(9, 10) else {}
    loc, rem, info = cap_pair(r, fam, force)
    for side in (loc, rem):
        if ("(mp %d %d)" % fam) not in side:
            side.append("(mp %d %d)" % fam)
    info["neg"] = True
    limit = 65535 if info["em"] else 4096
    reach = r.chance(2, 3)
    weird = r.chance(1, 25) and fam[1] in (128, 4)      # long label stacks: one entry only
    if weird:
        kinds = [r.pick([7, 8, 9, 10, 11, 16, 32, 33])]
        count = 1
    else:
        cap = max(1, (limit - 80) // 21)
        count = pick_count(r, cap)
        if limit == 65535 and count > 400:
            count = r.below(400)
        kinds = None
    ents = []
    maxseed = {128: 33 if fam[0] == 1 else 129, 4: 33 if fam[0] == 1 else 129}.get(fam[1], 1000)
    longest = r.chance(1, 3)
    for k in range(count):
        kind = kinds[0] if kinds else r.weighted(OPAQUE[fam])
        seed = (maxseed - 1 if longest and maxseed < 1000 else r.below(maxseed)) + maxseed * r.below(50 if not weird else 1) * (1 if maxseed < 1000 else 0)
        pid = (1 + k % 3) if info["ap"] and not weird else 0
        ents.append((kind, seed, pid))
        items_out.append((fam[0], fam[1], reach, kind, seed))
    attrs = gen_attrs(r, info, None) if reach else None
    nh = gen_nh(r, fam, info) if reach else None
    if reach and fam in FLOWSPEC and r.chance(19, 20):
        nh = "none"
    if weird:
        # no add-path for the single-entry probes
        loc = [c for c in loc if not c.startswith("(ap")]
        rem = [c for c in rem if not c.startswith("(ap")]

    def build():
        es = []
        for (kind, seed, pid) in ents:
            pr = PROBER.get((fam[0], fam[1], reach, kind, seed))
            if pr is None or pr[0] == "(bad-case)":
                return None
            d, rl = pr
            # values WITHOUT a wire form (decided from the input, never from the probe) only in one-entry cases;
            # a valid value that the encoder refuses / mis-encodes stays in: that is a defect the oracle must see
            if not has_wire_form(fam, reach, kind, seed) and len(ents) > 1:
                continue
            if d == rl:
                es.append("(o %d %d %d %s)" % (kind, seed, pid, d))
            else:
                es.append("(o %d %d %d %s %s)" % (kind, seed, pid, d, rl))
        if reach:
            msg = "(reach %d %d %s (attrs %s) (entries %s))" % (fam[0], fam[1], nh, " ".join(attrs), " ".join(es))
        else:
            msg = "(unreach %d %d (entries %s))" % (fam[0], fam[1], " ".join(es))
        return case(loc, rem, msg)
    return build


def gen(seed, n, tier):
    r = Rng(seed * 1000003 + 4)
    slots = []
    items = []
    for _ in range(n):
        k = r.weighted([("update", 60), ("open", 14), ("small", 10), ("explore", 16)])
        if k == "update":
            slots.append(gen_update(r))
        elif k == "open":
            slots.append(gen_open(r))
        elif k == "small":
            slots.append(gen_small(r))
        else:
            slots.append(gen_explore(r, items))
    PROBER.ask(items)
    out = []
    for s in slots:
        if callable(s):
            s = s()
        if s:
            out.append(s)
    return out
