import os, sys
sys.path.insert(0, os.path.dirname(os.path.abspath(__file__)))
from common import Rng
try:
    from c17_seeds import ATTR_SEEDS, NLRI_SEEDS
except Exception:                                    # seeds file is optional
    ATTR_SEEDS, NLRI_SEEDS = [], []

CONFIG = dict(
    level_text="Kernel-checked Lean theorems about a model of daemon/src/convert.rs (attr_to_api / attr_from_api / "
               "read_extcom / write_extcom / nlri_to_api / net_from_api), of the wire decoder that produces the values they "
               "are applied to (parse_message attribute loop + Attribute::decode, IPv4/IPv6/labeled/VPN NLRI decoders) and of "
               "the consumers a stored value later meets (Attribute::encode, as_path_length, as_path_origin, as_path_prepend, "
               "the accessors of best-path comparison, the two-octet-AS encoder helpers, Nlri::encode): every decoded value "
               "satisfies the structural invariants WF (decode_wf); every WF value with the canonical flags byte converts "
               "to its API form and back to itself (roundtrip_attr, roundtrip_nlri); attr_from_api / net_from_api never "
               "panic and accept only WF values (from_api_wf); WF values cannot panic any modelled consumer (wf_safe_*); and "
               "the master theorem that the C17 reference checker accepts every model run.  The model is tied to the real "
               "code by running both on the same generated cases (wire bytes through the real PeerCodec, prost API messages "
               "through the real convert functions, then Table::insert / apply_import / encode_to under catch_unwind) and "
               "diffing every observation, with the reference checker as oracle on the real observations.",
    level_note="Trusted: Lean kernel; axioms propext/Classical.choice/Quot.sound; the hand-written model (checked only by the "
               "correspondence stream); std's Ipv4Addr/Ipv6Addr Display/FromStr (address strings are abstract in the model); "
               "harness glue building UPDATE frames and prost messages.  Proved only for the canonical flags byte (open "
               "finding roundtrip-flags-differ).  Modelled, not verified: kinds outside the model (BGP-LS TLVs, tunnel-encap, "
               "prefix-SID, flowspec, EVPN, MUP, SR-policy, RTC) are explored implementation-only; attribute size limits "
               "(u16 length sums, 4096-byte messages); label stacks that wrap the one-octet NLRI bit count (S7).",
    lean_modules=["Rbgp.Api.Props"],
    theorems=[
        "Rbgp.Api.Props.check_run_ok",
        "Rbgp.Api.Props.roundtrip_attr",
        "Rbgp.Api.Props.roundtrip_decoded",
        "Rbgp.Api.Props.roundtrip_unrecognised",
        "Rbgp.Api.Props.roundtrip_nlri",
        "Rbgp.Api.Props.flags_not_carried",
        "Rbgp.Api.Props.from_api_wf",
        "Rbgp.Api.Props.from_api_wf_nlri",
        "Rbgp.Api.Props.listed_same_as_added",
        "Rbgp.Api.Props.typed_mp_reach_stored",
        "Rbgp.Api.Props.further_next_hops_dropped",
        "Rbgp.Api.Props.listed_same_as_added_nlri",
        "Rbgp.Api.Props.listed_path_same_as_added",
        "Rbgp.Api.Props.next_hop_not_listed",
        "Rbgp.Api.Props.validation_without_vrps",
        "Rbgp.Api.Props.accepted_reimports_unchanged",
        "Rbgp.Api.Props.from_api_never_panics",
        "Rbgp.Api.Props.net_from_api_never_panics",
        "Rbgp.Api.Props.oversized_value_refused",
        "Rbgp.Api.Props.wf_safe_cmp",
        "Rbgp.Api.Props.wf_safe_policy",
        "Rbgp.Api.Props.wf_safe_encode",
        "Rbgp.Api.Props.wf_safe",
        "Rbgp.Api.Props.wf_safe_encode_nlri",
        "Rbgp.Api.Props.accepted_is_safe",
        "Rbgp.Api.Props.decode_wf",
        "Rbgp.Api.Props.decode_wf_nlri",
        "Rbgp.Api.Props.nlri_decoder_never_panics",
        "Rbgp.Api.Props.s27_raw_as_path_accepted",
        "Rbgp.Api.Props.s27_raw_as_path_crashes",
        "Rbgp.Api.Props.s27_raw_local_pref_crashes",
        "Rbgp.Api.Props.s27_out_of_range_accepted",
        "Rbgp.Api.Props.s27_roundtrip_failures",
        "Rbgp.Api.Props.s27_labeled_prefix_crashes",
        "Rbgp.Api.Props.silent_alteration_before_repair",
        "Rbgp.Api.Props.oversized_value_accepted_before_repair",
    ],
    harness=dict(kind="daemon", test="event::verif_event::c17::verif_main"),
    profiles=["debug"],
    n_quick=4000, n_thorough=200000, shards=12,
    impl_only_re=r"^\(x ",
    nontrivial_re=r"attr-obs|nlris|\(x ",
    rule="five streams from one PRNG: (1) attribute values on the wire for every modelled type code (ORIGIN, AS_PATH, NEXT_HOP, "
         "MED, LOCAL_PREF, ATOMIC_AGGREGATE, AGGREGATOR 2/4-octet, COMMUNITIES, ORIGINATOR_ID, CLUSTER_LIST, EXT/LARGE "
         "COMMUNITIES incl. every typed extended-community shape, AS4_PATH, AS4_AGGREGATOR, AIGP, unknown codes) with "
         "canonical / PARTIAL / EXTENDED / low-bit / wrong-class flags and 1-in-6 malformed values, decoded by the real "
         "PeerCodec; (2) API attribute messages of every modelled kind with out-of-range enums, >255 AS numbers per "
         "segment, malformed address text, missing / unsupported oneof variants and raw (Unknown) messages for typed, "
         "untyped and unknown codes; (3) IPv4/IPv6/labeled/VPN NLRI bytes (1-3 entries, mutations) through the real "
         "UPDATE parser; (4) API prefixes with bad lengths, label stacks of 0..40 labels, bad RDs; (5) impl-only "
         "exploration of BGP-LS / tunnel-encap / prefix-SID attributes and EVPN / flowspec / MUP / SR-policy / RTC / LS "
         "NLRI from GoBGP wire fixtures (pristine: exact round trip; mutated: no panic + display stable).  Values are "
         "drawn from small colliding domains (ASNs 0,1,23456,65001,65535,65536,2^32-1; boundary lengths 0,254,255). "
         "non-trivial = a value was stored/accepted and fully observed; distinct = distinct case line",
    expect_tokens=["(attr 1 ", "(attr 2 ", "(attr 4 ", "(attr 5 ", "(attr 6 ", "(attr 7 ", "(attr 8 ", "(attr 9 ", "(attr 10 ",
                   "(attr 16 ", "(attr 32 ", "(attr 26 ", "(attr 3 ", "(attr 14 ", "(opaque x", "not-stored rejected", "not-stored dropped",
                   "(from err)", "(decode err)", "(v4 ", "(v6 ", "(lv4 ", "(lv6 ", "(vpn4 ", "(vpn6 ", "(rd2 ", "(rd-ip ", "(rd4 ",
                   "two-as", "ip4-as", "four-as", "(mup ", "(rate ", "(action ", "redir2", "(remark ", "redir-ip", "redir4",
                   "ec-unknown", "(ip6 ", "(x ok)", "(x fail", "(ok (some ", "(ok none)", "(grpc (listed", "(grpc add-refused)", " err ok)", " err err)"],
    trusted_base=["model Rbgp/Api/Model.lean of daemon/src/convert.rs (modelled kinds), packet/src/bgp.rs (attribute loop of "
                  "parse_message, Attribute::decode/encode, AS_PATH walkers), labeled.rs/vpn.rs/mpls.rs/rd.rs, and the accessors "
                  "of impl Ord for RibEntry in table/src/lib.rs",
                  "std::net::{Ipv4Addr,Ipv6Addr} Display/FromStr round trip (address text is abstract in the model; the harness "
                  "renders/classifies it with std)",
                  "harness/daemon/c17.rs: builds UPDATE frames / prost messages from the case term and prints the observation"],
    theorem_backed=["ORIGIN", "AS_PATH", "NEXT_HOP (API side)", "MULTI_EXIT_DISC", "LOCAL_PREF", "ATOMIC_AGGREGATE", "AGGREGATOR",
                    "COMMUNITIES", "ORIGINATOR_ID", "CLUSTER_LIST", "EXTENDED_COMMUNITIES (all typed shapes + raw)",
                    "LARGE_COMMUNITIES", "AIGP / MP_REACH / MP_UNREACH as raw", "typed MpReachNlriAttribute (family range, FlowSpec without next hop, IPv4 / IPv6 next hop; one next hop)", "unrecognised optional transitive attributes",
                    "IPv4 / IPv6 prefix", "labeled IPv4 / IPv6 prefix", "VPNv4 / VPNv6 prefix + route distinguisher",
                    "GrpcService::local_path + add_path + list_path + destination_to_api (attribute selection, defaults, listing)",
                    "attribute / message size (u16 length sum modelled; values bounded at the API)"],
    hypothesis_backed=["BGP-LS attribute TLVs", "TUNNEL_ENCAP", "PREFIX_SID", "FlowSpec v4/v6/VPN NLRI", "EVPN NLRI", "MUP NLRI",
                       "SR-policy NLRI", "RTC NLRI", "BGP-LS NLRI", "api::TunnelEncap / PrefixSid / Ls / EVPN / "
                       "SR-policy / RTC / FlowSpec API messages (never-panics, safe, stable, listed as sent)",
                       "fields of the TunnelEncap / SR-policy / Ls / LsAddrPrefix / FlowSpec / MpReach messages that are narrower on the "
                       "wire than in the message (refused when out of range, listed as sent otherwise)",
                       "read-back of every accepted value of these kinds: its wire form must decode (real UPDATE parser) to the same "
                       "value - implementation-side oracle, no theorem (found F17p/F17q/F17r)",
                       "request families and policy numbers (Path.family / ListPath family vs NLRI kind and wire width, afi-safi-in, "
                       "prefix-set mask lengths): implementation-side oracle",
                       "RPKI validation state shown by ListPath",
                       "AddPath -> ListPath -> DeletePath(uuid) -> ListPath on the global table and into / from a VRF (what is kept "
                       "under the uuid is what was inserted): model and implementation compared, no theorem for the VRF case"],
    modelled_not_verified=["the VRF variant of the grpc case (vrf_export_path, collect_vrf_paths) and the number of paths listed after "
                           "DeletePath(uuid): in the model and compared with the implementation; check_run_ok covers the global table only "
                           "and the oracle has no clause on the add / delete life cycle (not this property's subject)",
                           "the four peer-configuration callers of convert::family_from_api in event/grpc.rs (AddPeer / peer-group afi-safis, "
                           "GR / LLGR families) still narrow API numbers with `as`: not driven (peer configuration)",
                           "FlowSpec, EVPN, MUP, SR-policy, RTC, BGP-LS NLRI and TUNNEL_ENCAP / PREFIX_SID / BGP-LS attributes have no Lean "
                           "model: no round-trip / totality theorem, only the implementation-side oracle above",
                           "kinds listed under hypothesis_backed: explored implementation-only (pristine GoBGP fixtures must round-trip "
                           "exactly, one oracle clause per TLV type / NLRI type; mutated ones must not panic and must display stably; "
                           "API messages of these kinds must never panic, and what is accepted must be safe, stable and listed as sent)",
                           "the RPKI validation state ListPath shows (collect_paths phase 2, rpki_validation_to_api): observed through "
                           "the real handlers and judged against Spec.rpkiExpected (RFC 6811 from the request alone), but the theorem "
                           "side is property C12's; check_run_ok covers the grpc case only without VRPs (state NotFound, Props.validation_without_vrps)",
                           "message size on sessions with RFC 8654 extended messages (the consumers encode on a 4096-octet session; the "
                           "value bound of WF is the 65535-octet maximum)",
                           "SingleAsPathMatch and regex matching results in policy evaluation (C14): the harness runs community / "
                           "ext-community / large-community conditions and actions for panics only",
                           "f32 bit patterns of the traffic-rate extended community are carried as u32 bits",
                           "two-octet-AS *decoding*, AddPath path identifiers and UPDATEs with several modelled attributes at once are "
                           "not driven here (C03/C04/C05)"],
    assumptions=["a gRPC request is a prost message whose scalar fields are within their protobuf widths (u32 / i32 / bytes)"],
    claimed=True,
)

# ----------------------------------------------------------------------------- helpers
ASNS = [0, 1, 23456, 65001, 65001, 65002, 65535, 65536, 4200000000, 4294967295]
U32S = [0, 1, 2, 3, 100, 255, 256, 65535, 65536, 0xffff0006, 0xffff0007, 4294967295]
IP4S = [0, 1, 0x0a000001, 0xc0000201, 0xc0000202, 0xe0000001, 0xffffffff]
IP6S = [0, 1, 0x20010db8000000000000000000000001, 0xfe800000000000000000000000000001,
        0x00000000000000000000ffffc0000201, (1 << 128) - 1]
NBAD = 12


def hx(bs):
    return "x" + "".join("%02x" % b for b in bs)


def be(n, k):
    return [(n >> (8 * (k - 1 - i))) & 0xff for i in range(k)]


def astr(r, want="ip4", p_bad=0):
    if p_bad and r.chance(p_bad, 100):
        k = r.pick(["bad", "ip6" if want == "ip4" else "ip4"])
        want = k
    if want == "ip4":
        return "(ip4 %d)" % r.pick(IP4S)
    if want == "ip6":
        return "(ip6 %d)" % r.pick(IP6S)
    return "(bad %d)" % r.below(NBAD)


def rand_bytes(r, n):
    return [r.pick([0, 1, 2, 3, 4, 0x40, 0x80, 0xff, r.below(256)]) for _ in range(n)]


# ----------------------------------------------------------------------------- AS_PATH
def gen_segments(r, max_hops=255):
    """list of (type, [asn...]) with at most max_hops counted hops (SET = 1, SEQ = n, confed = 0)"""
    segs, hops = [], 0
    for _ in range(r.pick([0, 1, 1, 1, 2, 2, 3, 5])):
        t = r.pick([1, 2, 2, 2, 3, 4])
        n = r.pick([0, 1, 1, 2, 3, 3, 5, 8, 254, 255]) if r.chance(1, 12) else r.pick([1, 1, 1, 2, 3, 4])
        add = 1 if t == 1 else (n if t == 2 else 0)
        if hops + add > max_hops:
            continue
        hops += add
        segs.append((t, [r.pick(ASNS) for _ in range(n)]))
    return segs


def segs_bytes(segs):
    out = []
    for t, ns in segs:
        out += [t & 0xff, len(ns) & 0xff]
        for n in ns:
            out += be(n, 4)
    return out


# ----------------------------------------------------------------------------- extended communities
def gen_extcom_chunk(r):
    k = r.below(16)
    if k == 0:
        return [r.pick([0x00, 0x40]), r.pick([2, 3, 0, 9])] + be(r.pick(ASNS) & 0xffff, 2) + be(r.pick(U32S), 4)
    if k == 1:
        return [r.pick([0x01, 0x41]), r.pick([2, 3])] + be(r.pick(IP4S), 4) + be(r.pick(U32S) & 0xffff, 2)
    if k == 2:
        return [r.pick([0x02, 0x42]), r.pick([2, 3])] + be(r.pick(ASNS), 4) + be(r.pick(U32S) & 0xffff, 2)
    if k == 3:
        return [r.pick([0x0c, 0x0c, 0x4c]), r.pick([0, 1])] + be(r.pick(U32S) & 0xffff, 2) + be(r.pick(U32S), 4)
    if k == 4:
        return [r.pick([0x80, 0x80, 0xc0]), 6] + be(r.pick(ASNS) & 0xffff, 2) + be(r.pick([0, 0x3f800000, 0x7fc00001, 0xff800000]), 4)
    if k == 5:
        return [r.pick([0x80, 0x80, 0xc0]), 7] + (rand_bytes(r, 5) if r.chance(1, 3) else [0] * 5) + [r.pick([0, 1, 2, 3, 3, 4, 0xff])]
    if k == 6:
        return [r.pick([0x80, 0x80, 0xc0]), 8] + be(r.pick(ASNS) & 0xffff, 2) + be(r.pick(U32S), 4)
    if k == 7:
        return [r.pick([0x80, 0x80, 0xc0]), 9] + (rand_bytes(r, 5) if r.chance(1, 3) else [0] * 5) + [r.pick([0, 1, 0x3f, 0x40, 0xff])]
    if k == 8:
        return [r.pick([0x81, 0x81, 0xc1]), r.pick([8, 8, 1])] + be(r.pick(IP4S), 4) + be(r.pick(U32S) & 0xffff, 2)
    if k == 9:
        return [r.pick([0x82, 0x82, 0xc2]), r.pick([8, 8, 1])] + be(r.pick(ASNS), 4) + be(r.pick(U32S) & 0xffff, 2)
    if k == 10:
        return [0x06, 0x00] + rand_bytes(r, 6)                      # EVPN MAC mobility
    if k == 11:
        return [0x03, 0x0c] + [0, 0, 0, 0] + be(r.pick([8, 14, 15]), 2)   # encap
    if k == 12:
        return [0x80, r.pick([0, 1, 5, 10])] + rand_bytes(r, 6)
    return rand_bytes(r, 8)


def gen_extcom_api(r):
    k = r.below(15)
    sub = r.pick([0, 2, 3, 255, 256]) if r.chance(1, 6) else r.pick([2, 3])
    la16 = r.pick([0, 1, 65535, 65536]) if r.chance(1, 6) else r.pick([0, 1, 100, 65535])
    asn16 = r.pick([0, 65535, 65536, 4294967295]) if r.chance(1, 6) else r.pick([1, 65001, 65535])
    tf = r.pick(["t", "t", "f"])
    if k == 0:
        return "(two-as %s %d %d %d)" % (tf, sub, asn16, r.pick(U32S))
    if k == 1:
        return "(ip4-as %s %d %s %d)" % (tf, sub, astr(r, "ip4", 15), la16)
    if k == 2:
        return "(four-as %s %d %d %d)" % (tf, sub, r.pick(ASNS), la16)
    if k == 3:
        return "(mup %d %d %d)" % (r.pick([0, 1, 255, 256]), la16, r.pick(U32S))
    if k == 4:
        return "(rate %d %d)" % (asn16, r.pick([0, 0x3f800000, 0x7fc00001, 4294967295]))
    if k == 5:
        return "(action %s %s)" % (r.pick(["t", "f"]), r.pick(["t", "f"]))
    if k == 6:
        return "(redir2 %d %d)" % (asn16, r.pick(U32S))
    if k == 7:
        return "(remark %d)" % r.pick([0, 1, 63, 64, 255, 4294967295])
    if k == 8:
        return "(redir-ip %s %d)" % (astr(r, "ip4", 15), la16)
    if k == 9:
        return "(redir4 %d %d)" % (r.pick(ASNS), la16)
    if k == 10:
        n = r.pick([8, 8, 8, 8, 0, 7, 9, 16])
        return "(ec-unknown %d %s)" % (r.pick([0, 3, 128, 255, 256]), hx(rand_bytes(r, n)))
    if k == 11:
        return "ec-missing"
    if k == 12:
        return "ec-other"
    c = gen_extcom_chunk(r)
    return "(ec-unknown %d %s)" % (c[0] if r.chance(3, 4) else r.pick([0, 6, 256 + c[0]]), hx(c))


# ----------------------------------------------------------------------------- attributes on the wire
CANON = {1: 0x40, 2: 0x40, 3: 0x40, 4: 0x80, 5: 0x40, 6: 0x40, 7: 0xc0, 8: 0xc0, 9: 0x80, 10: 0x80,
         16: 0xc0, 17: 0xc0, 18: 0xc0, 26: 0x80, 32: 0xc0}
WIRE_CODES = [1, 2, 2, 2, 3, 4, 5, 6, 7, 8, 8, 9, 10, 16, 16, 16, 32, 17, 18, 26, 0, 99, 200, 255]


def gen_wire_value(r, code, valid):
    """value bytes for an attribute code; valid=True -> what the decoder accepts (mostly)"""
    if code == 1:
        return [r.pick([0, 1, 2])] if valid else r.pick([[3], [255], [], [0, 0]])
    if code in (4, 5, 9):
        return be(r.pick(U32S + IP4S), 4) if valid else rand_bytes(r, r.pick([0, 3, 5]))
    if code == 2:
        b = segs_bytes(gen_segments(r))
        if valid:
            return b
        m = r.below(5)
        if m == 0:
            return b + [2]
        if m == 1:
            return [r.pick([0, 5, 255]), 1] + be(65001, 4) + b
        if m == 2:
            return b + [2, 2] + be(65001, 4)
        if m == 3:
            return (b + [1, 1, 0, 0, 0, 1])[:-1]
        return [2, 0] + b + [0]
    if code == 3:
        return be(r.pick(IP4S), 4) if valid else rand_bytes(r, r.pick([0, 3, 16]))
    if code == 6:
        return [] if valid else [0]
    if code == 7:
        if valid:
            return (be(r.pick(ASNS) & 0xffff, 2) if r.chance(1, 3) else be(r.pick(ASNS), 4)) + be(r.pick(IP4S), 4)
        return rand_bytes(r, r.pick([0, 5, 7, 9]))
    if code in (8, 10):
        n = r.pick([0, 1, 1, 2, 3, 70])
        b = []
        for _ in range(n):
            b += be(r.pick(U32S if code == 8 else IP4S), 4)
        return b if valid else b + rand_bytes(r, r.pick([1, 2, 3]))
    if code == 16:
        b = []
        for _ in range(r.pick([0, 1, 1, 2, 3])):
            b += gen_extcom_chunk(r)
        return b if valid else b + rand_bytes(r, r.pick([1, 4, 7]))
    if code == 32:
        b = []
        for _ in range(r.pick([0, 1, 1, 2, 30])):
            b += be(r.pick(ASNS), 4) + be(r.pick(U32S), 4) + be(r.pick(U32S), 4)
        return b if valid else b + rand_bytes(r, r.pick([1, 4, 11]))
    if code == 17:
        segs = [(t, ns) for t, ns in gen_segments(r) if ns] or [(2, [65001])]
        return segs_bytes(segs) if valid else segs_bytes(segs) + [2, 0]
    if code == 18:
        return be(r.pick(ASNS), 4) + be(r.pick(IP4S), 4) if valid else rand_bytes(r, r.pick([0, 6, 7]))
    if code == 26:                                  # AIGP: TLVs (type, 2-byte length incl. the 3 header bytes)
        b = []
        for _ in range(r.pick([0, 1, 1, 2])):
            n = r.pick([0, 1, 8, 8])
            b += [r.pick([1, 1, 2])] + be(3 + n, 2) + rand_bytes(r, n)
        if valid:
            return b
        return r.pick([b + [1], b + [1, 0], b + [1, 0, r.pick([0, 2])], b + [1, 0, 11, 0], [0], (b + [1, 0, 3])[:-1] + [9]])
    return rand_bytes(r, r.pick([0, 1, 2, 4, 9, 300]) if r.chance(1, 8) else r.pick([0, 1, 2, 4, 9]))


def gen_attr_wire(r):
    code = r.pick(WIRE_CODES)
    valid = r.chance(5, 6)
    val = gen_wire_value(r, code, valid)
    base = CANON.get(code, r.pick([0xc0, 0xc0, 0xc0, 0xe0, 0x80, 0x40, 0x00]))
    k = r.below(20)
    flags = base
    if k == 0:
        flags = base | 0x20                      # PARTIAL
    elif k == 1:
        flags = base | 0x10                      # EXTENDED LENGTH on a short value
    elif k == 2:
        flags = base | r.pick([1, 2, 4, 8, 15])  # unused low bits
    elif k == 3:
        flags = base ^ r.pick([0x40, 0x80, 0xc0])  # wrong class
    elif k == 4:
        flags = r.below(256)
    if len(val) > 255:
        flags |= 0x10
    return "(attr-wire %d %d %s)" % (code, flags, hx(val))


# ----------------------------------------------------------------------------- attributes through the API
def gen_api_segments(r):
    segs = gen_segments(r)
    out = []
    for t, ns in segs:
        if r.chance(1, 10):
            t = r.pick([0, 5, 255, 256, 257, 258, 4294967295, 2147483648])
        if r.chance(1, 25):
            ns = [r.pick(ASNS) for _ in range(r.pick([256, 257, 300, 511, 512]))]
        if r.chance(1, 25):
            ns = []
        out.append("(%d (%s))" % (t, " ".join(str(n) for n in ns)))
    return "(as-path (%s))" % " ".join(out)


def gen_big_api(r):
    """attribute values around the two size limits: one 4096-octet UPDATE (the encoder must refuse, not
    panic) and the largest value any UPDATE can carry (65508 octets: the API must refuse what is longer)"""
    k = r.below(7)
    if k == 0:      # 4 octets each; 1011/1012 straddle the 4096-octet message, 16377/16378 the value limit
        n = r.pick([1000, 1011, 1012, 1021, 1022, 16377, 16378, 16380, 20000])
        return "(attr-api (communities (%s)))" % " ".join(str(r.pick(U32S)) for _ in range(n))
    if k == 1:      # 12 octets each: 5459 * 12 = 65508
        n = r.pick([337, 338, 5459, 5460, 6000])
        return "(attr-api (large-communities (%s)))" % " ".join("(%d 1 2)" % r.pick(ASNS) for _ in range(n))
    if k == 2:      # 8 octets each: 8188 * 8 = 65504
        n = r.pick([505, 506, 8188, 8189, 9000])
        return "(attr-api (ext-communities (%s)))" % " ".join("(two-as t 2 65001 %d)" % (i % 7) for i in range(n))
    if k == 3:      # 4 octets each
        n = r.pick([1011, 1012, 16377, 16378])
        return "(attr-api (cluster-list (%s)))" % " ".join("(ip4 %d)" % r.pick(IP4S) for _ in range(n))
    if k == 4:      # segments of 255 AS numbers = 1022 octets each: 64 fit the value limit, 65 do not
        n = r.pick([3, 4, 64, 65, 70])
        seg = "(2 (%s))" % " ".join(["65001"] * 255)
        return "(attr-api (as-path (%s)))" % " ".join([seg] * n)
    if k == 5:      # raw value of an unrecognised optional transitive attribute
        n = r.pick([4000, 4080, 65508, 65509, 70000])
        return "(attr-api (unknown 192 200 %s))" % hx([i & 0xff for i in range(n)])
    n = r.pick([4000, 4080, 65508])     # the same on the wire (decoded by the real UPDATE parser)
    return "(attr-wire 200 208 %s)" % hx([i & 0xff for i in range(n)])


def gen_mp_reach(r):
    """typed MpReachNlriAttribute: family (missing, ordinary, FlowSpec, out of range) and 0-3 next hops as text"""
    fam = r.pick(["none", "(1 1)", "(2 1)", "(2 1)", "(1 128)", "(2 128)", "(1 4)", "(1 133)", "(2 133)", "(1 134)", "(2 134)",
                  "(3 133)", "(25 70)", "(16388 71)", "(0 0)", "(65535 255)", "(65536 1)", "(65537 1)", "(1 256)", "(1 389)",
                  "(4294967295 1)", "(1 4294967295)"])
    nhs = " ".join(astr(r, r.pick(["ip4", "ip6", "ip6"]), 12) for _ in range(r.pick([0, 1, 1, 1, 2, 3])))
    return "(mp-reach %s (%s))" % (fam, nhs)


def gen_attr_api(r):
    if r.chance(1, 150):
        return gen_big_api(r)
    k = r.below(24)
    if k >= 22:
        return "(attr-api %s)" % gen_mp_reach(r)
    if k == 0:
        return "(attr-api (origin %d))" % r.pick([0, 1, 2, 2, 3, 255, 256, 4294967295])
    if k in (1, 2, 3):
        return "(attr-api %s)" % gen_api_segments(r)
    if k == 4:
        return "(attr-api (next-hop %s))" % (astr(r, r.pick(["ip4", "ip6"]), 30))
    if k == 5:
        return "(attr-api (med %d))" % r.pick(U32S)
    if k == 6:
        return "(attr-api (local-pref %d))" % r.pick(U32S)
    if k == 7:
        return "(attr-api atomic-aggregate)"
    if k == 8:
        return "(attr-api (aggregator %d %s))" % (r.pick(ASNS), astr(r, "ip4", 25))
    if k == 9:
        return "(attr-api (communities (%s)))" % " ".join(str(r.pick(U32S)) for _ in range(r.pick([0, 1, 2, 3, 70])))
    if k == 10:
        return "(attr-api (originator-id %s))" % astr(r, "ip4", 25)
    if k == 11:
        return "(attr-api (cluster-list (%s)))" % " ".join(astr(r, "ip4", 10) for _ in range(r.pick([0, 1, 2, 3])))
    if k == 12:
        return "(attr-api (large-communities (%s)))" % " ".join(
            "(%d %d %d)" % (r.pick(ASNS), r.pick(U32S), r.pick(U32S)) for _ in range(r.pick([0, 1, 2, 3])))
    if k in (13, 14, 15):
        return "(attr-api (ext-communities (%s)))" % " ".join(gen_extcom_api(r) for _ in range(r.pick([0, 1, 1, 2, 3])))
    if k == 16:
        return "(attr-api %s)" % r.pick(["missing", "other"])
    # raw (Unknown) messages: known typed codes with well- and ill-formed values, untyped known codes, unknown codes
    code = r.pick([1, 2, 2, 3, 4, 5, 6, 7, 8, 9, 10, 16, 32, 17, 18, 26, 14, 15, 0, 99, 200, 255, 256 + 1, 256 + 2, 512 + 5])
    flags = r.pick([0, 0, CANON.get(code % 256, 0xc0), CANON.get(code % 256, 0xc0), 0x40, 0x80, 0xc0, 0xe0, 0xd0,
                    0x100 + 0xc0, 4294967295])
    valid = r.chance(1, 2)
    val = gen_wire_value(r, code % 256, valid)
    return "(attr-api (unknown %d %d %s))" % (flags, code, hx(val))


# ----------------------------------------------------------------------------- NLRI
def prefix_bytes(r, width, bits):
    n = (bits + 7) // 8
    addr = rand_bytes(r, width) if r.chance(1, 3) else ([10, 1, 2, 3] + [0] * 12 if width == 4 else [0x20, 1, 0x0d, 0xb8] + [0] * 11 + [1])[:width]
    return addr[:n]


def labels_bytes(r, n):
    out = []
    for i in range(n):
        l = r.pick([0, 3, 16, 100, 1048575])
        raw = (l << 4) | (1 if i == n - 1 else 0)
        out += be(raw, 3)
    return out


def rd_bytes(r):
    k = r.below(4)
    if k == 0:
        return be(0, 2) + be(r.pick([0, 100, 65535]), 2) + be(r.pick(U32S), 4)
    if k == 1:
        return be(1, 2) + be(r.pick(IP4S), 4) + be(r.pick([0, 1, 65535]), 2)
    if k == 2:
        return be(2, 2) + be(r.pick(ASNS), 4) + be(r.pick([0, 1, 65535]), 2)
    return be(r.pick([3, 255, 65535]), 2) + rand_bytes(r, 6)


def gen_nlri_entry(r, fam):
    width = 4 if fam in ("v4", "lv4", "vpn4") else 16
    maxb = width * 8
    bits = r.pick([0, 1, 7, 8, 9, 24, maxb - 1, maxb, maxb, maxb + 1]) if r.chance(1, 2) else r.below(maxb + 1)
    if fam in ("v4", "v6"):
        return [bits] + prefix_bytes(r, width, min(bits, maxb))
    nl = r.pick([1, 1, 1, 2, 3, 5, 7, 8, 9, 10, 11, 12]) if r.chance(1, 6) else r.pick([1, 1, 1, 2, 3, 5])
    lb = labels_bytes(r, nl)
    if fam in ("lv4", "lv6"):
        return [(nl * 24 + bits) & 0xff] + lb + prefix_bytes(r, width, min(bits, maxb))
    return [(nl * 24 + 64 + bits) & 0xff] + lb + rd_bytes(r) + prefix_bytes(r, width, min(bits, maxb))


def gen_nlri_wire(r):
    fam = r.pick(["v4", "v4", "v6", "lv4", "lv6", "vpn4", "vpn6"])
    b = []
    for _ in range(r.pick([1, 1, 1, 2, 3])):
        b += gen_nlri_entry(r, fam)
    m = r.below(12)
    if m == 0 and b:
        b = b[:-1]
    elif m == 1:
        b = b + [r.below(256)]
    elif m == 2 and b:
        i = r.below(len(b)); b[i] = r.below(256)
    return "(nlri-wire %s %s)" % (fam, hx(b))


def gen_api_rd(r):
    k = r.below(6)
    if k == 0:
        return "(some (rd2 %d %d))" % (r.pick([0, 100, 65535, 65536]), r.pick(U32S))
    if k == 1:
        return "(some (rd-ip %s %d))" % (astr(r, "ip4", 20), r.pick([0, 1, 65535, 65536]))
    if k == 2:
        return "(some (rd4 %d %d))" % (r.pick(ASNS), r.pick([0, 1, 65535, 65536]))
    if k == 3:
        return r.pick(["none", "(some rd-missing)"])
    return "(some (rd2 65001 %d))" % r.pick(U32S)


def gen_nlri_api(r):
    k = r.below(10)
    v6 = r.chance(1, 3)
    s = astr(r, "ip6" if v6 else "ip4", 12)
    if r.chance(1, 3):      # an address with low bits set: 10.0.0.1, 10.1.0.0, 2001:db8::1 ...
        s = "(ip6 %d)" % r.pick([0x20010db8 << 96, (0x20010db8 << 96) + 1, (0x20010db8 << 96) + (1 << 64)]) if v6 \
            else "(ip4 %d)" % r.pick([0x0a000000, 0x0a000001, 0x0a010000, 0x0a000100, 0x0a800000])
    maxb = 128 if v6 else 32
    plen = r.pick([0, 1, 8, 24, maxb, maxb, maxb + 1, 129, 200, 255, 256, 257, 4294967295]) if r.chance(1, 2) else r.below(maxb + 1)
    labels = " ".join(str(r.pick([0, 3, 100, 1048575, 1048576, 4294967295])) for _ in range(r.pick([0, 1, 1, 1, 2, 3, 9, 10, 11, 21, 40])))
    if k < 3:
        return "(nlri-api (prefix %s %d))" % (s, plen)
    if k < 6:
        return "(nlri-api (labeled (%s) %d %s))" % (labels, plen, s)
    if k < 9:
        return "(nlri-api (vpn (%s) %s %d %s))" % (labels, gen_api_rd(r), plen, s)
    return "(nlri-api %s)" % r.pick(["n-missing", "n-other"])


# ----------------------------------------------------------------------------- exploration of unmodelled kinds
def mutate(r, b):
    b = list(b)
    m = 3 + r.below(3)
    if not b:
        return b
    if m == 3:
        i = r.below(len(b)); b[i] = r.below(256)
    elif m == 4:
        i = r.below(len(b)); b[i] = (b[i] + r.pick([1, 255])) & 0xff
    else:
        b = b[:r.below(len(b))]
    return b


def ls_tlv_types(b):
    out, pos = set(), 0
    while pos + 4 <= len(b):
        out.add((b[pos] << 8) | b[pos + 1])
        pos += 4 + ((b[pos + 2] << 8) | b[pos + 3])
    return out


def gen_explore_api(r):
    """prost messages of kinds outside the model: must never panic; what is accepted must be safe and stable"""
    k = r.below(18)
    strs = lambda n: "(%s)" % " ".join(astr(r, r.pick(["ip4", "ip6"]), 30) for _ in range(n))
    n6 = lambda: " ".join(str(r.pick([0, 1, 2, 3, 4, 5, 24, 33, 129, 255, 256, 16777215, 16777216, 4294967295])) for _ in range(6))
    if k == 0:
        fam = r.pick([(0, 0), (1, 1), (2, 1), (1, 128), (1, 133), (2, 133), (1, 134), (25, 70), (65536, 256)])
        return "(x api-mpreach (%d %d) %s x)" % (fam[0], fam[1], strs(r.pick([0, 0, 1, 1, 2])))
    if k == 1:
        return "(x api-tunnel-encap (%s) () x)" % n6()
    if k == 2:
        return "(x api-prefix-sid (%s) () x)" % n6()
    if k == 3:
        return "(x api-ls () () x)"
    if k == 4:
        return "(x api-evpn-macadv (%s) %s x)" % (n6(), strs(1))
    if k == 5:
        return "(x api-evpn-ead (%s) () x)" % n6()
    if k == 6:
        return "(x api-evpn-prefix (%s) %s x)" % (n6(), strs(2))
    if k == 7:
        return "(x api-srpolicy (%s) () %s)" % (n6(), hx(rand_bytes(r, r.pick([0, 3, 4, 4, 5, 15, 16, 16, 17]))))
    if k == 8:
        return "(x api-rtc (%s) () x)" % n6()
    if k == 9:
        fam = r.pick([(1, 133), (2, 133), (1, 1), (1, 134), (25, 70)])
        return "(x api-flowspec (%d %d) () x)" % fam
    # fields that are narrower on the wire than in the message: in range (must be listed as sent) or not (must be refused)
    w = lambda: r.pick([0, 1, 2, 3, 4, 5, 6, 7, 8, 24, 33, 128, 129, 255, 256, 257, 65535, 65536, 65537, 16777216, 4294967295])
    if k == 11:
        return "(x api-sr-policy-encap (%d %d %d) () x)" % (r.below(5), w(), w())
    if k == 12:
        return "(x api-ls-attr (%d %d %d %d %d %d) () x)" % (r.below(3), w(), w(), w(), w(), w())
    if k == 13:
        return "(x api-ls-nlri (%d %d %d) () x)" % (r.below(3), r.pick([1, 2, 3, 7, 255, 256, 258, 4294967295]), w())
    if k == 15:
        fam = r.pick([(1, 1), (2, 1), (1, 128), (25, 70), (0, 0), (65535, 255), (65536, 1), (65537, 1), (1, 257), (4294967295, 1)])
        return "(x api-path-family (%d %d) () x)" % fam
    if k == 16:
        fam = r.pick([(1, 1), (2, 1), (1, 128), (65537, 1), (1, 257), (65536 + 2, 256 + 1), (4294967295, 4294967295)])
        return "(x api-afi-safi-in (%d %d) () x)" % fam
    if k == 17:
        return "(x api-prefix-set (%d %d) () x)" % (r.pick([0, 8, 24, 32, 256 + 8, 65536 + 8]), r.pick([8, 24, 32, 128, 255, 256 + 24, 65536 + 32]))
    if k == 14:
        fam = r.pick([(1, 133), (2, 133)])
        return "(x api-flowspec-rules (%d %d %d %d %d %d) () x)" % (fam[0], fam[1], r.pick([0, 8, 24, 32, 64, 128, 256 + 24, 65536 + 8]),
                                                                 r.pick([0, 0, 8, 256, 65536 + 8]),
                                                                 r.pick([1, 0x81, 0x03, 0x45, 0x31, 0xb1, 0xc1, 0x101, 65536 + 1]), r.pick([0, 1, 1, 2, 3]))
    fam = r.pick([(1, 1), (2, 1), (1, 133), (25, 70), (1, 128), (16388, 71)])
    return "(x api-prefix-family (%d %d %d) %s x)" % (fam[0], fam[1], r.pick([0, 8, 24, 32, 33, 128]), strs(1))


def gen_explore(r):
    if r.chance(1, 3):
        return gen_explore_api(r)
    """pristine fixtures (`attr-`/`nlri-`: exact round trip demanded) and mutated ones (`mattr-`/`mnlri-`:
    no panic, accepted back, display stable)"""
    pristine = r.chance(1, 3)
    if ATTR_SEEDS and (not NLRI_SEEDS or r.chance(1, 2)):
        name, code, flags, b = r.pick(ATTR_SEEDS)
        if name == "ls" and r.chance(1, 3):                 # several TLVs in one BGP-LS attribute
            b2 = r.pick([s for s in ATTR_SEEDS if s[0] == "ls"])[3]
            if not (ls_tlv_types(b) & ls_tlv_types(b2)):    # a TLV type appears once per attribute
                b = b + b2
        if not pristine:
            b = mutate(r, b)
        if len(b) > 255:
            flags |= 0x10
        return "(x %sattr-%s %d %d %s)" % ("" if pristine else "m", name, code, flags, hx(b))
    if NLRI_SEEDS:
        name, afi, safi, b = r.pick(NLRI_SEEDS)
        if r.chance(1, 4):                                  # two NLRIs of the family in one MP_REACH
            b = b + r.pick([s for s in NLRI_SEEDS if s[0] == name])[3]
        if not pristine:
            b = mutate(r, b)
        return "(x %snlri-%s %d %d %s)" % ("" if pristine else "m", name, afi, safi, hx(b))
    return "(x attr-none 23 192 x)"


def gen_grpc(r):
    """AddPath then ListPath through the real GrpcService: a mostly valid prefix with 0-4 attributes, among them
    the ones local_path consumes (next hop, raw MP_REACH with readable / unreadable next hop) or drops
    (ORIGINATOR_ID, CLUSTER_LIST)"""
    v6 = r.chance(1, 4)
    addr = "(ip6 %d)" % (0x20010db8 << 96) if v6 else "(ip4 %d)" % r.pick([0x0a000000, 0xc0000200, 0x0a000001])
    plen = r.pick([8, 24, 32, 64]) if v6 else r.pick([8, 24, 32, 33])
    k = r.below(6)
    if k < 3:
        nlri = "(prefix %s %d)" % (addr, plen)
    elif k < 5:
        nlri = "(labeled (%s) %d %s)" % (" ".join(str(r.pick([3, 100, 1048575])) for _ in range(r.pick([1, 1, 2]))), plen, addr)
    else:
        nlri = "(vpn (100) (some (rd2 65001 %d)) %d %s)" % (r.pick([1, 7]), plen, addr)
    attrs = []
    for _ in range(r.pick([0, 1, 2, 2, 3, 4])):
        j = r.below(14)
        if j == 0:
            attrs.append("(origin %d)" % r.pick([0, 1, 2, 3]))
        elif j == 1:
            attrs.append(gen_api_segments(r))
        elif j in (2, 3):
            attrs.append("(next-hop %s)" % astr(r, r.pick(["ip4", "ip6"]), 10))
        elif j == 4:
            attrs.append("(med %d)" % r.pick(U32S))
        elif j == 5:
            attrs.append("(local-pref %d)" % r.pick(U32S))
        elif j == 6:
            attrs.append("(communities (%s))" % " ".join(str(r.pick(U32S)) for _ in range(r.pick([0, 1, 2]))))
        elif j == 7:
            attrs.append("(originator-id %s)" % astr(r, "ip4", 10))
        elif j == 8:
            attrs.append("(cluster-list (%s))" % " ".join(astr(r, "ip4", 5) for _ in range(r.pick([0, 1, 2]))))
        elif j == 9:
            attrs.append("(ext-communities (%s))" % " ".join(gen_extcom_api(r) for _ in range(r.pick([1, 2]))))
        elif j == 10:
            attrs.append("(aggregator %d %s)" % (r.pick(ASNS), astr(r, "ip4", 10)))
        elif j == 11:      # raw MP_REACH: afi safi nh_len nexthop reserved, well-formed or truncated / odd lengths
            nh = be(r.pick(IP4S), 4) if r.chance(1, 2) else be(r.pick(IP6S), 16)
            b = [0, 1, 1, len(nh)] + nh + [0]
            m = r.below(6)
            if m == 0:
                b = b[:r.below(len(b))]
            elif m == 1:
                b[3] = r.pick([0, 3, 5, 12, 32, 255])
            elif m == 2:
                b = b[:-1]
            attrs.append("(unknown %d 14 %s)" % (r.pick([0, 0x80]), hx(b)))
        elif j == 12 and r.chance(1, 2):
            attrs.append(gen_mp_reach(r))
        elif j == 12:
            attrs.append("(unknown %d %d %s)" % (r.pick([0xc0, 0xe0, 0x80]), r.pick([200, 99]), hx(rand_bytes(r, r.pick([0, 1, 4])))))
        else:
            attrs.append("atomic-aggregate")
    if not v6 and k < 3 and r.chance(1, 2):
        # VRPs around the route (covering / exact / more specific / sibling), origin AS from the path or none
        base = r.pick([0x0a000000, 0xc0000200])
        vrps = []
        for _ in range(r.pick([1, 1, 2, 3])):
            vl = r.pick([0, 8, 16, 24, 32])
            va = base & (0xffffffff << (32 - vl)) & 0xffffffff if vl else 0
            if r.chance(1, 5):
                va = (va ^ (1 << (32 - vl))) & 0xffffffff if vl else 0      # sibling
            vrps.append("(%d %d %d %d)" % (va, vl, r.pick([vl, 24, 32, 8]), r.pick([65001, 65000, 0, 65002, 1])))
        # a well-formed path (so that the request is not refused for another attribute) ending in a VRP's AS,
        # in another AS, in an AS_SET, or no AS_PATH at all (locally originated)
        attrs = [a for a in attrs if a.startswith("(med") or a.startswith("(local-pref") or a.startswith("(communities")]
        tail = r.pick(["(2 (65010 65001))", "(2 (65001))", "(2 (65010 65002))", "(2 (65010)) (1 (65001 65002))",
                       "(2 (65010)) (3 (65001))", None, None])
        if tail:
            attrs.append("(as-path (%s))" % tail)
        return "(grpc %s (%s) (vrps %s))" % (nlri, " ".join(attrs), " ".join(vrps))
    # one in three of the rest: the same request into a VRF (table_type VRF; listed from the VRF's view)
    return "(%s %s (%s))" % ("grpc-vrf" if r.chance(1, 3) else "grpc", nlri, " ".join(attrs))


def gen(seed, n, tier):
    r = Rng(seed * 1000003 + 17)
    out = []
    for _ in range(n):
        k = r.below(22)
        if k >= 20:
            out.append(gen_grpc(r))
        elif k < 6:
            out.append(gen_attr_wire(r))
        elif k < 12:
            out.append(gen_attr_api(r))
        elif k < 15:
            out.append(gen_nlri_wire(r))
        elif k < 18:
            out.append(gen_nlri_api(r))
        else:
            out.append(gen_explore(r))
    return out
