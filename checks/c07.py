from common import Rng

CONFIG = dict(
    level_text="Kernel-checked Lean theorems over ALL histories of the FSM model (at most one confirmed connection, "
               "Established only via the handshake, FSM-error on unexpected messages, down frees the slot, Established "
               "survives, collision survivor = higher identifier) plus the master theorem that the C07 reference checker "
               "accepts every model run; the model is tied to daemon/src/fsm.rs by running the real PeerFsm and the model on "
               "the same generated histories and diffing every output and state, with the reference checker as oracle on the "
               "real outputs.",
    level_note="Trusted: Lean kernel; axioms propext/Classical.choice/Quot.sound; hand-written model (checked only by the "
               "correspondence stream); harness glue for raw OPEN / parse-error handling (transcribed from run_select/"
               "apply_disconnect). Modelled, not verified: tokio scheduling, ConnArbiter close-channel delivery, capability contents.",
    lean_modules=["Rbgp.Fsm.Props"],
    theorems=[
        "Rbgp.Fsm.Props.check_run_ok",
        "Rbgp.Fsm.Props.at_most_one_confirmed",
        "Rbgp.Fsm.Props.reachable_inv",
        "Rbgp.Fsm.Props.established_only_via_handshake",
        "Rbgp.Fsm.Props.openConfirm_only_via_open",
        "Rbgp.Fsm.Props.openSent_only_via_connected",
        "Rbgp.Fsm.Props.invalid_open_never_confirms",
        "Rbgp.Fsm.Props.reconnect_after_down",
        "Rbgp.Fsm.Props.collision_survivor_cases",
        "Rbgp.Fsm.Props.unexpected_msg_fsm_error",
        "Rbgp.Fsm.Props.down_frees_slot",
        "Rbgp.Fsm.Props.connected_after_down_accepted",
        "Rbgp.Fsm.Props.established_survives_newcomer",
        "Rbgp.Fsm.Props.collision_survivor",
    ],
    harness=dict(kind="daemon", test="fsm::verif_fsm::verif_main"),
    profiles=["debug"],
    n_quick=3000, n_thorough=150000, shards=12,
    nontrivial_re=r"established|down|parse-reject",
    rule="random histories over both connection roles of one peer (connect, raw OPEN through the real wire parser with "
         "acceptable/unacceptable AS, hold time and identifier, KEEPALIVE, UPDATE, NOTIFICATION, ROUTE-REFRESH, both timers, "
         "disconnect, admin shutdown, update-sent), biased towards handshake progress and collisions; all orderings of "
         "local/remote identifiers; non-trivial = some connection went down, was parse-rejected or reached Established; "
         "distinct = distinct case line",
    expect_tokens=["established", "(6 7)", "parse-reject", "(5 3)", "(5 4)", "(5 5)", "hold-expired", "close-connection",
                   "stop-active-connect", "(2 2)", "remote-notif", "admin-shutdown", "io-error"],
    trusted_base=["model Rbgp/Fsm/Model.lean of daemon/src/fsm.rs + OPEN acceptance of packet/src/bgp.rs parse_message",
                  "harness/daemon/fsm.rs: a raw OPEN is built by the harness, parsed by the real PeerCodec; on a parse error "
                  "the harness feeds Input::Disconnected as apply_disconnect does (transcribed glue, not the real run_select)"],
    modelled_not_verified=["ConnArbiter's delivery of the collision CEASE through the loser's close channel (observed as the "
                           "PeerFsmOutput only)", "the race between a collision loser's task still feeding inputs and a new "
                           "connection re-using the slot (explored only as input sequences)", "capability contents (C16)"],
    assumptions=["tokio task scheduling is abstracted to a sequence of atomic ConnArbiter::process calls (the arbiter is behind one mutex)"],
)

RIDS = [1, 16843009, 33686018, 167772161, 4294967294]
BAD_RIDS = [0, 4294967295, 3758096385, 4026531839]   # unspecified, broadcast, 224.0.0.1, 239.255.255.255
HOLDS = [0, 3, 9, 90, 240, 65535]
BAD_HOLDS = [1, 2]
# (code, subcode) pairs that Notification::from_notification maps back to themselves
NOTIFS = [(1, 2), (2, 2), (2, 6), (3, 1), (4, 0), (5, 3), (6, 2), (6, 4), (6, 7), (6, 9), (7, 1), (9, 9)]


def gen_case(r):
    local_rid = r.pick(RIDS)
    local_asn = r.pick([65001, 4200000001])
    expected = r.pick([0, 65002, 65002, 4200000002])
    local_hold = r.pick(HOLDS)
    remote_asn = expected if expected != 0 else 65002
    remote_rid = r.pick(RIDS)
    n = 1 + r.below(r.pick([6, 12, 40]))
    evs = []
    # per-role guess of progress to bias towards deep states
    prog = {"A": 0, "P": 0}
    for _ in range(n):
        role = r.pick(["A", "P"])
        p = prog[role]
        if p == 0:
            ev = r.weighted([("connected", 10), ("rand", 2)])
        elif p == 1:
            ev = r.weighted([("open", 10), ("rand", 3)])
        elif p == 2:
            ev = r.weighted([("keepalive", 8), ("rand", 4)])
        else:
            ev = r.weighted([("rand", 6), ("keepalive", 2), ("update", 2), ("connected", 1)])
        if ev == "rand":
            ev = r.pick(["connected", "open", "keepalive", "update", "notification", "rr", "ka-timer", "hold-timer",
                         "disconnected", "admin-shutdown", "update-sent", "open-parsed"])
        if ev == "connected":
            t = "(connected %s)" % r.pick(["t", "f"]); prog[role] = max(prog[role], 1)
        elif ev in ("open", "open-parsed"):
            asn = remote_asn if r.chance(5, 6) else r.pick([65003, 23456, 4200000002, 1])
            hold = r.pick(HOLDS) if (ev == "open-parsed" or r.chance(7, 8)) else r.pick(BAD_HOLDS)
            rid = (remote_rid if r.chance(3, 4) else r.pick(RIDS)) if (ev == "open-parsed" or r.chance(7, 8)) else r.pick(BAD_RIDS)
            if ev == "open" and r.chance(1, 4):
                # wire OPEN whose 2-octet My-AS field and 4-octet-AS capability are chosen independently
                as2 = r.pick([asn if asn < 65536 else 23456, 23456, 65003, remote_asn if remote_asn < 65536 else 1])
                cap4 = r.pick(["none", str(asn), str(remote_asn), "65003", "4200000002"])
                t = "(open-wire %d %s %d %d)" % (as2, cap4, hold, rid)
            else:
                t = "(%s %d %d %d)" % (ev, asn, hold, rid)
            prog[role] = 2 if prog[role] == 1 else 0
        elif ev == "keepalive":
            t = "keepalive"; prog[role] = 3 if prog[role] >= 2 else 0
        elif ev == "update":
            t = "update"
        elif ev == "notification":
            t = "(notification %d %d)" % r.pick(NOTIFS); prog[role] = 0
        elif ev == "rr":
            t = "(route-refresh %d)" % r.pick([1, 2, 3])
        else:
            t = ev
            if ev in ("hold-timer", "disconnected", "admin-shutdown"):
                prog[role] = 0
        evs.append("(%s %s)" % (role, t))
    return "(case (cfg %d %d %d %d) (evs %s))" % (local_rid, local_asn, local_hold, expected, " ".join(evs))


def exhaustive(maxlen):
    """Every history of length <= maxlen over a reduced alphabet (8 events x 2 roles), for the three
    orderings of local vs remote identifier; remote AS/identifier fixed and valid."""
    import itertools
    alpha = []
    for role in ("A", "P"):
        for ev in ("(connected f)", "(open 65002 60 33686018)", "(open 65003 60 33686018)", "keepalive", "update",
                   "(notification 6 2)", "hold-timer", "disconnected"):
            alpha.append("(%s %s)" % (role, ev))
    out = []
    for local_rid in (1, 33686018, 167772161):        # lower, equal, higher than the remote identifier
        for k in range(1, maxlen + 1):
            for seq in itertools.product(alpha, repeat=k):
                out.append("(case (cfg %d 65001 90 65002) (evs %s))" % (local_rid, " ".join(seq)))
    return out


def gen(seed, n, tier):
    r = Rng(seed * 1000003 + 7)
    cases = [gen_case(r) for _ in range(n)]
    if tier == "thorough":
        cases += exhaustive(4)       # 3 * (16 + 256 + 4096 + 65536) = 209,712 histories
    else:
        cases += exhaustive(2)       # 816 histories: every pair of events
    return cases
