from common import Rng

CONFIG = dict(
    level_text="Kernel-checked Lean theorems over ALL histories of the FSM model: the master theorem that the C07 reference "
               "checker accepts every model run; the end-to-end trace theorem (Established at the end of a history => the "
               "history contains, for that role and in order, connected on a free slot, an acceptable OPEN and a KEEPALIVE, with "
               "OpenSent/OpenConfirm/Established held in between, i.e. no tear-down); at most one confirmed connection; FSM-error "
               "on unexpected messages; every tear-down frees the slot and a new attempt is accepted; Established survives a "
               "newcomer; collision survivor = higher identifier.  The model is tied to the code by two correspondence streams, "
               "each with the reference checker as oracle on the REAL observations: (1) the real PeerFsm (and the real wire "
               "parser for OPENs) against the model on generated histories plus an exhaustive breadth-first enumeration of "
               "reachable model states x the full event alphabet, every output and both states compared; (2) driver level: real "
               "session code on loopback TCP (accept_connection, ConnArbiter::process with its oneshot close channels, "
               "run_select, apply_outputs, finish_session, apply_disconnect) against the wire reading of the model, comparing what "
               "each remote speaker receives (OPEN/KEEPALIVE/NOTIFICATION code+subcode/EOF) and both slot states - so the "
               "collision Cease is observed where the loser's peer gets it.",
    level_note="Trusted: Lean kernel; axioms propext/Classical.choice/Quot.sound; hand-written models Rbgp/Fsm/Model.lean and "
               "Rbgp/Fsm/Wire.lean (checked only by the correspondence streams; the wire stream has no Lean master theorem, its "
               "checker Rbgp/Fsm/WireSpec.lean re-uses the proved reference transition Spec.next); in the wire rig "
               "(harness/daemon/rig.rs) session_loop's preamble/tail and run's call of apply_disconnect are transcribed, "
               "admin shutdown is sent to one role's close channel, timer expiry is provoked by replacing the timer collection "
               "with sleep(0), and sessions are pumped one at a time to quiescence (no concurrency between the two tasks).  Open "
               "finding F07-update-before-open-exchange (an UPDATE with routes in OpenSent is answered (3,1), not FSM error "
               "(5,3)).  An OPEN unacceptable for several reasons may be refused with any NOTIFICATION that applies.  Modelled, "
               "not verified: tokio scheduling and the races it allows (collision loser still feeding inputs while a new "
               "connection re-uses the slot; CloseConnection for a duplicate connection is unreachable at quiescence because "
               "accept_connection refuses it first), capability contents (C16).",
    lean_modules=["Rbgp.Fsm.Props"],
    theorems=[
        "Rbgp.Fsm.Props.check_run_ok",
        "Rbgp.Fsm.Props.established_trace",
        "Rbgp.Fsm.Props.acceptable_wire_open",
        "Rbgp.Fsm.Props.at_most_one_confirmed",
        "Rbgp.Fsm.Props.reachable_inv",
        "Rbgp.Fsm.Props.established_only_via_handshake",
        "Rbgp.Fsm.Props.openConfirm_only_via_open",
        "Rbgp.Fsm.Props.openSent_only_via_connected",
        "Rbgp.Fsm.Props.invalid_open_never_confirms",
        "Rbgp.Fsm.Props.reconnect_after_down",
        "Rbgp.Fsm.Props.collision_survivor_cases",
        "Rbgp.Fsm.Props.unexpected_msg_fsm_error",
        "Rbgp.Fsm.Props.down_frees_slot",
        "Rbgp.Fsm.Props.connected_after_down_accepted",
        "Rbgp.Fsm.Props.established_survives_newcomer",
        "Rbgp.Fsm.Props.collision_survivor",
    ],
    # one entry point for both kinds of case line: (case ..) -> FSM harness run_case_c07 (re-included),
    # (wire ..) -> real session code on loopback TCP (harness/daemon/rig.rs)
    harness=dict(kind="daemon", test="event::verif_event::c07::verif_main"),
    profiles=["debug"],
    n_quick=3000, n_thorough=150000, shards=12,
    nontrivial_re=r"established|down|parse-reject|notif|eof",
    rule="(a) random histories over both connection roles of one peer (connect, raw OPEN through the real wire parser with "
         "acceptable/unacceptable AS, hold time and identifier - also several at once -, KEEPALIVE, UPDATE, NOTIFICATION, "
         "ROUTE-REFRESH, both timers, disconnect, admin shutdown, update-sent), biased towards handshake progress and "
         "collisions; all orderings of local/remote identifiers; (b) exhaustive: breadth-first search over the reachable states "
         "of the model (28 per configuration) x the full alphabet of 38 role/event pairs, for local identifier lower/equal/"
         "higher than the remote one: 3192 histories, so Established-vs-newcomer and every collision are covered in every "
         "run; (c) about one case in forty is a driver-level wire case (real TCP, real ConnArbiter close channels); (d) "
         "deterministic sweep in every run: one handshake per combination of boundary identifier (0, 1, 223.255.255.255, "
         "224.0.0.0, 239.255.255.255, 240.0.0.0, 255.255.255.254, 255.255.255.255) x hold time (0,1,2,3,4,65534,65535) x AS "
         "(expected, other, 0, 1, AS_TRANS, 65535, 65536, 2^32-1) for expected AS 65002 and 'any', and the collision decision "
         "for local identifier equal / adjacent / byte-swapped relative to the remote one in both arrival orders (FSM and "
         "wire level); "
         "non-trivial = some connection went down, was parse-rejected, reached Established, or a NOTIFICATION/EOF was "
         "delivered; distinct = distinct case line",
    expect_tokens=["established", "(6 7)", "parse-reject", "(5 3)", "(5 4)", "(5 5)", "hold-expired", "close-connection",
                   "stop-active-connect", "(2 2)", "remote-notif", "admin-shutdown", "io-error",
                   "wire-obs", "(notif 6 7)", "(notif 2 6)", "(notif 2 3)", "(notif 2 2)", "(notif 5 4)", "(notif 4 0)",
                   "(notif 6 2)", "(notif 6 3)", "refused", "no-conn"],
    trusted_base=["model Rbgp/Fsm/Model.lean of daemon/src/fsm.rs + OPEN acceptance of packet/src/bgp.rs parse_message; "
                  "Rbgp/Fsm/Wire.lean: which frames a step's outputs put on the wire",
                  "harness/daemon/fsm.rs (FSM stream): a raw OPEN is built by the harness, parsed by the real PeerCodec; on a "
                  "parse error the harness feeds Input::Disconnected (transcribed; the wire stream runs the real path)",
                  "harness/daemon/rig.rs (wire stream): transcribed session_loop preamble/tail and run->apply_disconnect call, "
                  "single-threaded pumping to quiescence under the runtime's paused clock (a session is idle when run_select stays "
                  "pending over several driver turns)"],
    modelled_not_verified=["races between the two session tasks of one peer (tokio scheduling): the rig serialises them",
                           "PeerFsmOutput::CloseConnection in apply_outputs (unreachable at quiescence: accept_connection "
                           "refuses a second connection of a role first)", "run's last block (clear_session_state / "
                           "enable_active_connect / peer removal)", "capability contents (C16)"],
    assumptions=["the two session tasks of a peer are serialised: every step runs to quiescence before the next action "
                 "(the arbiter is behind one mutex; message-level interleavings are histories of the FSM stream)"],
)

RIDS = [1, 16843009, 33686017, 33686018, 33686019, 167772161, 4294967294]   # incl. neighbours of 33686018
BAD_RIDS = [0, 4294967295, 3758096384, 3758096385, 4026531839]   # unspecified, broadcast, 224.0.0.1, 239.255.255.255
HOLDS = [0, 3, 4, 9, 90, 240, 65534, 65535]
BAD_HOLDS = [1, 2]
# (code, subcode) pairs that Notification::from_notification maps back to themselves
NOTIFS = [(1, 2), (2, 2), (2, 6), (3, 1), (4, 0), (5, 3), (6, 2), (6, 4), (6, 7), (6, 9), (7, 1), (9, 9)]


def gen_case(r):
    local_rid = r.pick(RIDS)
    local_asn = r.pick([65001, 4200000001])
    expected = r.pick([0, 65002, 65002, 4200000002])
    local_hold = r.pick(HOLDS)
    remote_asn = expected if expected != 0 else 65002
    remote_rid = r.pick(RIDS)
    n = 1 + r.below(r.pick([6, 12, 40]))
    evs = []
    # per-role guess of progress to bias towards deep states
    prog = {"A": 0, "P": 0}
    for _ in range(n):
        role = r.pick(["A", "P"])
        p = prog[role]
        if p == 0:
            ev = r.weighted([("connected", 10), ("rand", 2)])
        elif p == 1:
            ev = r.weighted([("open", 10), ("rand", 3)])
        elif p == 2:
            ev = r.weighted([("keepalive", 8), ("rand", 4)])
        else:
            ev = r.weighted([("rand", 6), ("keepalive", 2), ("update", 2), ("connected", 1)])
        if ev == "rand":
            ev = r.pick(["connected", "open", "keepalive", "update", "notification", "rr", "ka-timer", "hold-timer",
                         "disconnected", "admin-shutdown", "update-sent", "open-parsed"])
        if ev == "connected":
            t = "(connected %s)" % r.pick(["t", "f"]); prog[role] = max(prog[role], 1)
        elif ev in ("open", "open-parsed"):
            asn = remote_asn if r.chance(5, 6) else r.pick([65003, 23456, 4200000002, 1])
            hold = r.pick(HOLDS) if (ev == "open-parsed" or r.chance(7, 8)) else r.pick(BAD_HOLDS)
            rid = (remote_rid if r.chance(3, 4) else r.pick(RIDS)) if (ev == "open-parsed" or r.chance(7, 8)) else r.pick(BAD_RIDS)
            if ev == "open" and r.chance(1, 4):
                # wire OPEN whose 2-octet My-AS field and 4-octet-AS capability are chosen independently
                as2 = r.pick([asn if asn < 65536 else 23456, 23456, 65003, remote_asn if remote_asn < 65536 else 1])
                cap4 = r.pick(["none", str(asn), str(remote_asn), "65003", "4200000002"])
                t = "(open-wire %d %s %d %d)" % (as2, cap4, hold, rid)
            else:
                t = "(%s %d %d %d)" % (ev, asn, hold, rid)
            prog[role] = 2 if prog[role] == 1 else 0
        elif ev == "keepalive":
            t = "keepalive"; prog[role] = 3 if prog[role] >= 2 else 0
        elif ev == "update":
            t = "update"
        elif ev == "notification":
            t = "(notification %d %d)" % r.pick(NOTIFS); prog[role] = 0
        elif ev == "rr":
            t = "(route-refresh %d)" % r.pick([1, 2, 3])
        else:
            t = ev
            if ev in ("hold-timer", "disconnected", "admin-shutdown"):
                prog[role] = 0
        evs.append("(%s %s)" % (role, t))
    return "(case (cfg %d %d %d %d) (evs %s))" % (local_rid, local_asn, local_hold, expected, " ".join(evs))


def bfs_cases():
    """Exhaustive part: breadth-first search over the reachable states of the MODEL (computed by the Lean driver, so the
    search cannot drift from the model) x the FULL event alphabet of both roles, for the three orderings of local vs
    remote identifier.  A model state is identified by both role states plus, for a confirmed role, the OPEN that
    confirmed it (that fixes every field of the connection).  One case per (state, event): the shortest history found
    reaching the state, followed by the event.  About 20 states x 38 events x 3 configurations."""
    import os, subprocess
    drv = os.path.join(os.path.dirname(os.path.dirname(os.path.abspath(__file__))), "lean", ".lake", "build", "bin", "drv_c07")
    if not os.path.exists(drv):
        return []
    opens_ok = ["(open 65002 60 33686018)", "(open 65002 0 33686018)", "(open-parsed 65002 60 33686018)"]
    alpha_ev = ["(connected f)", "(connected t)"] + opens_ok + [
        "(open 65003 60 33686018)",          # unexpected AS
        "(open 65002 1 33686018)",           # unacceptable hold time
        "(open 65002 60 0)",                 # unacceptable identifier
        "(open 65002 2 4294967295)",         # both
        "keepalive", "update", "(notification 6 2)", "(notification 4 0)", "(route-refresh 1)",
        "ka-timer", "hold-timer", "disconnected", "admin-shutdown", "update-sent"]
    alpha = ["(%s %s)" % (role, ev) for role in ("A", "P") for ev in alpha_ev]
    st_re = __import__("re").compile(r"\) (idle|connect|active|opensent|openconfirm|established) (idle|connect|active|opensent|openconfirm|established)\)")

    def keys_of(local_rid, hists):
        """final state key of each history (list of event strings), via the model"""
        lines = ["(case (cfg %d 65001 90 65002) (evs %s))" % (local_rid, " ".join(h)) for h in hists]
        p = subprocess.run([drv, "model"], input="\n".join(lines) + "\n", stdout=subprocess.PIPE, text=True, timeout=600)
        outs = p.stdout.split("\n")
        keys = []
        for h, o in zip(hists, outs):
            sts = st_re.findall(o)
            if len(sts) != len(h):
                keys.append(None)
                continue
            conf = {"A": None, "P": None}
            prev = ("idle", "idle")
            for ev, (a, pp) in zip(h, sts):
                cur = {"A": a, "P": pp}
                role = ev[1]
                was = prev[0] if role == "A" else prev[1]
                if was == "opensent" and cur[role] == "openconfirm":
                    conf[role] = ev[3:]
                for rr in ("A", "P"):
                    if cur[rr] not in ("openconfirm", "established"):
                        conf[rr] = None
                prev = (a, pp)
            keys.append((prev[0], conf["A"], prev[1], conf["P"]))
        return keys

    out = []
    for local_rid in (1, 33686018, 167772161):        # lower, equal, higher than the remote identifier
        seen = {("idle", None, "idle", None): []}
        frontier = [[]]
        while frontier:
            cands = [h + [e] for h in frontier for e in alpha]
            keys = keys_of(local_rid, cands)
            nxt = []
            for h, k in zip(cands, keys):
                out.append("(case (cfg %d 65001 90 65002) (evs %s))" % (local_rid, " ".join(h)))
                if k is not None and k not in seen:
                    seen[k] = h
                    nxt.append(h)
            frontier = nxt
    return out


def gen_wire(r):
    """Driver-level case (harness/daemon/rig.rs: real accept_connection / ConnArbiter::process with real close
    channels / run_select / apply_disconnect on loopback TCP); model Rbgp/Fsm/Wire.lean."""
    local_hold = r.pick([0, 3, 90, 90, 240])
    remote_hold = r.pick([0, 3, 30, 90])
    local_rid = r.pick([16777217, 33686018, 167772161])
    remote_rid = 33686018
    expected = r.pick([0, 65002, 65002])
    evs = []
    prog = {"A": 0, "P": 0}
    for _ in range(2 + r.below(r.pick([4, 8, 10]))):
        role = r.pick(["A", "P"])
        p = prog[role]
        if p == 0:
            k = r.weighted([("connect", 10), ("rand", 1)])
        elif p == 1:
            k = r.weighted([("open", 10), ("rand", 3)])
        elif p == 2:
            k = r.weighted([("keepalive", 6), ("rand", 4)])
        else:
            k = r.weighted([("rand", 6), ("keepalive", 2), ("connect", 2)])
        if k == "rand":
            k = r.pick(["connect", "open", "badopen", "keepalive", "update", "update-looped", "update-looped", "update-attrs",
                        "update-attrs", "eor", "notification", "route-refresh", "close", "admin-shutdown", "hold-timer",
                        "ka-timer", "reset", "bfd-down"])
        if k == "connect":
            t = "connect"; prog[role] = max(prog[role], 1)
        elif k == "open":
            t = "(open %d %d %d)" % (65002 if r.chance(7, 8) else 65003, remote_hold, remote_rid)
            prog[role] = 2 if prog[role] == 1 else 0
        elif k == "badopen":
            t = "(open 65002 %d %d)" % (r.pick([1, 2, remote_hold]), r.pick([0, 4294967295, 3758096385, remote_rid]))
            prog[role] = 0
        elif k == "notification":
            t = "(notification %d %d)" % r.pick(NOTIFS); prog[role] = 0
        elif k == "keepalive":
            t = k; prog[role] = 3 if prog[role] >= 2 else 0
        elif k == "ka-timer":
            if min(local_hold, remote_hold) == 0:
                continue            # a keepalive interval of 0 re-fires at once (outside the property, see C08)
            t = k
        else:
            t = k
            if k in ("close", "admin-shutdown", "hold-timer"):
                prog[role] = 0
            if k in ("reset", "bfd-down"):
                prog = {"A": 0, "P": 0}
        evs.append("(%s %s)" % (role, t))
    return "(wire (cfg %d 65001 %d %d) (evs %s))" % (local_rid, local_hold, expected, " ".join(evs))


# exact boundaries of the three checked OPEN fields (validId: 0, 224.0.0.0-239.255.255.255 and 255.255.255.255 are refused)
EDGE_RIDS = [0, 1, 3758096383, 3758096384, 4026531839, 4026531840, 4294967294, 4294967295]
EDGE_HOLDS = [0, 1, 2, 3, 4, 65534, 65535]
EDGE_ASNS = [65002, 65003, 0, 1, 23456, 65535, 65536, 4294967295]   # expected AS is 65002 or 0 (any)


def open_sweep():
    """Deterministic, in EVERY run: one handshake per combination of boundary identifier x hold time x AS number (raw OPEN
    through the real parser), for expected AS 65002 and 'any'; and the collision decision for local identifiers equal,
    adjacent (+-1) and byte-swapped relative to the remote one, with the OPENs arriving in either order."""
    out = []
    for expected in (65002, 0):
        for rid in EDGE_RIDS:
            for hold in EDGE_HOLDS:
                for asn in EDGE_ASNS:
                    out.append("(case (cfg 16843009 65001 90 %d) (evs (A (connected f)) (A (open %d %d %d)) (A keepalive)))"
                               % (expected, asn, hold, rid))
    remote = 33554433          # 2.0.0.1
    for local in (remote, remote - 1, remote + 1, 16777218, 4294967294, 1):      # 16777218 = 1.0.0.2: byte-swapped order differs
        for first, second in (("A", "P"), ("P", "A")):
            out.append("(case (cfg %d 65001 90 65002) (evs (A (connected f)) (P (connected f)) (%s (open 65002 90 %d)) "
                       "(%s (open 65002 90 %d)) (A keepalive) (P keepalive)))" % (local, first, remote, second, remote))
            out.append("(wire (cfg %d 65001 90 65002) (evs (A connect) (P connect) (%s (open 65002 90 %d)) "
                       "(%s (open 65002 90 %d)) (A keepalive) (P keepalive)))" % (local, first, remote, second, remote))
    return out


def gen(seed, n, tier):
    r = Rng(seed * 1000003 + 7)
    cases = []
    for _ in range(n):
        cases.append(gen_wire(r) if r.chance(1, 40) else gen_case(r))   # wire cases cost ~0.3 s of real time each
    cases += bfs_cases()
    cases += open_sweep()
    return cases
