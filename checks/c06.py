import ribgen

CONFIG = dict(
    level_text="Kernel-checked Lean theorems about a model of table/src/lib.rs for ALL well-formed cases and ALL finite histories "
               "of the twelve Table operations: every returned NlriChange carries exactly the exportable (ranked, eligible) paths "
               "of its prefix after the step; a prefix whose exportable list changes gets a notification with any_changed, one "
               "whose best identity (source, attributes, next hop) changes gets one with best_changed; at most one notification "
               "per prefix and step (restale_llgr: one per re-marked usable path, all with the same paths and id); destination ids of "
               "live prefixes are pairwise distinct and stable, the bitmap IdAllocator refines the model's id set; a deferring family is "
               "silent and the end of a deferral announces every prefix with an exportable path; and the master theorem: the C06 "
               "reference checker (three consumers keyed by the notified destination id folding the stream: full, best-only, add-path; "
               "plus a reference path set folded from the operations that every dump must equal) accepts every model run.  The "
               "model is tied to the real code by running the real Table and the model on the same generated histories and "
               "diffing complete observations after every operation; the reference checker is the oracle on the real outputs.",
    level_note="Trusted: Lean kernel; axioms propext/Classical.choice/Quot.sound; the hand-written model (checked only by the "
               "correspondence stream); harness glue (case decoding, Arc identity -> index). Modelled, not verified: hash-map "
               "iteration order (notifications of one call are compared as a set keyed by prefix), sort_unstable tie order, u32 "
               "wrap of next_path_id; one Table (shard) per case, shard index from the case.",
    lean_modules=["Rbgp.Rib.PropsC06", "Rbgp.Rib.PropsCodec", "Rbgp.Rib.PropsAlloc", "Rbgp.Rib.BitAlloc"],
    theorems=[
        "Rbgp.Rib.PropsCodec.c06_check_run_ok_of_codec",
        "Rbgp.Rib.PropsC06.check_run_ok",
        "Rbgp.Rib.PropsC06.fold_full_eq",
        "Rbgp.Rib.PropsC06.fold_nonaddpath_best_eq",
        "Rbgp.Rib.PropsC06.fold_addpath_topN_eq",
        "Rbgp.Rib.PropsC06.ids_unique",
        "Rbgp.Rib.PropsC06.deferral_silent",
        "Rbgp.Rib.PropsC06.end_deferral_complete",
        "Rbgp.Rib.PropsC06.notified_id",
        "Rbgp.Rib.PropsC06.one_per_prefix",
        "Rbgp.Rib.PropsC06.same_prefix_same_payload",
        "Rbgp.Rib.PropsC06.id_stable",
        "Rbgp.Rib.PropsAlloc.alloc_lowest_free",
        "Rbgp.Rib.PropsAlloc.dealloc_frees_exactly",
        "Rbgp.Rib.BitAlloc.alloc_spec",
        "Rbgp.Rib.BitAlloc.dealloc_spec",
        "Rbgp.Rib.BitAlloc.alloc_refines",
        "Rbgp.Rib.BitAlloc.alloc_rel",
        "Rbgp.Rib.BitAlloc.dealloc_rel",
        "Rbgp.Rib.BitAlloc.allocFull_refines",
        "Rbgp.Rib.BitAlloc.deallocFull_rel",
        "Rbgp.Rib.BitAlloc.pack_inj",
        "Rbgp.Rib.BitAlloc.reach_WF",
    ],
    harness=dict(kind="pt", bin="c06"),
    profiles=["debug", "release"], profile_in_case=True,
    n_quick=1500, n_thorough=120000, shards=12,
    # non-trivial = some operation returned a notification
    nontrivial_re=r"\(st \(chs? \(",
    rule="histories over one Table: up to 6 prefixes in two families, up to 5 sessions incl. a restarted session of the same "
         "peer address, path-ids 0-2, attribute sets from colliding domains, next hops 1-3/none; operations insert, replace, "
         "remove, drop peer, restale, restale_llgr, drop_stale, drop_llgr_stale, drop_no_llgr, next-hop validity flips, "
         "start/end deferral (deferral stream: families deferred from the start), prefix limits; plus structural mutations; "
         "distinct = distinct case line",
    expect_tokens=["nochange", "limit", "(chs)", "(chs (", "(ch (", " f t - ", " t t - ", " f t 1 ", "(stale 0",
                   "(llgr 0", "(fam ev (dests ((m", "(bad-case)", "purge-hit", "restale-rebest", "restale-llgr-rebest",
                   "id-ge-64", "id-ge-128"],
    trusted_base=["model Rbgp/Rib/Model.lean of table/src/lib.rs",
                  "harness/pt/src/rib.rs (shared with C02/C15): real Table through its public API; every returned "
                  "InsertResult / NlriChange and collect_loc_rib_paths after each step are observed"],
    modelled_not_verified=["hash-map iteration order", "sort_unstable tie order", "u32 wrap-around of next_path_id",
                           "one table per case (its shard index is taken from the case; the dest_id packing is observed, the "
                           "bitmap IdAllocator is modelled in BitAlloc.lean and proved to refine the model's id set)"],
    assumptions=["well-formed case (Case.WF): one family per Source, sources referred to by position",
                 "a deferral is an episode that starts on a family whose exportable state is empty (the restarting speaker at "
                 "start-up, daemon/src/event/mod.rs); a family whose deferral starts otherwise is not judged by the fold clauses "
                 "until the end of that deferral re-announces everything (Table::insert is silent while deferring, so a consumer "
                 "that already holds state for the family cannot be kept exact by any stream)",
                 "one session of a peer is established at a time (C07), see C02"],
    claimed=True,
)


def gen(seed, n, tier):
    return ribgen.gen(seed, n, tier, "C06")
