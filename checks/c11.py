from common import Rng

CONFIG = dict(
    claimed=True,
    level_text="Kernel-checked Lean theorems over ALL histories of the restarting-speaker model (RestartingDeferral + the "
               "per-family RIB deferral flag + the glue that couples them + the selection-deferral timer handle): the C11 "
               "reference checker accepts every model run; while a family is deferred no change for it is emitted by any RIB "
               "mutator; a family is released exactly at the step after which no pending helper holds it, or at timer expiry; "
               "the release announces exactly the prefixes held, once each, with the flags every neighbour acts on, and clears "
               "the deferral flag; the timer is requested exactly when the first helper establishes with GR, with the "
               "configured duration, and is armed until nothing is waited for; the restarting flag (selection_deferral "
               "installed) is set exactly while something is waited for; a non-GR peer never enters `pending`; the machine "
               "is never left installed AwaitingStart/Deferring/Completed with empty `pending`; no family is released twice.  "
               "The model is tied to the daemon by driving, on the same generated histories, the REAL process_effects("
               "GrSessionEstablished / GrEorReceived), process_restarting_outputs, gr_selection_deferral_timer_expired and "
               "(over a loopback connection) accept_connection + PeerSession::run against a real Global and a real "
               "TableManager, and diffing every output, pending set, Global.selection_deferral(_timer), flag and distributed "
               "NlriChange (with best_changed/any_changed), with the reference checker as oracle on the real observations.",
    level_note="Trusted: Lean kernel; axioms propext/Classical.choice/Quot.sound; hand-written model (checked only by the "
               "correspondence stream).  Two streams.  (1) `(case ...)`: model <-> real glue functions on a real Global / "
               "TableManager (diffed + oracle); there the start-up block of `serve` is transcribed and the machine outputs "
               "come from a shadow RestartingDeferral.  (2) `(wire ...)`: the whole daemon started as main.rs starts it "
               "(config::read_from_file of a generated TOML file -> event::main(conf, false, graceful_restart=true, api)), "
               "remote speakers over loopback TCP; NOTHING of the daemon is called or read from inside, the selection-"
               "deferral timer elapses in its real spawned task in real time (2 s); judged by the socket-level reference "
               "checker Rbgp/Gr/Restarting/Wire.lean ONLY (there is no model of the export path: no correspondence diff "
               "and no theorem for this stream, impl_only_re).  Modelled, not verified: route ranking inside a "
               "destination (C02).",
    lean_modules=["Rbgp.Gr.Restarting.Props"],
    theorems=[
        "Rbgp.Gr.Restarting.Props.check_run_ok",
        "Rbgp.Gr.Restarting.Props.rel_after",
        "Rbgp.Gr.Restarting.Props.deferring_silent",
        "Rbgp.Gr.Restarting.Props.unregister_silent",
        "Rbgp.Gr.Restarting.Props.route_event_silent",
        "Rbgp.Gr.Restarting.Props.deferring_silent_step",
        "Rbgp.Gr.Restarting.Props.change_free_or_released",
        "Rbgp.Gr.Restarting.Props.family_complete_iff",
        "Rbgp.Gr.Restarting.Props.release_clears_flag",
        "Rbgp.Gr.Restarting.Props.timer_ends_all",
        "Rbgp.Gr.Restarting.Props.timer_clears_everything",
        "Rbgp.Gr.Restarting.Props.release_exactly_held",
        "Rbgp.Gr.Restarting.Props.announce_once",
        "Rbgp.Gr.Restarting.Props.nongr_never_blocks",
        "Rbgp.Gr.Restarting.Props.pending_keys_shrink",
        "Rbgp.Gr.Restarting.Props.initial_pending_configured",
        "Rbgp.Gr.Restarting.Props.no_stuck_deferring",
        "Rbgp.Gr.Restarting.Props.completes_iff_pending_empty",
        "Rbgp.Gr.Restarting.Props.each_family_released_once",
    ],
    harness=dict(kind="daemon", test="event::verif_event::c11::verif_main"),
    profiles=["debug"],
    impl_only_re=r"^\(wire ",
    n_quick=2500, n_thorough=40000, shards=12,
    nontrivial_re=r"\(complete |\(end |\(reach ",
    rule="histories over <= 4 peer addresses (3 configurable helpers + 1 stranger) x 3 families x 4 prefixes: "
         "peer-established with any GR family subset (empty = no GR), End-of-RIB, peer-withdrawn, timer-expired, interleaved "
         "with route insertions / withdrawals / per-peer family drops into the (deferred) tables; in half of the random "
         "histories also: the end of an established helper session by an I/O error (REAL finish_session -> "
         "unregister_peer(drop, stale) -> restale), mark_stale, mark_llgr_stale, drop_stale_families, "
         "drop_llgr_stale_families and update_nexthop_validity on the real TableManager, hitting deferred and released "
         "families alike; mostly-sane stream (EOR "
         "only from established GR peers, timer only once started) + an unconstrained stream (EOR from strangers and stale "
         "timer expiries are in the oracle's domain and must change nothing); selection-deferral time absent / 0 / 360 / 7; "
         "plus, computed by BFS in the "
         "model: every reachable machine state x every input (configured peers + a stranger, every family subset), each "
         "state driven along a shortest path with routes inserted before (quick: 2 helpers x 2 configured families = 703 "
         "cases; thorough: 3 helpers x 3 families, three more configurations, and random extensions of the shortest "
         "paths); plus the socket-level stream: 96 (quick) / 1200 (thorough) `(wire ...)` histories of est / eor / wd / ins / rm "
         "/ timer over 4 speakers, 3 families; non-trivial = some family was released; distinct = distinct case line",
    expect_tokens=["(complete 0)", "(complete 1)", "(complete 2)", "(end ())", "(end (0", "(end (1", "(end (2", "awaiting", "deferring",
                   "absent", "(timer (some 360", "(timer (some 7", "(timer none)", "(defer (", " adv)", " chg)",
                   "(open r)", "(open n)", "(reach 0 ", "(reach 1 ", "(reach 2 ", "(unreach ", "(eor 0)", "(eor 1)", "(eor 2)"],
    trusted_base=["model Rbgp/Gr/Restarting/Model.lean of daemon/src/gr.rs RestartingDeferral + Rib.deferring coupling + glue",
                  "(case) stream, harness/daemon/c11.rs: the start-up block of `serve` is transcribed there (the REAL one runs "
                  "in every (wire) case: peer set from the neighbor list, duration default / 0 = disabled through "
                  "stale-routes-time absent / 0 / 2 / 360 in the generated file); the output list shown in an observation "
                  "comes from a shadow RestartingDeferral fed the same inputs; Rib.deferring is observed by a probe "
                  "insert/remove on every shard; when no loopback connection can be made from 127.0.0.(2+p), `wd` falls "
                  "back to feeding PeerWithdrawn as the tail of PeerSession::run does",
                  "(wire) stream, harness/daemon/c11w.rs: the remote speakers are the harness's (OPEN with MP x3 / AS4 / "
                  "graceful-restart capability, KEEPALIVE, UPDATE, End-of-RIB frames written; received frames decoded: "
                  "OPEN R-bit, MP_REACH/MP_UNREACH/NLRI prefixes, End-of-RIB, NOTIFICATION); a step ends when nothing has "
                  "arrived for 16 scheduler turns; the reference checker Wire.lean is trusted as a reading of the text "
                  "(hand-checked decide examples for every clause, no model behind it)",
                  "(wire) stream: a case whose 2 s timer could have fired before the case's `timer` event is reported "
                  "`(wire-inconclusive timer-race)` and accepted (none in 420 development cases); a case that cannot set up its "
                  "sockets although it retried for minutes (the box out of ephemeral ports: AddrInUse on bind/connect) or "
                  "exceeds 400 s four times is `(wire-inconclusive setup|timeout)` and accepted too — only environment "
                  "failures are, never what the daemon sends or omits; the harness prints each such case and the first "
                  "panic messages on stderr"],
    modelled_not_verified=["(case) stream: the sleep of the selection-deferral timer task (expiry is an explicit event calling the real "
                           "handler); in the (wire) stream the real task sleeps and fires",
                           "(wire) stream: one origin per prefix, three families on every session, no Add-Path, default policies; "
                           "what is demanded of the export path is only what the text says (nothing of a held family, each "
                           "released prefix once to everybody else, End-of-RIB behind it, R-bit while waiting)",
                           "one path per (peer, prefix), no import filtering (C02/C06 cover ranking and filtered paths); next-hop "
                           "validity is per announcing peer (each peer announces with its own next hop)",
                           "gdown: the PeerSession handed to the real finish_session is filled by the harness with what "
                           "on_established / apply_outputs would have given it (one Source per family, negotiated_gr)"],
    assumptions=["RestartingDeferral is only touched under the global write lock, so its inputs are a sequence"],
)

NP, NF, NX = 4, 3, 4


def fams_str(fs):
    return "(" + " ".join(str(f) for f in fs) + ")"


def subset(r, universe, pnum=1, pden=2):
    return [x for x in universe if r.chance(pnum, pden)]


def gen_case(r, sane):
    # configuration: 0..3 helpers among peers 0..2, peer 3 is usually a stranger
    peers = []
    npe = r.weighted([(1, 3), (2, 5), (3, 4), (0, 1)])
    ids = [0, 1, 2, 3]
    for i in range(npe):
        p = ids[i] if r.chance(7, 8) else r.pick(ids)
        fs = subset(r, range(NF), 1, 2)
        if not fs and r.chance(3, 4):
            fs = [r.below(NF)]
        if r.chance(1, 12):
            fs = fs + [r.below(NF)]
        peers.append((p, fs))
    cfgd = {}
    for p, fs in peers:
        cfgd[p] = fs
    dur = r.pick(["none", "(some 0)", "(some 360)", "(some 360)", "(some 7)"])
    n = 1 + r.below(r.pick([4, 8, 14, 24]))
    evs = []
    up = {}
    started = False
    # a share of the histories also runs the GR-helper / next-hop mutators against the (deferred) tables
    helper = r.chance(1, 2)
    kinds = [("est", 6), ("eor", 8), ("wd", 3), ("timer", 1), ("ins", 7), ("rm", 2), ("drop", 1)]
    if helper:
        kinds += [("gdown", 3), ("stale", 2), ("llgr", 1), ("purge", 1), ("lpurge", 1), ("nhv", 2)]
    pend_wd = None
    for _ in range(n):
        k = r.weighted(kinds)
        if pend_wd is not None and r.chance(3, 4):
            # a session that ended is normally followed by the machine being told (tail of `run`)
            up.pop(pend_wd, None)
            evs.append("(wd %d)" % pend_wd)
            pend_wd = None
            continue
        if k == "est":
            p = r.pick(list(cfgd.keys())) if (cfgd and r.chance(3, 4)) else r.below(NP)
            base = cfgd.get(p, [])
            w = r.below(10)
            if w < 5:
                fs = list(base)
            elif w < 7:
                fs = subset(r, base, 1, 2)
            elif w < 8:
                fs = []
            else:
                fs = subset(r, range(NF), 1, 2)
            if sane and p in up and r.chance(3, 4):
                continue
            up[p] = fs
            if fs and p in cfgd:
                started = True
            evs.append("(est %d %s)" % (p, fams_str(fs)))
        elif k == "eor":
            cands = [p for p in up if up[p]]
            if sane:
                if not cands:
                    continue
                p = r.pick(cands)
                f = r.pick(up[p]) if r.chance(5, 6) else r.below(NF)
            else:
                p = r.below(NP)
                f = r.below(NF)
            evs.append("(eor %d %d)" % (p, f))
        elif k == "wd":
            p = r.pick(list(up.keys())) if (up and r.chance(3, 4)) else r.below(NP)
            up.pop(p, None)
            evs.append("(wd %d)" % p)
        elif k == "timer":
            if sane and not started:
                continue
            evs.append("timer")
        elif k == "ins":
            evs.append("(ins %d %d %d)" % (r.below(NP), r.below(NF), r.below(NX)))
        elif k == "gdown":
            p = r.pick(list(up.keys())) if (up and r.chance(5, 6)) else r.below(NP)
            evs.append("(gdown %d)" % p)
            if p in up:
                pend_wd = p
        elif k in ("stale", "llgr", "purge", "lpurge"):
            evs.append("(%s %d %d)" % (k, r.below(NP), r.below(NF)))
        elif k == "nhv":
            evs.append("(nhv %d %s)" % (r.below(NP), "f" if r.chance(3, 5) else "t"))
        elif k == "rm":
            evs.append("(rm %d %d %d)" % (r.below(NP), r.below(NF), r.below(NX)))
        else:
            evs.append("(drop %d %d)" % (r.below(NP), r.below(NF)))
    ps = " ".join("(%d %s)" % (p, fams_str(fs)) for p, fs in peers)
    return "(case (peers%s) (dur %s) (evs%s))" % ((" " + ps) if ps else "", dur, (" " + " ".join(evs)) if evs else "")


def gen_wire(r):
    """a socket-level case: the real daemon started in Restarting mode from a configuration file, remote speakers
    over TCP.  Only what a remote speaker can do: est (of a speaker that is not up), eor / ins / rm (of one that is),
    wd, and the timer (then the selection-deferral time is 2 s and elapses in real time).  Every prefix has one
    origin (prefix n is only ever announced by peer n mod 4)."""
    peers = []
    npe = r.weighted([(1, 3), (2, 6), (3, 3), (0, 1)])
    for i in range(npe):
        fs = subset(r, range(NF), 1, 2) or [r.below(NF)]
        peers.append((i, fs))
    cfgd = dict(peers)
    with_timer = r.chance(1, 4)
    dur = "(some 2)" if with_timer else r.pick(["none", "(some 0)", "(some 360)"])
    n = 2 + r.below(r.pick([4, 7, 10]))
    evs, up = [], {}
    timer_done = False
    since_est = 0
    # most histories begin with a helper that comes up and announces something, and somebody to tell it to
    if cfgd and r.chance(3, 4):
        p = r.pick(list(cfgd.keys()))
        up[p] = list(cfgd[p])
        evs.append("(est %d %s)" % (p, fams_str(up[p])))
        for _ in range(1 + r.below(3)):
            evs.append("(ins %d %d %d)" % (p, r.pick(cfgd[p]) if r.chance(3, 4) else r.below(NF), p % NX))
        since_est = len(evs)
    for _ in range(n):
        k = r.weighted([("est", 6), ("eor", 6), ("wd", 2), ("ins", 5), ("rm", 1)])
        if with_timer and not timer_done and up and (since_est >= 5 or r.chance(1, 6)):
            evs.append("timer"); timer_done = True; continue
        if k == "est":
            cands = [p for p in range(NP) if p not in up]
            if not cands:
                continue
            p = r.pick([c for c in cands if c in cfgd] or cands) if r.chance(3, 4) else r.pick(cands)
            base = cfgd.get(p, [])
            w = r.below(10)
            fs = list(base) if w < 6 else (subset(r, base, 1, 2) if w < 8 else (subset(r, range(NF), 1, 2) if w < 9 else []))
            up[p] = fs
            evs.append("(est %d %s)" % (p, fams_str(fs)))
        elif k == "eor":
            if not up:
                continue
            p = r.pick(list(up.keys()))
            f = r.pick(up[p]) if (up[p] and r.chance(5, 6)) else r.below(NF)
            evs.append("(eor %d %d)" % (p, f))
        elif k == "wd":
            p = r.pick(list(up.keys())) if (up and r.chance(3, 4)) else r.below(NP)
            up.pop(p, None)
            evs.append("(wd %d)" % p)
        elif k == "ins":
            if not up:
                continue
            p = r.pick(list(up.keys()))
            evs.append("(ins %d %d %d)" % (p, r.below(NF), p % NX))
        else:
            if not up:
                continue
            p = r.pick(list(up.keys()))
            evs.append("(rm %d %d %d)" % (p, r.below(NF), p % NX))
        if up:
            since_est += 1
    if with_timer and not timer_done:
        if up:
            evs.append("timer")
        else:
            dur = "(some 360)"
    ps = " ".join("(%d %s)" % (p, fams_str(fs)) for p, fs in peers)
    return "(wire (peers%s) (dur %s) (evs%s))" % ((" " + ps) if ps else "", dur, (" " + " ".join(evs)) if evs else "")


def bfs_cases(peers, dur, pre, post):
    """every reachable state of the MODEL machine for this configuration x every input (peers of the
    configuration + one stranger, every family subset), each state reached along a shortest path; computed
    by the Lean driver (`drv_c11 bfs`) from the model itself."""
    import subprocess, os
    drv = os.path.join(os.path.dirname(os.path.dirname(os.path.abspath(__file__))), "lean", ".lake", "build", "bin", "drv_c11")
    ps = " ".join("(%d %s)" % (p, fams_str(fs)) for p, fs in peers)
    line = "(bfs (peers %s) (dur %s) (pre %s) (post %s))" % (ps, dur, " ".join(pre), " ".join(post))
    out = subprocess.run([drv, "bfs"], input=line + "\n", stdout=subprocess.PIPE, text=True, timeout=600).stdout
    return [l for l in out.split("\n") if l.startswith("(case")]


def gen(seed, n, tier):
    r = Rng(seed * 1000003 + 11)
    cases = []
    routes = ["(ins 0 0 0)", "(ins 1 1 1)", "(ins 2 2 2)", "(ins 1 0 0)"]
    if tier == "thorough":
        cases += bfs_cases([(0, [0, 1, 2]), (1, [0, 1, 2]), (2, [0, 1, 2])], "(some 360)", routes, ["(ins 0 1 3)"])
        cases += bfs_cases([(0, [0, 1]), (1, [1, 2]), (2, [2])], "none", routes, [])
        cases += bfs_cases([(0, [0]), (1, [0]), (2, [0])], "(some 1)", routes[:1], ["(rm 0 0 0)"])
        ex = bfs_cases([(0, [0, 1]), (1, [0, 1])], "(some 360)", routes[:2], [])
        # random extension of shortest-path prefixes to longer histories
        for _ in range(n // 3):
            base = r.pick(ex)
            extra = gen_case(r, True)
            evs = extra[extra.index("(evs") + 4:-2].strip()
            cases.append(base[:-2] + (" " + evs if evs else "") + "))")
    else:
        cases += bfs_cases([(0, [0, 1]), (1, [0, 1])], "(some 360)", routes[:2], ["(ins 0 0 2)"])
    target = len(cases) + n
    while len(cases) < target:
        cases.append(gen_case(r, sane=r.chance(4, 5)))
    # the socket-level stream (judged by the oracle only)
    rw = Rng(seed * 1000003 + 1111)
    for _ in range(96 if tier == "quick" else 1200):
        cases.append(gen_wire(rw))
    return cases
