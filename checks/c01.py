import re

from common import Rng

CONFIG = dict(
    claimed=True,
    level_text="Kernel-checked Lean theorems about an executable model of the whole path RIB (per-shard destination ids from a "
               "lowest-free allocator) -> change queue -> process_nlri_change / do_route_refresh -> ExportMap -> PendingTx -> "
               "drain -> abstract codec -> neighbour mirror: pending_last_writer_wins and the survival of a queued withdrawal "
               "across destination-id re-use; destid_stable for Table::insert / Table::remove / Table::drop (peer down); "
               "export_invariant (every delivered change, flush, policy change and in-order soft reset / route refresh keeps the "
               "session invariant), convergence (the flushed neighbour view is exactly the export of the last delivered paths "
               "under the current policy = what a brand-new session is sent) and withdraw_on_wire, each for sessions without "
               "add-path (best path, wire path id 0) and for add-path sessions (top-N window after the per-peer filters, one "
               "wire path id per local path id, theorems *_addpath); the id part of admissibility derived from the RIB model "
               "(*_change_id_admissible: the id of a change emitted by Table::insert / remove / drop on a consistent shard "
               "belongs to its prefix and to no other); and the master theorem, both modes: the C01 reference checker (at "
               "EVERY flush that leaves the channel empty and at the end of the history: flushed view = fresh dump, as sets of "
               "prefix / path-id / attributes / next hop) accepts every run of the composed model whose hypotheses, evaluated "
               "along the run, hold.  The full-strength "
               "statement C01_full is kept as a definition and refuted for the current code by a kernel-evaluated witness "
               "(finding S36).  The model is tied to the code by running the REAL TableManager (1-3 shards, IPv4 and IPv6 RIBs) "
               "-> on_established -> the real run_select (NlriChange / SoftResetOut arms: handle_prefix_update, "
               "do_route_refresh with the neighbour's own and the global export policy) -> the real flush_tx over a loopback "
               "TCP connection on generated histories, for one or two observing neighbours on the same fan-out, decoding the "
               "real bytes with an independent UPDATE reader into a mirror, establishing a brand-new session for the fresh "
               "dump at every quiet flush and at the end, and diffing every flush against the model, with the reference "
               "checker as oracle on the real observations.  Neighbours that negotiated RTC (RFC 4684) next to VPNv4 and "
               "IPv4 are part of the executable model and of the exercised path - the AwaitingEor / Active gate of "
               "handle_prefix_update, on_established skipping the suspended VPN family, do_route_refresh under the "
               "route-target filter built from the neighbour's real RTC routes, the RTC End-of-RIB through "
               "trigger_rtc_export and the RouteRefreshFamilies arm of run_select - with changes delivered before and after "
               "the End-of-RIB; for these sessions there are no theorems (okRun requires a session without RTC): model = "
               "implementation on every flush, and the oracle compares with a brand-new session brought to the same RTC phase.",
    level_note="Trusted: Lean kernel; axioms propext/Quot.sound; the hand-written model (checked only by the correspondence "
               "stream); harness glue (every ToPeerEvent is taken from the channel register_peer created and re-sent, in the "
               "order and number the case dictates, on a channel the session polls - the arm of run_select that handles it and "
               "flush_tx are the real ones; new_session writes effective_max / families / cluster-id / export_ctx directly "
               "instead of negotiating them (C09's wire cases and C16 cover that derivation); the fresh-dump session is drained "
               "and encoded without a socket; the independent UPDATE reader).  WHAT STAYS A HYPOTHESIS EVALUATED ALONG THE RUN "
               "(okRun, evaluated by the driver on every generated case; not derived from the RIB model in Pipeline.lean): "
               "(1) bestSame / anySame / pidSame of every delivered change, i.e. that the flags and the path list of a change "
               "describe the difference to the previous visible path list (C06's statement for this RIB model; only the id "
               "part, idFree / idKept, is proved from Shard.insert / remove / drop); (2) that the session's view lags the RIB "
               "by exactly the queued changes; (3) at every judged point: the last delivered paths are the RIB snapshot's "
               "(viewMatchChk) and the RIB holds announced prefixes only (this is clause 1 of the checker, assumed for the "
               "dump).  In detail okRun says: no LLGR stale period, every delivered change admissible for the session's view (ids stable "
               "and unshared; without add-path: best_changed = false only when the best path is unchanged; with add-path: "
               "any_changed = false only when the visible paths are unchanged, a path that keeps its local id without being "
               "reported as replaced is the same path, path ids unique per destination - what C06 states about the change "
               "stream), soft resets walking a snapshot of the view's destinations, no policy change left without its soft "
               "reset, final RIB snapshot consistent with the view (all visible paths for add-path, best paths otherwise); the "
               "driver reports any generated in-order history without LLGR period on which it fails (none in 200 000, send-max "
               "1-3, both neighbours).  Import-policy filtered paths and next-hop flaps are ordinary changes for these theorems (the RIB model "
               "hides such paths from the change).  NOT covered by theorems, only by the correspondence stream and the oracle: "
               "histories in which a soft reset overtakes queued changes (open finding S36) and LLGR stale periods (S16, "
               "repaired: with 2+ paths of the stale peer on a prefix the re-advertisement takes several changes, in between "
               "the admissibility notion of the add-path theorems does not hold); sessions with RTC negotiated (VPNv4 family, "
               "route-target filter, suspension until the RTC End-of-RIB: executable model without theorems; the fresh-dump "
               "session is put into the observer's RTC phase by the same transcribed glue as the observer: "
               "rtc_state.process(SessionEstablished) at establishment, process(EorReceived) + trigger_rtc_export at the "
               "End-of-RIB, which is what the UPDATE receive path does on an RTC End-of-RIB).",
    lean_modules=["Rbgp.Export.Props01"],
    theorems=[
        "Rbgp.Export.Props01.check_run_ok",
        "Rbgp.Export.Props01.C01_full_fails",
        "Rbgp.Export.Props01.pending_last_writer_wins",
        "Rbgp.Export.Props01.drain_withdrawals_first",
        "Rbgp.Export.Props01.withdrawal_survives_id_reuse",
        "Rbgp.Export.Props01.destid_stable_init",
        "Rbgp.Export.Props01.destid_stable_insert",
        "Rbgp.Export.Props01.destid_stable_remove",
        "Rbgp.Export.Props01.destid_stable_drop",
        "Rbgp.Export.Props01.insert_change_id_admissible",
        "Rbgp.Export.Props01.remove_change_id_admissible",
        "Rbgp.Export.Props01.drop_change_id_admissible",
        "Rbgp.Export.Props01.export_invariant_establish",
        "Rbgp.Export.Props01.export_invariant_deliver",
        "Rbgp.Export.Props01.export_invariant_flush",
        "Rbgp.Export.Props01.export_invariant_soft_reset",
        "Rbgp.Export.Props01.export_invariant_meaning",
        "Rbgp.Export.Props01.convergence",
        "Rbgp.Export.Props01.convergence_vs_fresh_dump",
        "Rbgp.Export.Props01.withdraw_on_wire",
        "Rbgp.Export.Props01.export_invariant_establish_addpath",
        "Rbgp.Export.Props01.export_invariant_deliver_addpath",
        "Rbgp.Export.Props01.export_invariant_flush_addpath",
        "Rbgp.Export.Props01.export_invariant_soft_reset_addpath",
        "Rbgp.Export.Props01.export_invariant_meaning_addpath",
        "Rbgp.Export.Props01.convergence_addpath",
        "Rbgp.Export.Props01.convergence_vs_fresh_dump_addpath",
        "Rbgp.Export.Props01.withdraw_on_wire_addpath",
    ],
    harness=dict(kind="daemon", test="event::verif_event::c01::verif_main"),
    profiles=["debug"],
    n_quick=2000, n_thorough=200000, shards=12,
    nontrivial_re=r"\(final \(",
    rule="histories of 5-60 operations over 2-5 prefixes (10.1.x.0/24, 10.2.0.0/16, 172.16.0.0/16, chosen to share a shard two "
         "times out of three), 2-4 sources (eBGP, iBGP, RR-client, RS-client, confed, local; one in four cases a source with "
         "the neighbour's own address), 3-5 attribute sets differing in LOCAL_PREF / ORIGIN / MED / communities / opaque "
         "attributes, neighbour role in {eBGP, iBGP, RR client, RS client, confed}, cluster-id, confederation id, send-max "
         "1-3, 1-3 shards, 1-3 export policies (reject ORIGIN v, set MED, add community, next-hop address, reject all); "
         "two cases in five an import policy rejecting one ORIGIN value; operations: announce / withdraw (remote path ids "
         "0-2), re-announce a live (source, prefix, path id), best or not, with another attribute set (filtered <-> visible "
         "under the import policy), next hop becomes unreachable / reachable, peer-down, one history in five LLGR stale "
         "periods, soft reset with a new policy, deliver k queued events, flush; biased sequences: withdraw the last path of a prefix and announce a prefix the RIB does not hold "
         "before the flush (destination-id re-use, optionally with a delivery or a soft reset in between), 2-3 sources on one "
         "prefix (add-path window crossings, best-path changes, filtered head); 0-4 announcements before establishment (the "
         "dump); one case in four a global export policy next to the neighbour's own one, `reset` / `greset` replacing "
         "either, each followed by its soft reset OUT; one case in three (suitable receivers) 1-3 IPv6 prefixes next to "
         "the IPv4 ones; one case in three a second observing neighbour with another role, send-max and own policy on the "
         "same fan-out; one single-shard case in thirty 66-73 extra prefixes announced before establishment (destination "
         "ids beyond 64); one case in seven (single shard, iBGP / RR-client / RS-client receiver, one observer) the neighbour "
         "negotiated RTC + VPNv4 + IPv4: 1-3 VPNv4 prefixes (RD 65000:n, label 16) next to the IPv4 ones, route targets "
         "65001:100 / 65001:101 on the attribute sets, RTC interest of the neighbour = everything (default route target) / "
         ":100 / :100 and :101 / nothing, the RTC End-of-RIB (`rtceor`) placed anywhere in the history (one chance in "
         "twelve per operation, at most once), so IPv4 and VPNv4 changes, soft resets and flushes fall before and after it; "
         "1.7 % syntactically damaged cases.  A brand-new session is established on the same RIB at every "
         "flush that leaves the channel empty and at the end (everything delivered and flushed).  Non-trivial = the final view is not empty; distinct = distinct case line",
    expect_tokens=["(reuse 1)", "(reuse 2)", "(overtaken 0)", "(overtaken 1)", "(final)", "(final (", "(dump (", "(flushes (m (",
                   "(pair (obs", "(quiet (q ", "(v6 ", "167985152 24", "(170141183460470430770052094", "(bin 16 x0002fde900000064",
                   "(bad-case)", "(words 8 77)", "(val 4 7)", "(v4 3232235999)", "(val 9 ", "(aspath (3 65001)", " 24 2 (", " 24 3 ("],
    trusted_base=["model lean/Rbgp/Export/Pipeline.lean (+ Model.lean) of table/src/lib.rs (IdAllocator, Destination, Table::insert / "
                  "remove / drop, collect_loc_rib_paths_limited, impl Ord for RibEntry on the attribute families used), "
                  "daemon/src/table_manager.rs (fan-out), daemon/src/event/mod.rs (on_established, handle_prefix_update, "
                  "do_route_refresh), daemon/src/event/export.rs, daemon/src/peer_tx.rs",
                  "harness/daemon/c01.rs: the channel register_peer created is drained into a FIFO after every RIB operation "
                  "(changes of one bulk operation put in prefix order) and re-sent event by event on the channel the session "
                  "polls; run_select (its peer-event arms and, through the socket arm, flush_tx) is the real one; the "
                  "independent UPDATE reader (RFC 4271/4760/7911/4364: IPv4 + IPv6 unicast, VPNv4 with one label, "
                  "add-path) and its canonical attribute printing; a key announced twice with different contents in one flush "
                  "is reported as `amb` on both sides (the survivor depends on hash-map iteration order)",
                  "the prefix -> shard table of checks/c01.py (FNV hash of the derived Hash of Nlri), re-checked by the "
                  "harness on every case"],
    modelled_not_verified=["tokio mpsc FIFO and select_biased! ordering (model: explicit deliver(k) / flush operations)",
                           "hash-map iteration order of PendingTx (grouping of NLRIs into UPDATEs, order of messages within the "
                           "withdraw / reach parts) - the mirror is order-independent except for `amb` keys",
                           "PeerCodec::encode_to framing and splitting (C04); only the decoded effect is compared",
                           "the decision order impl Ord for RibEntry (C02), modelled as a lexicographic key",
                           "RTC: the RtcState machine itself (timers, GR reconnect with stale RTC routes, the UPDATE receive path that "
                           "recognises the RTC End-of-RIB) is driven through its process() calls, not through received messages; "
                           "VPNv6 / EVPN / MUP families and on_established of an already Active session (GR reconnect) are not exercised",
                           "BMP, kernel FIB, prefix limits: held constant; the import policy is one reject-ORIGIN statement "
                           "(FLAG_FILTERED), next-hop tracking is driven through update_nexthop_validity directly"],
    assumptions=["policy changes take effect in the session at once and their soft reset is queued, as in the daemon",
                 "one serialisation of RIB operations, deliveries and flushes per case: no change is produced while a delivery "
                 "or a dump is in progress, so the atomicity of register_peer (dump of every shard and registration of the "
                 "event channel under that shard's lock) is not exercised",
                 "IPv6 prefixes only towards receivers whose next hop is left alone (iBGP, RR client, RS client) and with "
                 "policies without a next-hop action (the session has one local address)",
                 "RTC sessions: single shard, one observing neighbour, receivers whose next hop is left alone; the neighbour's RTC "
                 "routes are in the RIB before establishment and do not change afterwards",
                 "fewer than 2^24 destinations per shard (the IdAllocator's own debug assertion)"],
)

# prefix universe and the shard `TableManager::dealer` (FNV over the derived Hash of Nlri) puts each
# prefix in, for 1..3 shards; obtained once with the harness's `(probe K …)` case and verified by
# the harness on every case (a wrong claim is answered with `(shard-mismatch i real)`).
PFX = [(167837696 + 256 * i, 24) for i in range(8)] + [(167903232, 16), (2886729728, 16)]
SHARD = {1: [0] * 10, 2: [0, 1, 0, 1, 0, 1, 0, 1, 1, 1], 3: [1, 0, 0, 2, 1, 0, 0, 2, 0, 0]}

NBR = 167772161                      # 10.0.0.1, the observing neighbour
NBR2 = 167772169                     # 10.0.0.9, the second observing neighbour
LASN = 65001
LLGR_STALE = 4294901766
NHS = [167772418, 167772419, 3232235777]
# IPv6 prefixes 2001:db8:1::/48, 2001:db8:2::/48, 2001:db8:3:1::/64 and their shards (same `(probe K …)`)
PFX6 = [(0x20010db8000100000000000000000000, 48), (0x20010db8000200000000000000000000, 48),
        (0x20010db8000300010000000000000000, 64)]
SHARD6 = {1: [0, 0, 0], 2: [1, 0, 0], 3: [0, 2, 2]}
NHS6 = [0x20010db8ffff00000000000000000001, 0x20010db8ffff00000000000000000002]
PFX_BIG = 167968768           # 10.3.0.0/24, 10.3.1.0/24, ... (one shard only)


def sources(r, role):
    """2-4 sources with distinct addresses; now and then one is the neighbour itself (echo)."""
    pool = [
        "(peer (v4 167772162) 65002 65001 33686018 ebgp f)",
        "(peer (v4 167772163) 65003 65001 50529027 ebgp f)",
        "(peer (v4 167772164) 65001 65001 67372036 ibgp f)",
        "(peer (v4 167772165) 65001 65001 84215045 rrc f)",
        "(peer (v4 167772166) 65006 65001 101058054 rsc f)",
        "(peer (v4 167772167) 65101 65001 117901063 confed f)",
        "local",
    ]
    # bias the pool towards sources the neighbour may actually hear from
    if role == "rsc":
        pool = pool + ["(peer (v4 167772168) 65008 65001 134744072 rsc f)"] * 3
    n = 2 + r.below(3)
    out = []
    while len(out) < n:
        s = r.pick(pool)
        if s not in out:
            out.append(s)
    if r.chance(1, 4):
        nrole = role
        rasn = LASN if role in ("ibgp", "rrc") else 64999
        out[r.below(len(out))] = "(peer (v4 %d) %d 65001 151587081 %s f)" % (NBR, rasn, nrole)
    return out


def asets(r):
    n = 3 + r.below(3)
    out = []
    for i in range(n):
        a = ["(val 1 %d)" % r.pick([0, 0, 1, 2])]
        plen = r.pick([1, 1, 2])
        a.append("(aspath (2%s))" % "".join(" %d" % r.pick([65010, 65011, 65012]) for _ in range(plen)))
        if r.chance(1, 2):
            a.append("(val 4 %d)" % r.pick([0, 10, 20]))
        if r.chance(2, 3):
            a.append("(val 5 %d)" % r.pick([50, 100, 100, 200, 300]))
        if r.chance(1, 3):
            a.append("(words 8%s)" % "".join(" %d" % r.pick([4259840100, 4259840200, LLGR_STALE]) for _ in range(1 + r.below(2))))
        if r.chance(1, 8):
            a.append("(val 9 %d)" % r.pick([33686018, 16843009]))
        if r.chance(1, 8):
            a.append("(words 10 16909060)")
        if r.chance(1, 6):
            a.append("(opq %d %d x%02x)" % (r.pick([99, 200]), r.pick([192, 224, 128]), r.below(256)))
        out.append("(attrs %s)" % " ".join(a))
    return out


def policy_nonh(r):
    while True:
        p = policy(r)
        if "(addr " not in p:
            return p


def policy(r):
    k = r.below(7)
    if k == 0:
        return "none"
    if k == 1:
        return "(pol (origin 1) none none (comm) reject accept)"
    if k == 2:
        return "(pol any none (set + %d) (comm) accept accept)" % r.pick([7, 77])
    if k == 3:
        return "(pol any none none (comm %d) pass accept)" % r.pick([4259840300, 77])
    if k == 4:
        return "(pol (origin 0) none none (comm) reject accept)"
    if k == 5:
        return "(pol any (addr (v4 3232235999)) none (comm) accept accept)"
    return "(pol any none none (comm) reject accept)"


RT_A = "0002fde900000064"       # route target 65001:100
RT_B = "0002fde900000065"       # route target 65001:101


def gen_case(r):
    k = r.pick([1, 1, 2, 3])
    role = r.pick(["ebgp", "ebgp", "ibgp", "rrc", "rsc", "confed"])
    # one case in seven: the neighbour negotiated RTC (RFC 4684) and VPNv4 next to its other families;
    # until its RTC End-of-RIB (`rtceor`) the VPN family is suspended, the others are not
    rtc_on = r.chance(1, 7)
    if rtc_on:
        k = 1
        role = r.pick(["ibgp", "rrc", "rsc"])
    mx = r.pick([1, 1, 1, 2, 2, 3])
    confed = r.pick([0, 0, 65100])
    if role in ("ibgp", "rrc"):
        cluster = "(some %d)" % r.pick([16909060, 16843009]) if r.chance(5, 6) else "none"
    else:
        cluster = "none" if r.chance(5, 6) else "(some 16909060)"
    ctx = "(ctx %s %d (v4 167772417) none %d)" % (role, LASN, confed)
    sess = "(sess (v4 %d) %s %d ipv4)" % (NBR, cluster, mx)
    srcs = sources(r, role)
    # few prefixes, preferably sharing a shard, so that freed ids are re-used
    npf = 2 + r.below(4)
    idxs = []
    cand = list(range(len(PFX)))
    if k > 1 and r.chance(2, 3):
        sh = r.below(k)
        same = [i for i in cand if SHARD[k][i] == sh]
        if len(same) >= 2:
            cand = same
    while len(idxs) < min(npf, len(cand)):
        i = r.pick(cand)
        if i not in idxs:
            idxs.append(i)
    pfxs = ["(%d %d %d)" % (PFX[i][0], PFX[i][1], SHARD[k][i]) for i in idxs]
    # a second family now and then (receivers that leave the next hop alone, policies that set none):
    # IPv6 prefixes have their own RIB and id allocator per shard, their own ExportMap / PendingTx
    dual = rtc_on or (role in ("ibgp", "rrc", "rsc") and r.chance(1, 3))
    six = set()
    if dual and not (rtc_on and r.chance(1, 2)):
        for j in range(1 + r.below(3)):
            six.add(len(pfxs))
            pfxs.append("(6 %d %d %d)" % (PFX6[j][0], PFX6[j][1], SHARD6[k][j]))
            idxs.append(None)
    rtc = "off"
    if rtc_on:
        for j in range(1 + r.below(3)):
            pfxs.append("(v %d %d 24 0)" % (r.pick([1, 2]), PFX[j][0]))
            idxs.append(None)
        rtc = r.weighted([("all", 5), ("(rts x%s)" % RT_A, 4), ("(rts x%s x%s)" % (RT_A, RT_B), 1), ("(rts)", 2)])
    # once in a while more than 64 destinations in one shard (second word of the id allocator)
    big = k == 1 and r.chance(1, 30)
    nbig = 0
    if big:
        nbig = 66 + r.below(8)
        for j in range(nbig):
            pfxs.append("(%d 24 0)" % (PFX_BIG + 256 * j))
            idxs.append(None)
    ats = asets(r)
    if rtc_on:
        # route targets on the attribute sets: A, B, both or none
        ats2 = []
        for a in ats:
            a = re.sub(r" \(bin 16 x[0-9a-f]*\)", "", a)
            rt = r.pick(["x" + RT_A, "x" + RT_A, "x" + RT_B, "x" + RT_A + RT_B, None])
            if rt:
                a = a[:-1] + " (bin 16 %s))" % rt
            ats2.append(a)
        ats = ats2
    pol = (lambda rr: policy_nonh(rr)) if dual else policy
    pols = [pol(r) for _ in range(1 + r.below(3))]
    pol0 = pol(r) if r.chance(1, 3) else "none"
    # the global export policy assignment; the neighbour's own one (pol0, `reset`) overrides it
    gpol0 = pol(r) if r.chance(1, 4) else "none"
    # import policy rejecting one ORIGIN value: re-announcing a (source, prefix, path-id) with another
    # attribute set flips the path between filtered and visible
    imp = "(origin %d)" % r.pick([0, 1, 2]) if r.chance(2, 5) else "none"
    # a second observing neighbour on the same fan-out, with another role / send-max / own policy
    nbr2 = "none"
    if not rtc_on and r.chance(1, 3):
        roles2 = ["ibgp", "rrc", "rsc"] if dual else ["ebgp", "ibgp", "rrc", "rsc", "confed"]
        role2 = r.pick([x for x in roles2 if x != role] or roles2)
        if role2 in ("ibgp", "rrc"):
            cluster2 = "(some %d)" % r.pick([16909060, 16843009]) if r.chance(5, 6) else "none"
        else:
            cluster2 = "none" if r.chance(5, 6) else "(some 16909060)"
        mx2 = r.pick([m for m in (1, 2, 3) if m != mx])
        nbr2 = "((ctx %s %d (v4 167772417) none %d) (sess (v4 %d) %s %d ipv4) (pol0 %s))" % (
            role2, LASN, confed, NBR2, cluster2, mx2, pol(r) if r.chance(1, 3) else "none")
    live = {}                                  # (src, pfx, rpid) -> True ; rough RIB picture

    def nh_of(p):
        return "(v6 %d)" % r.pick(NHS6) if p in six else "(v4 %d)" % r.pick(NHS)

    def ann(src=None, pfx=None):
        s = r.below(len(srcs)) if src is None else src
        p = r.below(len(idxs)) if pfx is None else pfx
        rp = r.pick([0, 0, 0, 0, 1, 2])
        live[(s, p, rp)] = True
        return "(ann %d %d %d %d %s)" % (s, p, rp, r.below(len(ats)), nh_of(p))

    def wd():
        if live and r.chance(7, 8):
            key = r.pick(sorted(live))
            del live[key]
            return "(wd %d %d %d)" % key
        return "(wd %d %d %d)" % (r.below(len(srcs)), r.below(len(idxs)), r.pick([0, 0, 1]))

    def held():
        return set(p for (_, p, _) in live)

    # LLGR stale periods (one history in five): every route of the source is re-advertised with
    # LLGR_STALE (S16); the master theorem's computed hypothesis excludes these histories
    llgr_ok = r.chance(1, 5)
    pre = [ann() for _ in range(r.pick([0, 0, 1, 2, 4]))]
    if big:
        # fill the shard beyond 64 ids before the session starts
        first = len(idxs) - nbig
        pre += [ann(0, first + j) for j in range(nbig)]
    ops = []
    eor_done = False
    n = r.pick([5, 10, 20, 40, 60])
    while len(ops) < n:
        if rtc_on and not eor_done and r.chance(1, 12):
            ops.append("rtceor")
            eor_done = True
            continue
        kind = r.weighted([("ann", 30), ("wd", 14), ("deliver", 20), ("flush", 12), ("down", 4), ("reset", 6),
                           ("reuse", 10), ("window", 6), ("llgr", 3 if llgr_ok else 0),
                           ("toggle", 10 if imp != "none" else 3), ("nhflap", 4)])
        if kind == "ann":
            ops.append(ann())
        elif kind == "wd":
            ops.append(wd())
        elif kind == "deliver":
            ops.append("(deliver %d)" % r.pick([1, 1, 2, 3, 99]))
        elif kind == "flush":
            ops.append("flush")
        elif kind == "down":
            s = r.below(len(srcs))
            for key in [x for x in live if x[0] == s]:
                del live[key]
            ops.append("(down %d)" % s)
        elif kind == "reset":
            ops.append("(%s %s)" % (r.pick(["reset", "reset", "greset"]), r.pick(["none"] + [str(i) for i in range(len(pols))])))
        elif kind == "llgr":
            peers = [i for i, x in enumerate(srcs) if x.startswith("(peer")]
            if peers:
                ops.append("(llgr %d)" % r.pick(peers))
        elif kind == "toggle":
            # re-announce a live (source, prefix, path-id), best or not, with another attribute set
            if live:
                s_, p_, rp_ = r.pick(sorted(live))
                ops.append("(ann %d %d %d %d %s)" % (s_, p_, rp_, r.below(len(ats)), nh_of(p_)))
            else:
                ops.append(ann())
        elif kind == "nhflap":
            ops.append("(nh %d %s)" % (r.pick(NHS), r.pick(["f", "f", "t"])))
        elif kind == "reuse":
            # remove the last path of a prefix and announce a prefix the RIB does not hold (it gets the
            # freed id when both live in the same shard) before the next flush
            h = held()
            single = [p for p in h if sum(1 for x in live if x[1] == p) == 1]
            free = [p for p in range(len(idxs)) if p not in h]
            if single and free:
                p = r.pick(sorted(single))
                key = [x for x in live if x[1] == p][0]
                del live[key]
                ops.append("(wd %d %d %d)" % key)
                if r.chance(1, 3):
                    ops.append("(deliver %d)" % r.pick([1, 1, 2]))
                if r.chance(1, 6):
                    ops.append("(reset %s)" % r.pick(["none"] + [str(i) for i in range(len(pols))]))
                ops.append(ann(None, r.pick(free)))
            else:
                ops.append(ann())
        else:
            # several sources on one prefix: crossings of the add-path window / changes of the best
            p = r.below(len(idxs))
            for _ in range(2 + r.below(2)):
                ops.append(ann(None, p))
    return "(c01 (shards %d) %s %s (pol0 %s) (gpol0 %s) (imp %s) (nbr2 %s) (rtc %s) (srcs %s) (pfxs %s) (asets %s) (pols %s) (pre%s) (ops%s))" % (
        k, ctx, sess, pol0, gpol0, imp, nbr2, rtc, " ".join(srcs), " ".join(pfxs), " ".join(ats), " ".join(pols),
        "".join(" " + o for o in pre), "".join(" " + o for o in ops))


def mutate(r, case):
    k = r.below(4)
    if k == 0:
        return case.replace("(shards ", "(shards 9", 1)
    if k == 1:
        return case.replace("(ann 0 ", "(ann 9 ", 1)
    if k == 2:
        return case[:-2]
    return case.replace("(pre", "(pre flush", 1)


def gen(seed, n, tier):
    r = Rng(seed * 1000003 + 1)
    out = []
    for _ in range(n):
        c = gen_case(r)
        if r.chance(1, 60):
            c = mutate(r, c)
        out.append(c)
    return out
