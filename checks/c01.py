from common import Rng

CONFIG = dict(
    claimed=False, na_reason="proofs in progress (model, spec, correspondence and oracle already run)",
    level_text="",
    level_note="",
    lean_modules=["Rbgp.Export.Spec01"],
    theorems=[],
    harness=dict(kind="daemon", test="event::verif_event::c01::verif_main"),
    profiles=["debug"],
    n_quick=2000, n_thorough=200000, shards=12,
    nontrivial_re=r"\(final \(",
    rule="",
    expect_tokens=[],
    trusted_base=[],
    modelled_not_verified=[],
    assumptions=[],
)

def gen(seed, n, tier):
    return []
