import ribgen

CONFIG = dict(
    level_text="(in progress) Lean model of table/src/lib.rs (Table, Ord for RibEntry, evpn_type2_cmp, ecmp_paths) and "
               "Attribute::as_path_length; the C02 reference checker (decision order written from the property text) is run as "
               "oracle on the real Table's observations and the model is diffed against the real code on generated histories.",
    level_note="Trusted: Lean kernel; hand-written model (checked by the correspondence stream only); harness glue.",
    lean_modules=["Rbgp.Rib.SpecC02"],
    theorems=[],
    harness=dict(kind="pt", bin="c02"),
    profiles=["debug", "release"], profile_in_case=True,
    n_quick=1500, n_thorough=120000, shards=12,
    nontrivial_re=r"\(st ",
    rule="histories over one Table: candidate paths from colliding attribute domains (LOCAL_PREF {90,100,110,absent}, AS_PATH "
         "segment templates incl. AS_SET / confed / 300 hops, ORIGIN 0-2, five peer roles, 3 router-ids / ORIGINATOR_IDs, "
         "CLUSTER_LIST of 0/1/2, LLGR_STALE / NO_LLGR communities, MAC mobility none/0/1 on EVPN type-2), arrival orders, "
         "replace / remove / drop / restale / restale_llgr / purges / next-hop flips; distinct = distinct case line",
    expect_tokens=[],
    trusted_base=[], modelled_not_verified=[], assumptions=[],
    claimed=False, na_reason="proofs in progress",
)


def gen(seed, n, tier):
    return ribgen.gen(seed, n, tier, "C02")
