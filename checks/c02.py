import ribgen

CONFIG = dict(
    level_text="Kernel-checked Lean theorems about a model of table/src/lib.rs (Table, impl Ord for RibEntry, "
               "evpn_type2_cmp, insert/partition_point, restale re-sort, collect_loc_rib_paths[_limited], ecmp_paths) and "
               "packet/src/bgp.rs Attribute::as_path_length, for ALL well-formed cases and ALL finite histories of the twelve "
               "Table operations in both build profiles: the comparator is a total preorder and IS the decision order of the "
               "property text (cmp_iff_beats), AS hop counting is exact and panic-free for any length, every reachable path "
               "list is ranked, the best path is unbeaten among eligible paths, add-path / ECMP lists are prefixes (ECMP = "
               "maximal leading run tied before the router-id), rankings of the same path set have equal key sequences, and "
               "the master theorem: the C02 reference checker accepts every model run.  The model is tied to the real code by "
               "running the real Table and the model on the same generated histories (debug and release builds) and diffing "
               "complete observations after every operation; the reference checker is the oracle on the real observations.",
    level_note="Trusted: Lean kernel; axioms propext/Classical.choice/Quot.sound; the hand-written model (checked only by the "
               "correspondence stream); harness glue (case decoding, Arc identity -> index). Modelled, not verified: "
               "sort_unstable on ties (stable insertion sort in the model; the spec compares keys, never identities); "
               "partition_point as linear insertion (equal on ranked lists, which reachable_sorted establishes for the model); "
               "comparison keys cached at insert instead of recomputed per comparison (equal for well-formed attributes); the "
               "cross-shard window between a Source flag flip and the re-sort of another shard (flag flip + re-sort are atomic "
               "per table in the model); u32 wrap of next_path_id. Spec interpretation: absent LOCAL_PREF = 100, absent ORIGIN = "
               "incomplete, RsClient counts as eBGP, a type-2 path with MAC mobility beats one without.",
    lean_modules=["Rbgp.Rib.PropsC02"],
    theorems=[
        "Rbgp.Rib.PropsC02.check_run_ok",
        "Rbgp.Rib.PropsC02.check_run_ok_of_codec",
        "Rbgp.Rib.PropsC02.cmp_lawful",
        "Rbgp.Rib.PropsC02.cmp_iff_beats",
        "Rbgp.Rib.PropsC02.asPathLength_spec",
        "Rbgp.Rib.PropsC02.asPathLength_no_panic",
        "Rbgp.Rib.PropsC02.insert_preserves_sorted",
        "Rbgp.Rib.PropsC02.resort_sorted",
        "Rbgp.Rib.PropsC02.reachable_sorted",
        "Rbgp.Rib.PropsC02.best_maximal",
        "Rbgp.Rib.PropsC02.addpath_is_prefix",
        "Rbgp.Rib.PropsC02.ecmp_is_leading_run",
        "Rbgp.Rib.PropsC02.order_independent",
        "Rbgp.Rib.PropsC02.rs_local_unbeaten",
        "Rbgp.Rib.PropsC02.api_list_follows_ranking",
    ],
    harness=dict(kind="pt", bin="c02"),
    profiles=["debug", "release"], profile_in_case=True,
    n_quick=1500, n_thorough=120000, shards=12,
    # non-trivial = some destination ranks at least two exportable paths
    nontrivial_re=r"\(loc [^\n]*?\(\([vm] \d+\) \d+ \([^()]*\) \([^()]*\) \(",
    rule="histories over one Table: candidate paths from colliding attribute domains (LOCAL_PREF {90,100,110,absent}, AS_PATH "
         "segment templates incl. AS_SET / confed / empty / 255+45 hops / 200+SET+56, ORIGIN 0-2/absent, five peer roles, 3 "
         "router-ids / ORIGINATOR_IDs, CLUSTER_LIST of 0/1/2, LLGR_STALE / NO_LLGR / other communities incl. a truncated one, MAC "
         "mobility none/0/1 (also behind another extended community) on EVPN type-2), up to 6 prefixes, up to 5 sessions incl. a "
         "restarted session of the same peer address, arrival orders, replace / remove / drop / restale / restale_llgr / three "
         "purges / next-hop flips / deferral / prefix limits; thorough adds all 120 arrival orders of 5-path sets; plus "
         "structural mutations (mostly rejected as bad-case by both sides); a GR-helper stream (announce, restale[-llgr], restarted "
         "session re-announces, End-of-RIB purges, withdrawals); an allocator stream (66..131 prefixes, removals around the 64-bit word "
         "boundaries, re-insertions, shard index 0/1/3/200/254); LOCAL_PREF 2^16+100 and 2^32-1, router-id / ORIGINATOR_ID >= 2^31, "
         "AS_PATHs of 1019/1020 hops (4088 bytes; thorough: 16315 hops = 65400 bytes), EVPN 0x06 communities that are not MAC "
         "mobility; observed per step: every returned NlriChange (new_best, ecmp path ids), destinations() for Global with and "
         "without filtered paths, AdjIn(peer), RsLocal(peer), collect_loc_rib_paths[_limited 2/3]; distinct = distinct case line",
    expect_tokens=["nochange", "limit", "(stale 0", "(llgr 0", "(fam ev (dests ((m", "(chs)", "(bad-case)",
                   "purge-hit", "restale-rebest", "restale-llgr-rebest", "id-ge-64", "id-ge-128", "(rslocal (1 ((", "(adjin (1 (("],
    trusted_base=["model Rbgp/Rib/Model.lean of table/src/lib.rs (Table and friends) + packet/src/bgp.rs as_path_length",
                  "harness/pt/src/rib.rs: drives the real Table through its public API; Arc<Source>/Arc<Vec<Attribute>> "
                  "identities are mapped to the index of the case's source / attribute table; hash-map outputs are sorted"],
    modelled_not_verified=["sort_unstable tie order (stable insertion sort in the model)",
                           "partition_point as linear insertion after the last not-worse element",
                           "comparison keys cached per entry (Rust recomputes the same pure getters per comparison)",
                           "cross-shard window between a Source flag flip and another shard's re-sort",
                           "u32 wrap-around of Destination.next_path_id", "hash-map iteration order (association lists)"],
    assumptions=["one session of a peer is established at a time (C07): both codecs reject a case in which two Sources of one "
                 "address announce / withdraw in a family without a drop / restale in between",
                 "a case is well-formed (Case.Good): sources and attribute sets are referred to by their position (Arc identity), "
                 "every Source is used with one family (daemon: one Source per negotiated family), AS_PATH bytes are whole "
                 "segments of type 1..4 (what Attribute::decode guarantees); both codecs reject other cases as (bad-case)",
                 "while the route selection of a family is deferred (start_deferral .. end_deferral) nothing is selected: the "
                 "Loc-RIB dump of the family may be empty (it is since /repo 704bd7c); whatever it lists is still judged, and "
                 "the order of the API list is compared with the ranking again from the end of the deferral on"],
    claimed=True,
)


def gen(seed, n, tier):
    return ribgen.gen(seed, n, tier, "C02")
