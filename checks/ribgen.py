"""Case generator shared by C02 / C06 / C15 (one case format, see harness/pt/src/rib.rs).

Every random choice comes from the one SplitMix64 stream.  Streams:
  ranking   one prefix, 3-6 competing paths from colliding attribute domains, then re-marking /
            replacement / removal / next-hop flips (C02: every tie-break step, ties, arrival orders);
  history   up to 6 prefixes, up to 4 sessions incl. a restarted session of the same peer address,
            all twelve operations (C06 / C15);
  limits    sessions with prefix limits 0..3 (C15);
  deferral  a family deferred from the start (C06);
  perms     (thorough) all 120 arrival orders of a 5-path set;
  malformed structural mutations of a valid case (mostly rejected as (bad-case) on both sides).
"""
from common import Rng
import itertools

ROLES = ["ebgp", "rs", "ibgp", "rr", "confed"]
RIDS = [1, 2, 16843009, 3232235777, 0, 4294967295]   # incl. a router-id >= 2^31 (192.168.1.1) and both ends of u32
# Every numeric comparison key is drawn from a domain holding both ends of its range, the default that an absent
# attribute stands for and its two neighbours, and "absent" itself: an explicit 0 / explicit default / absent
# must all be told apart by the ranking exactly as the decision order says.
LOCAL_PREFS = ["-", "-", "0", "0", "1", "99", "100", "100", "101", "110", "65636", "4294967295"]   # 65636 = 2^16 + 100
ORIGINS = ["-", "0", "0", "1", "2", "2", "3", "255"]     # absent counts as 2 (incomplete)
ORIGINATORS = ["-", "-", "-", "0", "1", "2", "16843009", "3232235777", "4294967295"]


def seg(t, n, asn=65000):
    return "%02x%02x" % (t, n) + ("%08x" % asn) * n


AS_PATHS = [
    "-", "x", "x" + seg(2, 1), "x" + seg(2, 2), "x" + seg(2, 2, 65001), "x" + seg(2, 3), "x" + seg(1, 3),
    "x" + seg(3, 2) + seg(2, 1), "x" + seg(2, 1) + seg(1, 2), "x" + seg(4, 2) + seg(2, 2), "x" + seg(2, 1) + seg(2, 1),
]
LONG_PATHS = ["x" + seg(2, 255) + seg(2, 45), "x" + seg(2, 255), "x" + seg(2, 255) + seg(2, 1), "x" + seg(2, 200) + seg(1, 9) + seg(2, 56),
              "x" + seg(2, 255) * 4,                      # 1020 hops, 4088 bytes: the classic 4096-byte message limit
              "x" + seg(2, 255) * 3 + seg(2, 254)]        # 1019 hops: one less
HUGE_PATH = "x" + seg(2, 255) * 63 + seg(2, 250)         # 16315 hops, 65400 bytes: extended-message limit (thorough only)
COMMS = ["-", "-", "-", "xffff0006", "xffff0007", "x00010002", "x00010002ffff0006", "xffff0007ffff0006", "xffff00"]
EXTS_T2 = ["-", "x0600000000000000", "x0600000000000001", "x0600000000000001", "x00020001000000010600000000000001", "x0002000100000001",
           "x0601000000000009",                          # EVPN type 0x06 sub-type 0x01 (ESI label): NOT MAC mobility
           "x06030000000000090600000000000000",          # default-gateway (0x06/0x03) in front of mobility 0
           "x06000000ffffffff", "x0600000000000002"]     # largest sequence number; 2
CLUSTERS = ["-", "-", "x", "x01010101", "x0101010102020202", "x00000000"]   # absent, present-but-empty, 1, 2, 1 (zero id)


def gen_attr(r, t2, long_ok):
    lp = r.pick(LOCAL_PREFS)
    origin = r.pick(ORIGINS)
    if long_ok and r.chance(1, 3):
        ap = r.pick(LONG_PATHS)
    else:
        ap = r.pick(AS_PATHS)
    oid = r.pick(ORIGINATORS)
    cl = r.pick(CLUSTERS)
    comm = r.pick(COMMS)
    ext = r.pick(EXTS_T2) if t2 else r.pick(["-", "-", "-", "x0600000000000001"])
    return "(a %s %s %s %s %s %s %s)" % (lp, origin, ap, oid, cl, comm, ext)


def gen_attr_pool(r, n, t2, long_ok):
    """n attribute sets; later ones are mostly one-field variations of earlier ones (ties!)."""
    pool = []
    for i in range(n):
        if pool and r.chance(2, 3):
            base = r.pick(pool)[3:-1].split(" ")
            k = r.below(7)
            fresh = gen_attr(r, t2, long_ok)[3:-1].split(" ")
            if r.chance(1, 4):
                pass  # identical content, distinct allocation
            else:
                base[k] = fresh[k]
            pool.append("(a " + " ".join(base) + ")")
        else:
            pool.append(gen_attr(r, t2, long_ok))
    return pool


class Builder:
    def __init__(self, r, fams, nsrc, limits, restarted, t2_in_ev=True, long_ok=False):
        self.r = r
        self.fams = fams
        self.srcs = []     # (addr, rid, role, lim, fam)
        self.ops = []
        addrs = [1, 2, 3]
        for i in range(nsrc):
            fam = r.pick(fams)
            addr = r.pick(addrs)
            # one live session per (addr, fam): a second one is a "restarted session", used only
            # after its predecessor's peer was re-marked stale or dropped
            lim = "-"
            if limits and r.chance(2, 3):
                lim = str(r.pick([0, 1, 1, 2, 2, 3]))
            self.srcs.append([addr, r.pick(RIDS), r.pick(ROLES), lim, fam])
        if restarted and self.srcs:
            base = r.pick(self.srcs)
            self.srcs.append([base[0], r.pick([base[1], r.pick(RIDS)]), base[2], base[3], base[4]])
        self.active = {}   # (addr, fam) -> src index in use
        self.retired = set()
        for i, s in enumerate(self.srcs):
            self.active.setdefault((s[0], s[4]), i)
        self.nets = {f: [] for f in fams}
        for f in fams:
            n = 1 + r.below(r.pick([1, 3, 6]))
            for k in range(n):
                t2 = (f == "ev" and (t2_in_ev or r.chance(1, 2)))
                self.nets[f].append("(%s %d)" % ("m" if t2 else "v", 1 + k))
        self.attrs = gen_attr_pool(r, 2 + r.below(7), "ev" in fams, long_ok)
        self.inserted = []  # (src, fam, net, rpid)

    def src_for(self, fam):
        c = [i for (a, f), i in self.active.items() if f == fam]
        return self.r.pick(c) if c else None

    def op_insert(self, fam=None, net=None):
        r = self.r
        fam = fam or r.pick(self.fams)
        s = self.src_for(fam)
        if s is None:
            return
        net = net or r.pick(self.nets[fam])
        rpid = r.pick([0, 0, 0, 1, 2])
        nh = r.pick(["-", "1", "1", "2", "3"])
        a = r.below(len(self.attrs))
        filt = "t" if r.chance(1, 5) else "f"
        nhinv = "t" if r.chance(1, 8) else "f"
        self.ops.append("(ins %d %s %s %d %s %d %s %s)" % (s, fam, net, rpid, nh, a, filt, nhinv))
        self.inserted.append((s, fam, net, rpid))

    def op_replace(self):
        if not self.inserted:
            return self.op_insert()
        r = self.r
        s, fam, net, rpid = r.pick(self.inserted)
        cur = self.active.get((self.srcs[s][0], fam))
        if cur is None:
            return self.op_insert()
        nh = r.pick(["-", "1", "2", "3"])
        a = r.below(len(self.attrs))
        filt = "t" if r.chance(1, 4) else "f"
        self.ops.append("(ins %d %s %s %d %s %d %s f)" % (cur, fam, net, rpid, nh, a, filt))

    def op_remove(self):
        r = self.r
        if self.inserted and r.chance(5, 6):
            s, fam, net, rpid = r.pick(self.inserted)
            cur = self.active.get((self.srcs[s][0], fam))
            if cur is None:
                return
            self.ops.append("(rm %d %s %s %d)" % (cur, fam, net, rpid))
        else:
            fam = r.pick(self.fams)
            s = self.src_for(fam)
            if s is not None:
                self.ops.append("(rm %d %s %s %d)" % (s, fam, r.pick(self.nets[fam]), r.pick([0, 1, 7])))

    def peer(self):
        r = self.r
        live = [i for i in self.active.values()]
        s = self.srcs[r.pick(live)] if live and r.chance(4, 5) else r.pick(self.srcs)
        return s[0], s[4]

    def retire(self, addr, fam):
        """the session of (addr, fam) ended: a later source with the same address takes over"""
        cur = self.active.get((addr, fam))
        if cur is None:
            return
        for i, s in enumerate(self.srcs):
            if i > cur and s[0] == addr and s[4] == fam and i not in self.retired:
                self.retired.add(cur)
                self.active[(addr, fam)] = i
                return
        # no successor: the peer stays away (rarely: the ended session's Source is used again)
        if self.r.chance(5, 6):
            del self.active[(addr, fam)]

    def op_misc(self, kind):
        r = self.r
        if not self.srcs:
            return
        addr, fam = self.peer()
        if kind == "drop":
            self.ops.append("(drop %d %s)" % (addr, fam))
            self.retire(addr, fam)
        elif kind in ("restale", "restale-llgr"):
            self.ops.append("(%s %d %s)" % (kind, addr, fam))
            self.retire(addr, fam)
        elif kind in ("dstale", "dllgr", "dnollgr"):
            ctr = "-"
            cur = self.active.get((addr, fam))
            if (cur is not None and r.chance(1, 2) and self.srcs[cur][3] != "-"
                    and sum(1 for s in self.srcs if s[0] == addr) == 1):
                ctr = str(cur)
            self.ops.append("(%s %d %s %s)" % (kind, addr, fam, ctr))
        elif kind == "nhv":
            self.ops.append("(nhv %d %s)" % (r.pick([1, 1, 2, 3]), r.pick(["t", "f", "f"])))
        elif kind == "sdef":
            self.ops.append("(sdef %s)" % fam)
        elif kind == "edef":
            self.ops.append("(edef %s)" % fam)

    def line(self):
        srcs = " ".join("(s %d %d %s %s)" % (s[0], s[1], s[2], s[3]) for s in self.srcs)
        return "(case (srcs %s) (attrs %s) (ops %s))" % (srcs, " ".join(self.attrs), " ".join(self.ops))


def gen_ranking(r, long_ok):
    fam = r.pick(["v4", "v4", "ev"])
    b = Builder(r, [fam], 3 + r.below(3), False, r.chance(1, 4), long_ok=long_ok)
    net = b.nets[fam][0]
    b.nets[fam] = [net] if r.chance(3, 4) else b.nets[fam]
    n = 3 + r.below(4)
    for _ in range(n):
        b.op_insert(fam, net if r.chance(5, 6) else None)
    for _ in range(r.below(8)):
        k = r.weighted([("restale", 4), ("restale-llgr", 3), ("replace", 4), ("remove", 2), ("nhv", 3), ("insert", 3),
                        ("dstale", 1), ("dllgr", 1), ("dnollgr", 1), ("drop", 1)])
        if k == "replace":
            b.op_replace()
        elif k == "remove":
            b.op_remove()
        elif k == "insert":
            b.op_insert(fam)
        else:
            b.op_misc(k)
    return b.line()


def gen_history(r, limits=False, deferral=False):
    fams = r.pick([["v4"], ["v4"], ["ev"], ["v4", "ev"]])
    b = Builder(r, fams, 2 + r.below(3), limits, r.chance(1, 2), t2_in_ev=r.chance(3, 4))
    if deferral:
        for f in fams:
            if r.chance(4, 5):
                b.ops.append("(sdef %s)" % f)
    n = 2 + r.below(r.pick([6, 14, 30]))
    for _ in range(n):
        k = r.weighted([("insert", 12), ("replace", 5), ("remove", 5), ("drop", 2), ("restale", 3), ("restale-llgr", 2),
                        ("dstale", 2), ("dllgr", 1), ("dnollgr", 1), ("nhv", 3),
                        ("sdef", 1 if deferral else 0), ("edef", 2 if deferral else 0)])
        if k == "insert":
            b.op_insert()
        elif k == "replace":
            b.op_replace()
        elif k == "remove":
            b.op_remove()
        else:
            b.op_misc(k)
    if deferral:
        for f in fams:
            b.ops.append("(edef %s)" % f)
        for _ in range(r.below(5)):
            b.op_insert() if r.chance(1, 2) else b.op_remove()
    return b.line()


def gen_alloc(r):
    """IdAllocator: ~130 prefixes of one peer (ids cross the 64-bit word boundaries), removals around the
    boundaries, re-insertions (lowest free id), a few paths of a second peer; shard index from the case."""
    shard = r.pick([0, 1, 3, 200, 254])
    n = r.pick([66, 70, 129, 131])
    srcs = "(s 1 1 ebgp -) (s 2 2 ebgp -)"
    attrs = "(a 100 0 - - - - -) (a 90 0 - - - - -)"
    ops = []
    order = list(range(1, n + 1))
    for k in order:
        ops.append("(ins 0 v4 (v %d) 0 1 0 %s f)" % (k, "t" if r.chance(1, 12) else "f"))
    gone = []
    for _ in range(3 + r.below(8)):
        k = r.pick([1, 2, 62, 63, 64, 65, 66, 67, 127, 128, 129, 130, n, n - 1, 1 + r.below(n)])
        if 1 <= k <= n and k not in gone:
            gone.append(k)
            ops.append("(rm 0 v4 (v %d) 0)" % k)
    r2 = list(gone)
    for k in r2[: 1 + r.below(len(r2))]:
        ops.append("(ins %d v4 (v %d) 0 2 1 f f)" % (r.pick([0, 1]), 200 - (k % 50)))
    if r.chance(1, 2):
        ops.append("(drop 1 v4)")
        for k in range(1, 4):
            ops.append("(ins 0 v4 (v %d) 0 1 0 f f)" % (210 + k))
    return "(case (srcs %s) (attrs %s) (ops %s) (shard %d))" % (srcs, attrs, " ".join(ops), shard)


def gen_gr(r, limits):
    """the graceful-restart helper sequence: session 1 announces, goes down (restale), session 2 of the same
    peer re-announces part of it (and something new), End-of-RIB purge (dstale -), later withdrawals; with LLGR variant"""
    fam = r.pick(["v4", "v4", "ev"])
    lim = str(r.pick([2, 3, 4, 6])) if limits else "-"
    srcs = ["(s 1 1 ebgp %s)" % lim, "(s 1 1 ebgp %s)" % lim, "(s 2 2 %s -)" % r.pick(["ebgp", "ibgp", "rs"])]
    attrs = gen_attr_pool(r, 3 + r.below(3), fam == "ev", False)
    nets = ["(%s %d)" % ("m" if fam == "ev" else "v", k) for k in range(1, 2 + r.below(4) + 1)]
    ops = []
    def ins(s, net):
        ops.append("(ins %d %s %s %d %s %d %s f)" % (s, fam, net, r.pick([0, 0, 1]), r.pick(["1", "2"]), r.below(len(attrs)),
                                                       "t" if r.chance(1, 8) else "f"))
    for net in nets:
        if r.chance(4, 5):
            ins(0, net)
        if r.chance(1, 2):
            ins(2, net)
    llgr = r.chance(1, 3)
    ops.append("(restale 1 %s)" % fam)
    if llgr:
        ops.append("(restale-llgr 1 %s)" % fam)
        ops.append("(dnollgr 1 %s -)" % fam)
    for net in nets:
        if r.chance(2, 3):
            ins(1, net)
    if r.chance(1, 2):
        ops.append("(rm 1 %s %s 0)" % (fam, r.pick(nets)))
    ops.append("(dstale 1 %s -)" % fam)
    if llgr:
        ops.append("(dllgr 1 %s -)" % fam)
    for _ in range(r.below(4)):
        if r.chance(1, 2):
            ops.append("(rm 1 %s %s %d)" % (fam, r.pick(nets), r.pick([0, 1])))
        else:
            ins(1, r.pick(nets))
    if r.chance(1, 3):
        ops.append("(drop 1 %s)" % fam)
    return "(case (srcs %s) (attrs %s) (ops %s))" % (" ".join(srcs), " ".join(attrs), " ".join(ops))


def gen_purge_matrix(r):
    """every purge (drop, drop_stale, drop_llgr_stale, drop_no_llgr) x (purged peer's path usable | filtered |
    next-hop-invalid) x (another peer's path present | absent | itself unusable), then brand-new prefixes: a purge that
    is silent must neither free nor keep a destination id wrongly."""
    fam = r.pick(["v4", "v4", "ev"])
    kind = r.pick(["drop", "dstale", "dllgr", "dnollgr"])
    pa = r.pick(["usable", "filtered", "nhinv"])
    pb = r.pick(["present", "present", "absent", "unusable"])
    srcs = "(s 1 1 ebgp -) (s 2 2 %s -) (s 3 3 ebgp -)" % r.pick(["ebgp", "ibgp", "rs"])
    comm = "xffff0007" if kind == "dnollgr" else r.pick(["-", "x00010002"])
    attrs = "(a 100 0 - - - %s -) (a %s 0 - - - - -) (a 90 0 - - - - -)" % (comm, r.pick(["100", "110", "90"]))
    mk = lambda k: "(%s %d)" % ("m" if fam == "ev" else "v", k)
    ops = []
    # some earlier prefixes so that the interesting destination does not have id 0
    for k in range(1, 1 + r.below(3)):
        ops.append("(ins 2 %s %s 0 2 2 f f)" % (fam, mk(k)))
    P = mk(10)
    def path_a():
        ops.append("(ins 0 %s %s %d %s 0 %s %s)" % (fam, P, r.pick([0, 1]), r.pick(["1", "3"]),
                                                    "t" if pa == "filtered" else "f", "t" if pa == "nhinv" else "f"))
    def path_b():
        if pb != "absent":
            ops.append("(ins 1 %s %s 0 2 1 %s f)" % (fam, P, "t" if pb == "unusable" else "f"))
    if r.chance(1, 2):
        path_a(); path_b()
    else:
        path_b(); path_a()
    if r.chance(1, 4):
        ops.append("(nhv 1 f)")
    if kind == "dstale":
        ops.append("(restale 1 %s)" % fam)
    elif kind == "dllgr":
        if r.chance(1, 2):
            ops.append("(restale 1 %s)" % fam)
        ops.append("(restale-llgr 1 %s)" % fam)
    elif kind == "dnollgr" and r.chance(2, 3):
        ops.append("(restale-llgr 1 %s)" % fam)
    ops.append("(drop 1 %s)" % fam if kind == "drop" else "(%s 1 %s -)" % (kind, fam))
    # brand-new prefixes: they must get identifiers no live destination holds
    for k in range(20, 21 + r.below(3)):
        ops.append("(ins %d %s %s 0 2 2 f f)" % (r.pick([1, 2]), fam, mk(k)))
    if r.chance(1, 2):
        ops.append("(nhv 1 t)")
    if r.chance(1, 2):
        ops.append("(rm 1 %s %s 0)" % (fam, P))
        ops.append("(ins 2 %s %s 0 2 2 f f)" % (fam, mk(30)))
    return "(case (srcs %s) (attrs %s) (ops %s))" % (srcs, attrs, " ".join(ops))


def gen_perms(r):
    """all arrival orders of one 5-path set (thorough tier)"""
    fam = r.pick(["v4", "ev"])
    b = Builder(r, [fam], 5, False, False)
    net = b.nets[fam][0]
    ins = []
    for i in range(5):
        s = i % len(b.srcs)
        ins.append("(ins %d %s %s %d %s %d f f)" % (s, fam, net, i // len(b.srcs), r.pick(["1", "2"]), r.below(len(b.attrs))))
    tail = []
    if r.chance(1, 2):
        addr, _ = b.peer()
        tail.append("(%s %d %s)" % (r.pick(["restale", "restale-llgr"]), addr, fam))
    out = []
    for p in itertools.permutations(ins):
        b.ops = list(p) + tail
        out.append(b.line())
    return out


def mutate(r, line):
    """structural mutation: delete / duplicate / replace one token"""
    toks = line.replace("(", " ( ").replace(")", " ) ").split()
    k = r.below(3)
    i = r.below(len(toks))
    if k == 0:
        del toks[i]
    elif k == 1:
        toks.insert(i, toks[i])
    else:
        toks[i] = r.pick(["-", "0", "999", "4294967296", "t", "x0", "zz", "(", ")", "v4", "ev", "x02"])
    return " ".join(toks).replace("( ", "(").replace(" )", ")")


def gen_keypair(r):
    """One decision step at a time: 2-3 paths of one prefix that agree on every earlier comparison key and take
    boundary values (both ends of the range, the default an absent attribute stands for and its neighbours,
    absent itself) on the examined key; later keys vary freely.  Both arrival orders, then a removal and
    re-insertion of the first arrival."""
    fam = r.pick(["v4", "v4", "ev"])
    order = ["mm", "lp", "aspath", "origin", "role", "cluster", "oid", "rid"]
    key = r.pick(["lp", "lp", "lp", "aspath", "origin", "origin", "role", "cluster", "cluster", "oid", "oid", "rid", "rid"]
                 + (["mm", "mm", "mm"] if fam == "ev" else []))
    t2 = fam == "ev" and (key == "mm" or r.chance(2, 3))
    dom = {"lp": LOCAL_PREFS, "origin": ORIGINS, "aspath": AS_PATHS, "oid": ORIGINATORS, "cluster": CLUSTERS,
           "mm": EXTS_T2 if t2 else ["-"], "rid": RIDS, "role": ROLES}
    base = {k: r.pick(dom[k]) for k in order}
    n = 2 + r.below(2)
    ki = order.index(key)
    srcs, attrs = [], []
    for i in range(n):
        f = {}
        for j, k in enumerate(order):
            if j < ki:
                f[k] = base[k]
            elif j == ki:
                f[k] = r.pick(dom[k])
            else:
                f[k] = r.pick(dom[k]) if r.chance(1, 2) else base[k]
        srcs.append("(s %d %d %s -)" % (i + 1, f["rid"], f["role"]))
        attrs.append("(a %s %s %s %s %s - %s)" % (f["lp"], f["origin"], f["aspath"], f["oid"], f["cluster"], f["mm"]))
    net = "(m 1)" if t2 else "(v 1)"
    arrival = list(range(n))
    for i in range(n - 1, 0, -1):
        j = r.below(i + 1)
        arrival[i], arrival[j] = arrival[j], arrival[i]
    ops = ["(ins %d %s %s 0 1 %d f f)" % (i, fam, net, i) for i in arrival]
    if r.chance(1, 2):
        i = arrival[0]
        ops.append("(rm %d %s %s 0)" % (i, fam, net))
        ops.append("(ins %d %s %s 0 1 %d f f)" % (i, fam, net, i))
    if r.chance(1, 3):
        i = r.pick(arrival)
        ops.append("(%s %d %s)" % (r.pick(["restale", "restale-llgr"]), i + 1, fam))
    return "(case (srcs %s) (attrs %s) (ops %s))" % (" ".join(srcs), " ".join(attrs), " ".join(ops))


def gen(seed, n, tier, focus):
    """focus: 'C02' | 'C06' | 'C15' shifts the stream weights."""
    r = Rng(seed * 1000003 + {"C02": 2, "C06": 6, "C15": 15}[focus])
    w = {"C02": [("ranking", 20), ("history", 8), ("limits", 2), ("deferral", 2), ("malformed", 2), ("gr", 4), ("alloc", 1), ("pmatrix", 3), ("keypair", 10)],
         "C06": [("ranking", 6), ("history", 16), ("limits", 4), ("deferral", 8), ("malformed", 2), ("gr", 6), ("alloc", 2), ("pmatrix", 6), ("keypair", 3)],
         "C15": [("ranking", 4), ("history", 12), ("limits", 18), ("deferral", 2), ("malformed", 2), ("gr", 10), ("alloc", 1), ("pmatrix", 4), ("keypair", 2)]}[focus]
    out = []
    nalloc = 0
    while len(out) < n:
        k = r.weighted(w)
        if k == "ranking":
            long_ok = r.chance(1, 12)
            out.append(gen_ranking(r, long_ok))
        elif k == "history":
            out.append(gen_history(r))
        elif k == "limits":
            out.append(gen_history(r, limits=True))
        elif k == "deferral":
            out.append(gen_history(r, deferral=True))
        elif k == "gr":
            out.append(gen_gr(r, limits=r.chance(2, 3)))
        elif k == "pmatrix":
            out.append(gen_purge_matrix(r))
        elif k == "keypair":
            out.append(gen_keypair(r))
        elif k == "alloc":
            # big cases (130 steps x 130 destinations per dump): a fixed number per run
            if nalloc < 24:
                out.append(gen_alloc(r))
                nalloc += 1
        else:
            out.append(mutate(r, gen_history(r, limits=r.chance(1, 2))))
    if tier == "thorough" and focus == "C02":
        for _ in range(max(1, n // 6000)):
            out += gen_perms(r)
        # AS_PATHs at the extended-message limit (65400 bytes) against a short path
        out.append("(case (srcs (s 1 1 ebgp -) (s 2 2 ebgp -)) (attrs (a - 0 %s - - - -) (a - 0 %s - - - -)) "
                   "(ops (ins 0 v4 (v 1) 0 1 0 f f) (ins 1 v4 (v 1) 0 2 1 f f) (restale 1 v4)))" % (HUGE_PATH, LONG_PATHS[4]))
    return out
