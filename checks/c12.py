from common import Rng
import itertools

CONFIG = dict(
    level_text="Kernel-checked Lean theorems about the model of table::RpkiTable (as repaired): for every VRP list, every "
               "IPv4/IPv6 route (any address bits, any mask on or off a byte boundary) and every origin, validate returns exactly "
               "the RFC 6811 state computed bit-wise from 'covers' (validate_eq_rfc6811), non-covering VRPs never change the "
               "result (unrelated_vrps_irrelevant), the origin handed to the classification is RFC 6811's Route Origin ASN "
               "(origin_is_rfc6811), and every history of insert/remove/drop-source/reset leaves exactly the set fold keyed by "
               "(cache, prefix, max-length, AS) with no duplicates (table_is_set); a locally originated route is validated with the "
               "speaker's global AS (origin_of_local_route); plus the master theorem that the C12 reference checker accepts every "
               "model run (check_run_ok; full strength since F12 was repaired).  The model is tied to table/src/lib.rs by "
               "running the real RpkiTable and the model on the same generated histories and diffing every validate result "
               "(state, reason, the three VRP lists) and every iter listing, with the reference checker as oracle on the real outputs; "
               "`show` cases drive the daemon path end to end (PolicyTable-built import assignment with an `rpki STATE` statement behind "
               "other statements/policies, TableManager::insert_route with its needs_rpki gate, collect_paths, destination_to_api) and "
               "the oracle judges the state the API shows and whether the policy condition matched.",
    level_note="Trusted: Lean kernel; axioms propext/Classical.choice/Quot.sound; hand-written model (checked only by the "
               "correspondence stream). Modelled, not verified: the patricia_tree crate (get/insert/remove/sorted iteration by its "
               "documented map semantics), Arc<IpAddr> identity (a pair of indices), the policy engine around Condition::Rpki (C14) and the rest of "
               "the API conversion (C17): `show` is modelled as 'state and reason of validate, filtered iff state = configured state'.",
    lean_modules=["Rbgp.Rpki.Props"],
    theorems=[
        "Rbgp.Rpki.Props.check_run_ok",
        "Rbgp.Rpki.Props.validate_eq_rfc6811",
        "Rbgp.Rpki.Props.validate_eq_rfc6811_reachable",
        "Rbgp.Rpki.Props.unrelated_vrps_irrelevant",
        "Rbgp.Rpki.Props.origin_is_rfc6811",
        "Rbgp.Rpki.Props.table_is_set",
        "Rbgp.Rpki.Props.covers_iff_bits",
        "Rbgp.Rpki.Props.run_never_panics",
        "Rbgp.Rpki.Props.origin_of_local_route",
        "Rbgp.Rpki.Props.origin_bytes_eq_segments",
    ],
    harness=dict(kind="daemon", test="rpki::verif_rpki::verif_main"),
    profiles=["debug"],
    n_quick=3000, n_thorough=60000, shards=12,
    nontrivial_re=r"\(v (valid|invalid)|\(it \(",
    rule="histories of insert/remove/drop-source/reset over 2 caches x 2 Arc instances with validate and iter interleaved; "
         "(a) a 6-bit prefix space embedded at bit offsets 0,5,13,26 (IPv4) and 0,5,61,122 (IPv6) so that masks fall on and "
         "off byte boundaries, VRP prefixes covering / equal / more specific / sibling, max-length below, at and above the "
         "route length, AS in {0,1,2,local}, un-normalised host bits; (b) random prefixes over the real 32/128-bit space; "
         "(c) origin derivations: no AS_PATH, empty path, AS_SEQUENCE / AS_SET / CONFED_SEQ / CONFED_SET tails, ill-formed "
         "segment types, 255-AS segments, AS_PATH at positions 0..3 of the attribute list; (d) VRPs and routes of BOTH families in "
         "one case; (e) `show` = the daemon path (import policy `rpki STATE => reject` for each of the three states, route "
         "inserted, listed and converted to the API form), for peer-learned routes and (`showl`) for locally originated ones "
         "(Source::local()) with a global AS equal to or different from the session's local AS, also while no VRP of the family "
         "is installed; (f) malformed: masks > 32/128, unparsable cases; (g) a deterministic boundary batch in every run: every prefix length "
         "0..32 / 0..128 with covering / equal / one-shorter / sibling / longer routes and both spellings of the prefix, max-length "
         "one below / at / one above the route length, AS 0/1/local/max-1/max on both sides through a path, the session AS and the "
         "global AS (peer, local and kernel sources), every final segment type incl. 255-AS segments, every colliding set operation "
         "(duplicate, same VRP from another Arc / another address, several VRPs of one cache under one prefix in every position, "
         "removal of absent / last / other keys, empty and duplicate resets); input classes are counted in "
         "evidence.oracle_clause_counts.  Thorough tier adds the exhaustive enumeration: all "
         "single VRPs over the 6-bit space, all VRP pairs over a 4-bit space and all triples over a 3-bit space (prefix x 2 "
         "max-lengths x 2 AS), each against ALL routes of the space, at offsets 0 and 5 in both families.  "
         "non-trivial = some validate answered valid/invalid or some iter was non-empty; distinct = distinct case line",
    expect_tokens=["(v valid", "(v invalid asn", "(v invalid length", "(v notfound", "(it)", "(it (", "(6 x", "(4 x",
                   "(api valid none t)", "(api valid none f)", "(api invalid asn t)", "(api invalid length t)", "(api invalid asn f)",
                   "(api notfound none t)", "(api notfound none f)", "(bad-case)"],
    trusted_base=["model Rbgp/Rpki/Model.lean of table/src/lib.rs RpkiTable (prefix_key, validate, insert, remove, drop_source, iter)",
                  "harness/daemon/rpki_c12.rs: builds Source/Attribute/Nlri values through the public API; drives the real "
                  "TableManager (rpki_insert/withdraw/reset/drop_all, insert_route, collect_paths), PolicyTable and destination_to_api"],
    modelled_not_verified=["patricia_tree::PatriciaMap (association list sorted by key)",
                           "the export-side needs_rpki gate in the session handler (daemon/src/event/mod.rs, export policy): "
                           "not executed by this check"],
    assumptions=["AS_PATH attributes are what Attribute::decode yields (segment types 1..4, no empty segment); other paths are "
                 "compared model-vs-code but not judged by the oracle",
                 "a cache is identified by its Arc<IpAddr> allocation (one per RTR session), as the table does"],
    oracle_stats=True,
    # input classes (counted per case) that every run must contain; a missing one shows up in coverage_gaps
    expect_judged=["state-valid", "state-invalid", "state-notfound", "val-on-empty-family", "route-covered-many",
                   "maxlen-one-below-route", "maxlen-equals-route", "maxlen-one-above-route", "vrp-prefix-equals-route",
                   "more-specific-by-one-present", "covered-by-as0-vrp",
                   "path-absent", "path-empty", "tail-as-sequence", "tail-as-set", "tail-confed-sequence", "tail-confed-set",
                   "tail-bad-type", "tail-empty-segment", "segment-255-as",
                   "vrp-as-0", "vrp-as-1", "vrp-as-local", "vrp-as-max-1", "vrp-as-max", "vrp-maxlen-below-len", "vrp-maxlen-eq-len",
                   "vrp-maxlen-255", "ins-duplicate", "ins-same-vrp-other-cache", "ins-second-vrp-same-prefix-same-cache",
                   "rem-absent", "rem-one-of-several", "rem-last-of-prefix", "drop-nothing", "drop-several-under-one-prefix",
                   "reset-empty", "reset-nonempty", "show-local-route", "show-peer-route", "global-as-differs-from-session-as",
                   "origin-as-0", "origin-as-max", "policy-state-matches", "policy-state-differs"]
                  + ["%s-len%s-%s" % (k, f, c) for k in ("val", "vrp") for f in ("4", "6")
                     for c in ("0", "max", "max-1", "over-max", "byte-boundary", "boundary+1", "boundary-1")],
    claimed=True,
)

LOCAL = 65000
ASNS = [0, 1, 2, LOCAL]
VASNS = [1, 1, 1, 2, 0, LOCAL]      # VRP AS numbers / route origins, biased so that matches are common


def hexnet(fam, value, length):
    w = 32 if fam == 4 else 128
    return "(%d x%0*x %d)" % (fam, w // 4, value & ((1 << w) - 1), length)


def wf_path_for(r, origin):
    """a path as Attribute::decode can yield it (segment types 1..4, no empty segment): the only kind a
    route in the RIB can carry, so the only kind `show` is given"""
    while True:
        p = path_for(r, origin)
        if "(0 " not in p and "(5 " not in p and "(2))" not in p:
            return p


def pos_suffix(r):
    """optionally the position of AS_PATH in the attribute list"""
    return (" %d" % r.below(4)) if r.chance(1, 3) else ""


def path_for(r, origin):
    """an AS_PATH term whose RFC 6811 origin is `origin` (None -> some other derivation)"""
    if origin is not None and r.chance(1, 25):      # segments of the maximal 255 ASNs
        long = " ".join(str(64512 + i) for i in range(254))
        if r.chance(1, 2):
            return "(path (2 %s %d))" % (long, origin)
        return "(path (2 %s 9) (1 %s 7) (2 %s %d))" % (long, long, long, origin)
    k = r.below(10)
    if origin is not None and k < 6:
        pre = ["(2 %d)" % r.pick([7, 8, 65010])] if r.chance(1, 2) else []
        if r.chance(1, 4):
            pre.append("(1 5 6)")
        return "(path %s)" % " ".join(pre + ["(2 %s%d)" % ("9 " if r.chance(1, 2) else "", origin)])
    if k == 6:
        return "nopath"
    if k == 7:
        return "(path)"
    if k == 8:   # AS_SET tail
        return "(path (2 7 %d) (1 %d %d))" % (r.pick(ASNS[1:]), r.pick(ASNS[1:]), r.pick(ASNS[1:]))
    t = r.pick([3, 4, 3, 4, 0, 5, 2])
    if t == 2:
        return "(path (2 7) (2))"
    return "(path (2 7 %d) (%d %d))" % (r.pick(ASNS[1:]), t, r.pick(ASNS[1:]))


class Space:
    """k-bit prefix space at bit offset `off` of a `fam` address with a fixed top pattern"""
    def __init__(self, fam, off, k, top):
        self.fam, self.off, self.k = fam, off, k
        self.w = 32 if fam == 4 else 128
        self.top = (top >> (self.w - off)) << (self.w - off) if off else 0

    def net(self, l, x, dirt=0):
        """prefix of off+l bits; x = l-bit value; dirt = bits to OR below the prefix"""
        sh = self.w - self.off - l
        v = self.top | (x << sh) | (dirt & ((1 << sh) - 1))
        return hexnet(self.fam, v, self.off + l)

    def all_prefixes(self):
        return [(l, x) for l in range(self.k + 1) for x in range(1 << l)]


TOP4 = 0xAC5B93E7
TOP6 = 0x20010DB8A5C3F19E7B2D4C6A81E5937F


def spaces():
    return [(4, o) for o in (0, 5, 13, 26)] + [(6, o) for o in (0, 5, 61, 122)]


def gen_small(r):
    fam, off = r.pick(spaces())
    ops = small_ops(r, fam, off)
    if r.chance(1, 3):      # VRPs and routes of the other family in the same table
        fam2, off2 = r.pick([x for x in spaces() if x[0] != fam])
        ops2 = small_ops(r, fam2, off2)
        merged = []
        while ops or ops2:
            src = ops if (ops and (not ops2 or r.chance(1, 2))) else ops2
            merged.append(src.pop(0))
        ops = merged
    return "(case %s (ops %s))" % (header(r), " ".join(ops))


def header(r):
    """session local AS, optionally followed by a different global AS (both occur as VRP AS numbers)"""
    return "%d" % LOCAL if r.chance(1, 2) else "%d %d" % (LOCAL, r.pick([LOCAL, 1, 2, 2]))


def small_ops(r, fam, off):
    sp = Space(fam, off, 6, TOP4 if fam == 4 else TOP6)
    ops = []
    live = []
    n = 2 + r.below(r.pick([4, 8, 16]))
    def vrp():
        if live and r.chance(1, 3):
            return r.pick(live)
        l = r.below(7); x = r.below(1 << l)
        dirt = r.next() if r.chance(1, 5) else 0
        if off and r.chance(1, 8):     # a VRP shorter than the space: covers all of it (or none)
            sh = sp.w - r.below(off + 1)
            ln = sp.w - sh
            v = ((sp.top >> sh) << sh) if r.chance(3, 4) or ln == 0 else ((((sp.top >> sh) ^ 1)) << sh)
            net = hexnet(fam, v | (dirt & ((1 << sh) - 1)), ln)
            ml = r.pick([ln, off + 6, sp.w, off + r.below(7)])
        else:
            net = sp.net(l, x, dirt)
            ml = r.pick([off + l, off + 6, off + r.below(7), off + l + 1, sp.w, 0])
        return (net, ml, r.pick(VASNS))
    for i in range(n):
        k = r.below(20) if (i > 0 or r.chance(1, 12)) else 0
        c, a = r.below(2) + 1, r.below(2)
        if k < 8:
            v = vrp(); live.append(v)
            ops.append("(ins %d %d %s %d %d)" % (c, a, v[0], v[1], v[2]))
        elif k < 10 and live:
            v = r.pick(live)
            ops.append("(rem %d %d %s %d %d)" % (c, a, v[0], v[1], v[2]))
        elif k == 10:
            ops.append("(drop %d %d)" % (c, a))
        elif k == 11:
            vs = [vrp() for _ in range(r.below(3))]
            live += vs
            ops.append("(reset %d %d (%s))" % (c, a, " ".join("(%s %d %d)" % v for v in vs)))
        elif k < 18:
            l = r.below(7); x = r.below(1 << l)
            net = sp.net(l, x, r.next() if r.chance(1, 4) else 0)
            path = path_for(r, r.pick(VASNS) if r.chance(4, 5) else None)
            if r.chance(1, 4) and off + l <= sp.w:
                path = wf_path_for(r, r.pick(VASNS) if r.chance(4, 5) else None)
                ops.append("(%s %s %s %s%s)" % (r.pick(["show", "show", "showl"]),
                                                r.pick(["valid", "invalid", "notfound"]), net, path, pos_suffix(r)))
            else:
                ops.append("(val %s %s%s)" % (net, path, pos_suffix(r)))
        else:
            ops.append("(iter %d)" % r.pick([fam, fam, fam, 4, 6]))
    if r.chance(1, 2):
        ops.append("(iter %d)" % fam)
    return ops


BASES4 = [0x0A000000, 0x0A010100, 0x0A0101FF, 0xC0A80000, 0xFFFFFFFF, 0x00000000, 0x80000000]
BASES6 = [0x20010DB8 << 96, (0x20010DB8 << 96) | (1 << 80), (1 << 128) - 1, 0, 1 << 127, (0x20010DB8 << 96) | 1]


def gen_real(r):
    fam = r.pick([4, 6])
    w = 32 if fam == 4 else 128
    bases = BASES4 if fam == 4 else BASES6
    def addr():
        v = r.pick(bases)
        for _ in range(r.below(3)):
            v ^= 1 << r.below(w)
        return v
    def ln(maxw=None):
        k = r.below(10)
        if k == 0:
            return r.pick([0, w, w - 1, 1])
        if k < 4:
            return 8 * r.below(w // 8 + 1)
        if k == 9 and r.chance(1, 3):
            return r.pick([w + 1, w + 8, 200, 255])     # not a prefix length of this family
        return r.below(w + 1)
    ops = []
    live = []
    for i in range(2 + r.below(10)):
        k = r.below(10) if (i > 0 or r.chance(1, 12)) else 0
        c, a = r.below(2) + 1, r.below(2)
        if k < 5:
            l = ln(); av = addr()
            if r.chance(2, 3) and l <= w:
                av = (av >> (w - l)) << (w - l) if l else 0
            v = (hexnet(fam, av, l), r.pick([l, w, min(255, l + r.below(9)), r.below(w + 1)]), r.pick(VASNS + [4294967295]))
            live.append(v)
            ops.append("(ins %d %d %s %d %d)" % (c, a, v[0], v[1], v[2]))
        elif k == 5 and live:
            v = r.pick(live)
            ops.append("(rem %d %d %s %d %d)" % (c, a, v[0], v[1], v[2]))
        elif k == 6:
            ops.append(r.pick(["(drop %d %d)" % (c, a), "(iter %d)" % fam]))
        else:
            l = ln(); net = hexnet(fam, addr(), l); path = path_for(r, r.pick(VASNS) if r.chance(4, 5) else None)
            if r.chance(1, 4) and l <= w:      # a route in the RIB has a decodable mask and path
                path = wf_path_for(r, r.pick(VASNS) if r.chance(4, 5) else None)
                ops.append("(%s %s %s %s%s)" % (r.pick(["show", "show", "showl"]),
                                                r.pick(["valid", "invalid", "notfound"]), net, path, pos_suffix(r)))
            else:
                ops.append("(val %s %s%s)" % (net, path, pos_suffix(r)))
    ops.append("(iter %d)" % fam)
    return "(case %d (ops %s))" % (r.pick([LOCAL, LOCAL, 0, 1]), " ".join(ops))


MALFORMED = [
    "(case 65000 (ops (ins 1 0 (4 x0a0000 8) 8 1)))",
    "(case 65000 (ops (val (5 x0a000000 8) nopath)))",
    "(case 65000 (ops (ins 1 0 (4 x0a000000 256) 8 1)))",
    "(case 65000 (ops (frob)))",
    "(case 65000)",
    "(case 65000 (ops (val (4 x0a000000 8) (path (2 4294967296)))))",
    "(case 65000 (ops (val (4 x0a000000 8) nopath 4)))",
    "(case 65000 (ops (show bogus (4 x0a000000 8) nopath)))",
    "case",
]


def exhaustive():
    out = []
    for fam, off in [(4, 0), (4, 5), (6, 0), (6, 5)]:
        top = TOP4 if fam == 4 else TOP6
        for k, size in [(6, 1), (4, 2), (3, 3)]:
            sp = Space(fam, off, k, top)
            prefs = sp.all_prefixes()
            vrps = []
            for (l, x) in prefs:
                for ml in sorted({off + l, off + k}):
                    for asn in (1, 2):
                        vrps.append("%s %d %d" % (sp.net(l, x), ml, asn))
            vals = " ".join("(val %s (path (2 7 1)))" % sp.net(l, x) for (l, x) in prefs)
            for sub in itertools.combinations(vrps, size):
                ins = " ".join("(ins 1 0 %s)" % v for v in sub)
                out.append("(case %d (ops %s %s (iter %d)))" % (LOCAL, ins, vals, fam))
    return out


# ---------------------------------------------------------------------------------------------------------
# deterministic boundary batch: every quick run hits each exact boundary (mask 0..max of both families, max-length
# one below / at / one above the route length, AS 0 / 1 / max, every final segment type, every set-operation collision)

def boundary_cases():
    out = []
    P7 = "(path (2 9 7))"
    def case(ops, hdr="%d" % LOCAL):
        return "(case %s (ops %s))" % (hdr, " ".join(ops))
    # 1. every prefix length of both families: covering, equal, one shorter, sibling (last prefix bit flipped), longer
    for fam, w in ((4, 32), (6, 128)):
        ones = (1 << w) - 1
        for l in range(0, w + 1):
            pre = (ones >> (w - l)) << (w - l) if l else 0
            ops = ["(ins 1 0 %s %d 7)" % (hexnet(fam, ones, l), w),               # un-normalised spelling of the prefix
                   "(val %s %s)" % (hexnet(fam, ones, w), P7),
                   "(val %s %s)" % (hexnet(fam, pre, l), P7)]
            if l >= 1:
                ops.append("(val %s %s)" % (hexnet(fam, pre, l - 1), P7))          # shorter than the VRP: not covered
                ops.append("(val %s %s)" % (hexnet(fam, ones ^ (1 << (w - l)), w), P7))   # sibling
            if l < w:
                ops.append("(show valid %s %s)" % (hexnet(fam, ones, l + 1), P7))
            ops.append("(iter %d)" % fam)
            ops.append("(rem 1 0 %s %d 7)" % (hexnet(fam, pre, l), w))              # the normalised spelling removes it
            ops.append("(iter %d)" % fam)
            out.append(case(ops))
    # 2. max-length against the route length: one below, equal, one above, 0, 255
    for fam, w, addr in ((4, 32, 0x0A010000), (6, 128, 0x20010DB8 << 96)):
        for l in (0, 16, w - 1, w):
            for ml in sorted({0, max(0, l - 1), l, min(255, l + 1), min(255, l + 8), w, 255}):
                ops = ["(ins 1 0 %s %d 7)" % (hexnet(fam, addr, l), ml)]
                for rl in sorted({l, max(l, ml - 1), max(l, ml), max(l, min(w, ml + 1)), w}):
                    if l <= rl <= w:
                        ops.append("(val %s %s)" % (hexnet(fam, addr, rl), P7))
                        ops.append("(show invalid %s %s)" % (hexnet(fam, addr, rl), P7))
                out.append(case(ops))
    # 3. AS numbers 0, 1, local, max-1, max on both sides (VRP and origin; origin from a path, from an empty path through the
    #    session's local AS, and - locally originated / kernel routes - through the global AS)
    A = [0, 1, LOCAL, 4294967294, 4294967295]
    net, route = hexnet(4, 0x0A000000, 8), hexnet(4, 0x0A010100, 24)
    for va in A:
        ops = ["(ins 1 0 %s 24 %d)" % (net, va)]
        for oa in A:
            ops.append("(val %s (path (2 9 %d)))" % (route, oa))
        out.append(case(ops))
        for oa in A:
            out.append(case(["(ins 1 0 %s 24 %d)" % (net, va), "(val %s nopath)" % route, "(show valid %s (path))" % route,
                             "(showl valid %s nopath)" % route, "(showk valid %s (path))" % route,
                             "(showl invalid %s (path (2 9 %d)))" % (route, oa)], "%d %d" % (oa, A[(A.index(oa) + 1) % len(A)])))
            out.append(case(["(ins 1 0 %s 24 %d)" % (net, va), "(showl valid %s nopath)" % route,
                             "(showk notfound %s nopath)" % route, "(show valid %s nopath)" % route], "%d %d" % (A[(A.index(oa) + 2) % len(A)], oa)))
    # 4. every final segment type against a VRP for the local AS and one for the last AS of the path
    tails = ["nopath", "(path)", "(path (2 9 7))", "(path (2 9) (1 7))", "(path (2 9) (1 5 7))", "(path (2 9) (3 7))", "(path (2 9) (4 7))",
             "(path (1 7))", "(path (3 7))", "(path (4 7))", "(path (4 7) (2 8))", "(path (1 7) (2 8))", "(path (2 7) (2 8) (1 7))",
             "(path (3 9) (2 7))", "(path (2 %s 7))" % " ".join(str(64512 + i) for i in range(254)),
             "(path (2 9) (1 %s 7))" % " ".join(str(64512 + i) for i in range(254))]
    bad = ["(path (2 9) (0 7))", "(path (2 9) (5 7))", "(path (2 9) (2))", "(path (2) (2 7))", "(path (2 9) (255 7))"]
    for vasn in (LOCAL, 7, 8):
        ops = ["(ins 1 0 %s 24 %d)" % (net, vasn)]
        for t in tails:
            ops.append("(val %s %s)" % (route, t))
            ops.append("(show valid %s %s %d)" % (route, t, tails.index(t) % 4))
            ops.append("(showl invalid %s %s)" % (route, t))
        for t in bad:
            ops.append("(val %s %s)" % (route, t))
        out.append(case(ops, "%d %d" % (LOCAL, 7 if vasn == 8 else LOCAL)))
    # 5. set operations that collide: same key twice, same key from another Arc of the address and from another address,
    #    several VRPs of one cache under one prefix in every position, removal of absent / last / other keys, resets
    for fam, addr, l in ((4, 0x0A010100, 24), (6, 0x20010DB8 << 96, 32)):
        n = hexnet(fam, addr, l)
        n2 = hexnet(fam, addr | 1, l)               # same prefix, host bit set
        other = hexnet(fam, addr, l - 1)
        it = "(iter %d)" % fam
        v = "(val %s %s)" % (hexnet(fam, addr, l), P7)
        out.append(case(["(ins 1 0 %s %d 7)" % (n, l), "(ins 1 0 %s %d 7)" % (n2, l), it, "(ins 1 1 %s %d 7)" % (n, l),
                         "(ins 2 0 %s %d 7)" % (n, l), it, "(rem 1 0 %s %d 7)" % (n, l), it, v, "(drop 1 1)", it, v,
                         "(drop 2 0)", it, v]))
        out.append(case(["(ins 1 0 %s %d 7)" % (n, l), "(ins 2 0 %s %d 7)" % (n, l), "(reset 1 0 ())", it, v,
                         "(reset 2 0 ((%s %d 7) (%s %d 7) (%s %d 8)))" % (n, l, n2, l, n, l), it, v, "(reset 3 0 ())", it]))
        for order in ([1, 1, 2, 1], [2, 1, 1, 1], [1, 2, 1, 2, 1], [1, 1, 1], [2, 1, 2]):
            ops = []
            for i, c in enumerate(order):
                ops.append("(ins %d 0 %s %d %d)" % (c, n, l + (i % 3), 7 + i))
            ops += ["(ins 1 0 %s %d 7)" % (other, l), it, "(drop 1 0)", it, v, "(drop 2 0)", it, v]
            out.append(case(ops))
        out.append(case(["(rem 1 0 %s %d 7)" % (n, l), "(ins 1 0 %s %d 7)" % (n, l), "(rem 1 0 %s %d 7)" % (n, l + 1),
                         "(rem 1 0 %s %d 8)" % (n, l), "(rem 1 1 %s %d 7)" % (n, l), "(rem 1 0 %s %d 7)" % (other, l), it,
                         "(rem 1 0 %s %d 7)" % (n2, l), it, v, "(ins 1 0 %s %d 7)" % (n, l), it, v, "(drop 9 0)", it]))
    return out


def gen(seed, n, tier):
    r = Rng(seed * 1000003 + 12)
    out = list(MALFORMED) + boundary_cases()
    if tier == "thorough":
        out += exhaustive()
    for i in range(n):
        out.append(gen_small(r) if r.chance(2, 3) else gen_real(r))
    return out
