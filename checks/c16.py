import os
from common import Rng

# the boundary values / branches of the anchored functions that the seed-independent boundary suite reaches
# (keys of the driver mode `stats`, lean/Rbgp/C16/Stats.lean); a key that stays at 0 in a run is a coverage gap
BUCKETS = open(os.path.join(os.path.dirname(os.path.abspath(__file__)), "c16_buckets.txt")).read().split()

CONFIG = dict(
    claimed=True,
    level_text="Kernel-checked Lean theorems over a hand-written model of accept_connection / add_peer / apply_peer_group / "
               "build_local_cap / peer_role / PeerCodec::negotiate / the effective send-max / negotiate_gr / negotiate_llgr / "
               "IpNet::contains / force_down / the end of PeerSession::run and the gRPC enable-disable-delete-shutdown-reset "
               "handlers: the accept decision (accept_iff), prefix containment = first mask bits (contains_iff_cover), "
               "configured-or-inherited parameters incl. advertised capabilities (params_inherited[_dynamic]), which dynamic prefixes and which "
               "AddPeer requests are admitted at all (loaded_prefixes_valid, api_request_refused_iff, api_request_reading), role derivation, "
               "mirror-image negotiation and feature-iff-both, send-max = codec add-path tx (S26), GR/LLGR symmetry, and the "
               "dynamic-neighbour GC invariant over ALL histories; plus the master theorem that the C16 reference checker "
               "(written from the property text) accepts every model run except the recorded open finding F16c (three clauses, only in histories with a tear-down).  The model is "
               "tied to the code by running the real accept_connection over real loopback sockets (127.x.y.z / ::1 sources), "
               "the real PeerSession::run (the OPEN is read back from the wire; the remote end may answer with a wrong-AS or right-AS OPEN "
               "and take the session to Established), the real gRPC handlers (called in-process through GrpcService; neighbours that can be written as an API message are "
               "added through the real AddPeer handler = PeerParams::try_from + apply_peer_group + add_peer, dynamic prefixes through "
               "the real AddDynamicNeighbor handler = IpNet::from_str), PeerFsm and "
               "PeerCodec::negotiate on the same generated cases, diffing every observation, with the reference checker as "
               "oracle on the real outputs.",
    level_note="Trusted: Lean kernel; axioms propext/Classical.choice/Quot.sound; the hand-written model (checked only by the "
               "correspondence stream); harness glue (case decoding, canonical ordering of hash-ordered capability lists, "
               "the `consistent` flag for overlapping groups, extended-next-hop flag read through the encoder).  Modelled, "
               "not verified: TTL / MD5 socket options; which of several overlapping dynamic groups the hash map yields "
               "(history abandoned after checking the neighbour matches one of them); tokio scheduling (each session task "
               "runs to its end inside one `disc` step); well-formedness of cases (octets < 256, masks in range in "
               "histories, confederation id != 0) is checked at run time by the drivers (wfCase_sound).",
    lean_modules=["Rbgp.Accept.Props"],
    theorems=[
        "Rbgp.Accept.Props.check_run_ok",
        "Rbgp.Accept.Props.loaded_prefixes_valid",
        "Rbgp.Accept.Props.first_prefix_admitted_iff",
        "Rbgp.Accept.Props.api_request_refused_iff",
        "Rbgp.Accept.Props.api_request_reading",
        "Rbgp.Accept.Props.check_run_ok_without_teardown",
        "Rbgp.Accept.Props.wfCase_sound",
        "Rbgp.Accept.Props.accept_iff",
        "Rbgp.Accept.Props.accept_iff_partial",
        "Rbgp.Accept.Props.accept_iff_full_fails",
        "Rbgp.Accept.Props.slot_is_connection",
        "Rbgp.Accept.Props.contains_iff_cover",
        "Rbgp.Accept.Props.contains_other_family",
        "Rbgp.Accept.Props.params_inherited",
        "Rbgp.Accept.Props.params_inherited_dynamic",
        "Rbgp.Accept.Props.role_derivation_spec",
        "Rbgp.Accept.Props.negotiate_mirror",
        "Rbgp.Accept.Props.feature_iff_both",
        "Rbgp.Accept.Props.advertised_mode_unanimous",
        "Rbgp.Accept.Props.sendmax_agrees_with_codec",
        "Rbgp.Accept.Props.gr_negotiation_symmetric",
        "Rbgp.Accept.Props.llgr_symmetric_full",
        "Rbgp.Accept.Props.llgr_in_force_iff",
        "Rbgp.Accept.Props.reach_inv",
        "Rbgp.Accept.Props.dynamic_peer_gc",
        "Rbgp.Accept.Props.dynamic_peer_removed_with_last_connection",
        "Rbgp.Accept.Props.dynamic_state_while_connected_fails",
    ],
    harness=dict(kind="daemon", test="event::verif_event::c16::verif_main"),
    profiles=["debug"],
    n_quick=3000, n_thorough=120000, shards=12,
    nontrivial_re=r"\(accept |\(reject |t\)\)|\(ok t\)|\(gr \(|\(llgr \(|\(panic\)",
    rule="a seed-independent BOUNDARY SUITE first (part of every run; ~690 cases: every prefix length at 0/1/7/8/9/len-9..len+1 with the "
         "address differing in the last covered / first uncovered bit; all 16 add-path mode pairs, ext-nexthop / GR / LLGR / 4-octet-AS / send-max "
         "edge values; one neighbour per boundary of hold time (0,3,65535), AS numbers (65535, 65536, AS_TRANS, 4-octet, equal in low/high 16 bits), "
         "local-AS override, confederation membership, cluster id 0 / max, GR time 0 / 4095, LLGR time 0 / 1 / max, prefix limits 0 / max, "
         "IPv6 neighbours with every kind of family set incl. SR Policy, every fallback of apply_peer_group taken and not taken, addresses at the "
         "edges of dynamic prefixes, every role static and dynamic, API operations with 0/1/2 connections, AddPeer requests with hold_time "
         "0,1,2,3,65535,65536 and send-max 0,255,256, prefixes of length len+1 / 255 and repeated prefixes); the buckets it reaches are listed in "
         "checks/c16_buckets.txt and counted per run by the driver mode `stats` (evidence: oracle_clause_counts, gaps: coverage_gaps).  "
         "Then four random streams from one PRNG: (1) pairs of capability lists over a 2-family universe (+ an IPv4-VPN and an unknown "
         "family): MP, add-path tuples with modes 0-3 and invalid 4/5/7/255, duplicates and conflicting tuples, add-path "
         "without MP, ext-nexthop tuples with right/wrong AFIs, ext-message, 4-octet AS, GR (any flags/time, duplicate "
         "families), LLGR (zero / non-zero times, duplicate families, several capabilities), unknown capabilities, with a "
         "configured send-max; plus a systematic single-family add-path mode-pair sub-stream and a systematic per-feature "
         "sub-stream (MP, add-path rx, add-path tx, ext-nexthop, GR, LLGR each drawn per family independently from {neither, "
         "local only, remote only, both} over three IPv4-AFI families + IPv6: disjoint / overlapping / nested family sets, "
         "tuples in one capability or split over several, shuffled capability order); (2) prefix/address pairs for "
         "IPv4 and IPv6 with masks 0..len, out-of-range masks, bit flips at the mask boundary, host bits set in the prefix, "
         "other address family; (3) histories: global AS, optional confederation, 0-3 peer groups (overlapping / "
         "non-canonical / IPv6 dynamic prefixes, duplicate names), 0-3 configured neighbours (own vs inherited settings, "
         "unknown group, duplicate address, admin-down), 1-14 operations connect(A|P) / disc (remote end goes away after the OPEN) / discx (remote end answers with an OPEN "
         "of a guessed-right or wrong AS, then KEEPALIVE: Established) / enable / disable / delete / shutdown / reset over 6 colliding "
         "loopback addresses, disc aimed at sessions predicted to exist and API operations at connected addresses, export "
         "policies by name (existing and non-existing); (4) malformed lines (truncation, bad family, non-loopback "
         "source, unknown op, out-of-range numbers).  Non-trivial = a connection was accepted or rejected, a family / GR / "
         "LLGR was negotiated, a prefix matched, or contains panicked; distinct = distinct case line.",
    expect_tokens=["(notif 2 2)", "keepalive end-of-rib", "(some (accept (", "(some (reject (", "(accept ", "(accept-amb ", "(reject 0)", "(disc (open ", "(disc (notif 6 2))", "(disc (notif 6 3))",
                   "no-session", "(api ok)", "(api notfound)", "aborted", "rr-client", "rs-client", "confed", "ibgp", "ebgp",
                   "(ok t)", "(ok f)", "(panic)", "(bad-case)", "(enh ", "(gr (", "(llgr (", " t t)", " t f)", " f t)",
                   "(codec () ", "t t t)", "(65537 f f t)", "(65664 f f t)", "f f t)"],
    oracle_stats=True,
    expect_judged=BUCKETS,
    trusted_base=["model Rbgp/Accept/Model.lean of daemon/src/event/mod.rs (accept_connection, add_peer, force_down, "
                  "apply_disconnect + tail of PeerSession::run, negotiate_gr/llgr, peer_role), event/peer.rs (build, "
                  "build_local_cap, apply_peer_group), event/grpc.rs (five handlers), fsm.rs (effective send-max), "
                  "packet/src/bgp.rs (PeerCodec::negotiate, IpNet::contains)",
                  "harness/daemon/c16.rs: builds PeerParams/PeerGroup/Global from the case: every dynamic prefix goes through the real "
                  "AddDynamicNeighbor handler (IpNet::from_str, duplicate refusal; the answers are observed), a neighbour marked `api` through "
                  "the real AddPeer handler (PeerParams::try_from with its validation, apply_peer_group, add_peer; hold_time and send_max verbatim), "
                  "a neighbour marked `cfg` through apply_peer_group + Global::add_peer on the parameters (the sequence of the YAML loader, which "
                  "itself is not driven; GR / LLGR / prefix limits are only given this way); binds loopback sources, runs the "
                  "real session task with the remote end closing after the first message; capability lists are compared "
                  "after sorting their hash-ordered parts; what the encoder does with extended next hop for IPv4 unicast is read through the encoder",
                  "the drivers run model and oracle only on cases passing the decidable guard Codec.wfCase, which implies "
                  "the hypothesis CaseWF of check_run_ok (theorem wfCase_sound)"],
    modelled_not_verified=["TTL / GTSM / MD5 socket options set by accept_connection (neighbours are generated without them)",
                           "FnvHashMap iteration order among overlapping dynamic groups (only 'the new neighbour matches "
                           "one of the covering groups' is checked, then the history is abandoned)",
                           "tokio scheduling: the session task is not started at accept time but run to completion inside the "
                           "`disc` step, so a history is a sequence of atomic steps",
                           "enable_active_connect (spawned retry loop; its connects are refused) and BFD / RTC / GR timers",
                           "branches of the anchored handlers that no case reaches (measured with per-branch counters in a scratch "
                           "worktree, 147 of 184 branch points of the anchored functions reached): soft reset (ResetPeer soft=true), the "
                           "GR / LLGR blocks of an AddPeer request, MD5 password / BFD / unnumbered-interface arms of AddPeer and "
                           "DeletePeer, textually malformed prefixes (no slash, bad address) in AddDynamicNeighbor",
                           "the restarting-speaker switch (Global.selection_deferral set: accept_connection hands is_restarting to the "
                           "session, PeerFsm::on_connected then sets the R bit in the advertised GR capability, the tail of run "
                           "notifies the deferral): histories run with the switch off; SessInfo.restarting is observed to be false"],
    assumptions=["histories use well-formed configurations (CaseWF, enforced by the run-time guard wfCase): octets < 256, "
                 "confederation identifier != 0 (dynamic-prefix lengths are no longer assumed: any length 0..255 may be configured, "
                 "the model and the real AddDynamicNeighbor handler decide what is admitted, theorem loaded_prefixes_valid)",
                 "loopback: 127.0.0.0/8 and ::1 are bindable source addresses on the test host"],
)

# ---------------------------------------------------------------- small colliding domains
IPV4, IPV6, VPN4, ODD = 65537, 131073, 65664, 196609
FAMS = [IPV4, IPV4, IPV6, IPV6, VPN4, ODD]
FAMS2 = [IPV4, IPV6]
ASNS = [65001, 65002, 65003, 65009, 65000]


def pairs(l):
    return " ".join("(%d %d)" % p for p in l)


def gen_cap(r, fams):
    k = r.weighted([("mp", 30), ("addpath", 22), ("enh", 8), ("extmsg", 6), ("as4", 6), ("gr", 10), ("llgr", 10),
                    ("rr", 2), ("err", 1), ("fqdn", 1), ("unk", 3)])
    if k == "mp":
        return "(mp %d)" % r.pick(fams)
    if k == "addpath":
        n = r.pick([1, 1, 2, 2, 3])
        modes = [0, 1, 2, 3, 1, 2, 3] if r.chance(9, 10) else [4, 5, 7, 255, 0]
        return "(addpath %s)" % pairs([(r.pick(fams), r.pick(modes)) for _ in range(n)])
    if k == "enh":
        n = r.pick([1, 1, 2])
        return "(enh %s)" % pairs([(r.pick(fams), r.pick([2, 2, 2, 1, 3])) for _ in range(n)])
    if k == "extmsg":
        return "extmsg"
    if k == "as4":
        return "(as4 %d)" % r.pick([65001, 65002, 4200000001, 0, 23456, 65535, 65536, 4294967295])
    if k == "gr":
        n = r.pick([0, 1, 1, 2, 3])
        return "(gr %d %d (%s))" % (r.pick([0, 4, 8, 12, 255, 3, 5]), r.pick([0, 1, 90, 120, 4094, 4095]),
                                    pairs([(r.pick(fams), r.pick([0, 128])) for _ in range(n)]))
    if k == "llgr":
        n = r.pick([0, 1, 1, 2, 3])
        return "(llgr %s)" % " ".join("(%d %d %d)" % (r.pick(fams), r.pick([0, 128]), r.pick([0, 0, 1, 5, 600, 16777214, 16777215]))
                                      for _ in range(n))
    if k == "unk":
        return "(unk %d x%s)" % (r.pick([3, 66, 128, 255]), r.pick(["", "00", "0102"]))
    return k


def gen_caps(r, fams):
    n = r.pick([0, 1, 2, 3, 4, 5, 6, 8])
    caps = [gen_cap(r, fams) for _ in range(n)]
    # mostly make the families actually negotiable
    if r.chance(3, 4):
        caps = ["(mp %d)" % f for f in set(r.pick(fams) for _ in range(r.pick([1, 2, 2])))] + caps
    return "(" + " ".join(caps) + ")"


SM_VALUES = [1, 2, 4, 255, 1, 2, 0, 256]


def gen_sm(r, fams):
    n = r.pick([0, 1, 1, 2, 3])
    return "(sm %s)" % pairs([(r.pick(fams), r.pick(SM_VALUES)) for _ in range(n)])


def gen_neg(r):
    fams = FAMS2 if r.chance(2, 3) else FAMS
    return "(neg %s %s %s)" % (gen_caps(r, fams), gen_caps(r, fams), gen_sm(r, fams))


def gen_neg_addpath_pair(r):
    """systematic: one family, every pair of (possibly duplicated) add-path modes"""
    f = r.pick(FAMS2)
    def side():
        tuples = [(f, r.pick([0, 1, 2, 3])) for _ in range(r.pick([1, 1, 2]))]
        caps = ["(mp %d)" % f, "(addpath %s)" % pairs(tuples)]
        if r.chance(1, 4):
            caps.append("(addpath %s)" % pairs([(f, r.pick([0, 1, 2, 3]))]))
        if r.chance(1, 8):
            caps = caps[1:]          # add-path without the family itself
        return "(" + " ".join(caps) + ")"
    return "(neg %s %s (sm (%d %d)))" % (side(), side(), f, r.pick([1, 2, 4]))


MC4 = 65538
SYS_FAMS = [IPV4, VPN4, MC4, IPV6]


def gen_neg_systematic(r):
    """every per-family feature gets, independently per family, one of {neither, local only, remote only, both}
    over a universe with three IPv4-AFI families (so disjoint / overlapping / nested family sets all occur);
    tuples are put into one capability or split over several, capabilities are shuffled"""
    fams = list(SYS_FAMS) if r.chance(1, 2) else [IPV4, VPN4, MC4]
    def combo(both_w=1):
        return r.weighted([(0, 1), (1, 1), (2, 1), (3, both_w)])
    feat = {}
    for f in fams:
        feat[f] = dict(mp=combo(5), rx=combo(), tx=combo(), enh=combo(), gr=combo(), llgr=combo())
    def side(bit):
        caps = []
        has = lambda f, k: feat[f][k] & bit != 0
        for f in fams:
            if has(f, "mp"):
                caps.append("(mp %d)" % f)
        # add-path: the local rx direction needs local bit0 + remote bit1, the local tx direction local bit1 + remote bit0
        ap = []
        for f in fams:
            if bit == 1:
                m = (1 if has(f, "rx") else 0) | (2 if has(f, "tx") else 0)
            else:
                m = (2 if has(f, "rx") else 0) | (1 if has(f, "tx") else 0)
            if m or r.chance(1, 4):
                ap.append((f, m))
        enh = [(f, 2 if r.chance(9, 10) else r.pick([1, 3])) for f in fams if has(f, "enh")]
        grf = [(f, r.pick([0, 128])) for f in fams if has(f, "gr")]
        ll = [(f, r.pick([0, 128]), r.pick([0, 1, 5, 600, 600])) for f in fams if has(f, "llgr")]
        def emit(name, tuples, fmt):
            if not tuples:
                return
            if r.chance(1, 2) or len(tuples) == 1:
                caps.append("(%s %s)" % (name, " ".join(fmt % t for t in tuples)))
            else:                                  # split capability: one tuple each
                for t in tuples:
                    caps.append("(%s %s)" % (name, fmt % t))
        emit("addpath", ap, "(%d %d)")
        emit("enh", enh, "(%d %d)")
        if grf or r.chance(1, 6):
            caps.append("(gr %d %d (%s))" % (r.pick([0, 4, 8, 12]), r.pick([90, 120]), pairs(grf)))
        if ll or r.chance(1, 6):
            caps.append("(llgr %s)" % " ".join("(%d %d %d)" % t for t in ll))
        if r.chance(2, 3):
            caps.append("extmsg")
        if r.chance(2, 3):
            caps.append("(as4 %d)" % r.pick([65001, 65002]))
        # shuffle (Fisher-Yates with the one PRNG)
        for i in range(len(caps) - 1, 0, -1):
            j = r.below(i + 1)
            caps[i], caps[j] = caps[j], caps[i]
        return "(" + " ".join(caps) + ")"
    sm = pairs([(f, r.pick([1, 2, 4])) for f in fams if r.chance(1, 2)])
    return "(neg %s %s (sm %s))" % (side(1), side(2), sm)


def hexb(bs):
    return "x" + "".join("%02x" % b for b in bs)


def gen_contains(r):
    v6 = r.chance(1, 4)
    n = 16 if v6 else 4
    base = [r.pick([0, 10, 127, 255, 1, 128]) for _ in range(n)]
    mask = r.weighted([(r.below(8 * n + 1), 10), (8 * n, 2), (0, 1), (8 * n + 1 + r.below(8), 2), (r.pick([40, 64, 129, 136, 200, 255]), 1),
                       (r.pick([0, 1, 7, 8, 9, 8 * n - 9, 8 * n - 8, 8 * n - 7, 8 * n - 1, 8 * n, 8 * n + 1]), 4)])
    addr = list(base)
    # flip a bit around the mask boundary, or anywhere
    for _ in range(r.pick([0, 1, 1, 2])):
        pos = r.pick([mask - 1, mask, mask + 1, mask - 8, r.below(8 * n)])
        if 0 <= pos < 8 * n:
            addr[pos // 8] ^= 1 << (7 - pos % 8)
    prefix = list(base)
    if r.chance(1, 3):               # host bits set in the configured prefix
        pos = r.pick([mask, mask + 1, 8 * n - 1, r.below(8 * n)])
        if 0 <= pos < 8 * n:
            prefix[pos // 8] ^= 1 << (7 - pos % 8)
    if r.chance(1, 12):              # other address family
        addr = [r.pick([0, 127, 1]) for _ in range(4 if v6 else 16)]
    return "(contains (net %s %d) (ip %s))" % (hexb(prefix), mask, hexb(addr))


ADDRS = [[127, 0, 0, 5], [127, 0, 0, 6], [127, 0, 2, 9], [127, 0, 2, 10], [127, 0, 3, 7], [0] * 15 + [1]]
OUTSIDE = [[127, 9, 9, 9]]
NETS = [([127, 0, 0, 0], 8), ([127, 0, 2, 0], 24), ([127, 0, 3, 0], 23), ([127, 0, 2, 0], 23), ([127, 0, 2, 8], 29),
        ([127, 0, 2, 9], 32), ([127, 0, 2, 9], 31), ([0] * 15 + [1], 128), ([0] * 16, 0), ([0, 0, 0, 0], 0), ([10, 0, 0, 0], 8),
        ([127, 0, 0, 4], 30), ([127, 0, 0, 5], 30)]


def ip(a):
    return "(ip %s)" % hexb(a)


SRPOLICY = 65609          # IPv4 SR Policy: the one IPv4-AFI family left out of extended next hop
PEER_FAMS = [IPV4, IPV6, IPV4, VPN4, SRPOLICY, IPV6]
BIG_AS = 4200000001
AS_EDGE = [65535, 65536, 23456, BIG_AS]      # last 2-octet AS, first 4-octet AS, AS_TRANS, a large 4-octet AS
HOLDS = [180, 180, 180, 0, 30, 90, 3, 65535]
CLUSTERS = [16909060, 1, 0, 4294967295]


def gen_fams(r, tag="fams"):
    n = r.pick([0, 0, 1, 2, 2, 3, 4])
    return "(%s %s)" % (tag, pairs([(r.pick(PEER_FAMS), r.pick([0, 0, 1, 2, 3])) for _ in range(n)]))


def gen_gr(r):
    if r.chance(3, 5):
        return "none"
    return "(some (%d %s (%s)))" % (r.pick([90, 120, 0, 4095, 1]), r.pick(["t", "f"]),
                                    " ".join(str(r.pick(FAMS2 + FAMS2 + [VPN4, SRPOLICY])) for _ in range(r.pick([0, 1, 1, 2, 2, 3]))))


def gen_llgr(r):
    if r.chance(3, 5):
        return "none"
    return "(some (%s))" % pairs([(r.pick(FAMS2 + FAMS2 + [VPN4]), r.pick([0, 600, 3600, 1, 16777215])) for _ in range(r.pick([0, 1, 1, 2, 2, 3]))])


def b(r, num=1, den=4):
    return "t" if r.chance(num, den) else "f"


def opt_num(r, xs, none_w=1):
    x = r.pick([None] * none_w + xs)
    return "none" if x is None else "(some %d)" % x


# mostly disjoint pools of dynamic prefixes per group (overlap between groups abandons the history)
NET_POOLS = {
    "g1": [([127, 0, 2, 0], 24), ([127, 0, 2, 8], 29), ([127, 0, 2, 9], 32), ([127, 0, 2, 9], 31), ([127, 0, 2, 10], 31)],
    "g2": [([127, 0, 0, 4], 30), ([127, 0, 0, 5], 30), ([0] * 15 + [1], 128), ([10, 0, 0, 0], 8), ([127, 0, 0, 6], 32)],
    "g3": [([127, 0, 3, 0], 24), ([127, 0, 3, 1], 24), ([127, 9, 0, 0], 16), ([0] * 15 + [2], 127)],
}


def gen_group(r, name):
    """returns (text, [(prefix octets, mask)], expected AS)"""
    pool = NETS if r.chance(1, 7) else NET_POOLS.get(name, NETS)
    nets = [r.pick(pool) for _ in range(r.pick([0, 1, 1, 2, 3]))]
    if nets and r.chance(1, 6):
        n0, m0 = r.pick(nets)
        nets.insert(r.below(len(nets) + 1), (n0, r.pick([8 * len(n0) + 1, 8 * len(n0) + 1, 8 * len(n0) + 8, 255, m0])))
    asn = r.pick([0, 65001, 65002, 65003, 65009, 65001, 65002] + AS_EDGE)
    text = "(group %s %d %d %s %s %s %s %s %s %s %s %s (nets %s))" % (
        name, asn, r.pick([0, 0, 0, 0, 65010, 65001, 65002, BIG_AS]), opt_num(r, [0, 30, 90, 3, 180, 65535]), b(r), b(r), b(r),
        opt_num(r, CLUSTERS, 3), gen_fams(r), gen_sm(r, [IPV4, IPV6, VPN4]), gen_gr(r), gen_llgr(r),
        " ".join("(net %s %d)" % (hexb(n), m) for n, m in nets))
    return text, [(n, m) for n, m in nets if m <= 8 * len(n)], asn


def gen_pol(r):
    if r.chance(1, 2):
        return "none"
    names = r.pick([[], [], ["p1"], ["p2"], ["p1", "p2"], ["p2", "p1"], ["p1", "p1"], ["px"], ["p1", "px"]])
    return "(some (%s (%s)))" % (r.pick(["accept", "reject"]), " ".join(names))


def gen_peer(r, addr, groups):
    grp = r.pick([None, None] + groups + ["gx"])
    exp = r.pick([0, 0, 65001, 65002, 65003, 65009, 65000, 65001, 65002, 65010] + AS_EDGE)
    down = b(r, 1, 5)
    pol = gen_pol(r)
    gtext = "none" if grp is None else "(some %s)" % grp
    if r.chance(1, 3):
        # through the AddPeer request: what a request can say, with hold_time / send_max at the edges of what it accepts
        fams = {}
        for _ in range(r.pick([0, 0, 1, 2, 2, 3])):
            fams[r.pick(PEER_FAMS)] = r.pick([0, 1])
        sm = {f: r.pick([0, 1, 2, 255, 255, 256, 4, 1000]) for f in fams if r.chance(1, 2)}
        flist = [(f, rx | (2 if sm.get(f, 0) > 0 else 0)) for f, rx in fams.items()]
        if flist and r.chance(1, 6):
            flist.append((flist[0][0], flist[0][1] ^ 1))     # the family twice (same send bit, other receive bit)
        hold = r.pick([0, 0, 180, 1, 2, 3, 4, 90, 65535, 65535, 65536, 4294967295])
        text = "(peer %s %d %d %d %s %s %s %s %s (fams %s) (sm %s) (pl ) none none %s %s api)" % (
            ip(addr), exp, r.pick([0, 0, 0, 0, 65001, 65002, 65010, BIG_AS, 65536]), hold,
            b(r), b(r, 1, 6), b(r), opt_num(r, CLUSTERS, 3), down, pairs(flist), pairs(sorted(sm.items())), pol, gtext)
        ok = ("px" not in pol) and not (exp == 0 and grp is None) and all(v <= 255 for v in sm.values()) \
            and (hold == 0 or 3 <= hold <= 65535)
        return dict(exp=exp, down=(down == "t"), ok=ok), text
    text = "(peer %s %d %d %d %s %s %s %s %s %s %s (pl %s) %s %s %s %s cfg)" % (
        ip(addr), exp, r.pick([0, 0, 0, 0, 65001, 65002, 65010, BIG_AS, 65536]),
        r.pick(HOLDS), b(r), b(r, 1, 6), b(r), opt_num(r, CLUSTERS, 3), down,
        gen_fams(r), gen_sm(r, [IPV4, IPV6, VPN4]),
        pairs([(r.pick(FAMS2 + [VPN4]), r.pick([0, 1, 10, 1000, 4294967295])) for _ in range(r.pick([0, 0, 1, 2]))]),
        gen_gr(r), gen_llgr(r), pol, gtext)
    return dict(exp=exp, down=(down == "t"), ok=("px" not in pol)), text


def covers(net, mask, addr):
    if len(net) != len(addr):
        return False
    for i in range(mask):
        if (net[i // 8] >> (7 - i % 8)) & 1 != (addr[i // 8] >> (7 - i % 8)) & 1:
            return False
    return True


def gen_hist(r):
    confed = r.pick(["none", "none", "(some (65000 (65002)))", "(some (65000 (65001 65002)))", "(some (65000 ()))",
                     "(some (65000 (65002 65003 65009)))"])
    gnames = ["g1", "g2", "g3"][: r.pick([0, 1, 1, 2, 2, 3])]
    if gnames and r.chance(1, 12):
        gnames.append(gnames[0])         # same name twice: the later definition replaces the earlier
    gtexts, gnets, gasn = [], [], []
    for n in gnames:
        t, nets, asn = gen_group(r, n)
        gtexts.append(t); gnets.append(nets); gasn.append(asn)
    npeers = r.pick([0, 1, 1, 2, 3])
    paddrs = [r.pick(ADDRS + [ADDRS[-1]]) for _ in range(npeers)]   # duplicates on purpose (second add fails); ::1 twice as likely
    pp = [gen_peer(r, a, gnames) for a in paddrs]
    peers = [t for _, t in pp]
    # a rough prediction of what the daemon will do, only to aim operations at sessions that exist
    static = {}                           # addr -> dict(exp, down)
    for a, (info, _) in zip(paddrs, pp):
        if info["ok"] and tuple(a) not in static:
            static[tuple(a)] = dict(exp=info["exp"], down=info["down"])
    def dyn_as(a):
        hits = [asn for nets, asn in zip(gnets, gasn) if any(covers(n, m, a) for n, m in nets)]
        return hits[0] if len(hits) == 1 else None      # None: not covered, or ambiguous (history abandoned)
    known_dyn = {}                        # addr -> expected AS of the dynamic neighbour that exists
    slots = {}                            # (addr, role) -> sid holding the slot
    live = {}                             # sid -> (addr, role, expected AS)
    nsess = 0
    ops = []
    def tear(a):
        for role in "AP":
            slots.pop((tuple(a), role), None)
    for _ in range(1 + r.below(r.pick([4, 8, 14]))):
        k = r.weighted([("connect", 45), ("disc", 27), ("api", 28)])
        if k != "connect" and not live and r.chance(4, 5):
            k = "connect"                 # nothing to disconnect or tear down yet
        if k == "connect":
            pool = ADDRS + paddrs * 3 + OUTSIDE + [x[0] for x in live.values()]
            a = r.pick(pool) if r.chance(7, 8) else [127, r.below(4), r.below(4), 1 + r.below(12)]
            role = "P" if r.chance(3, 4) else "A"
            ops.append("(connect %s %s)" % (ip(a), role))
            ta = tuple(a)
            exp = None
            if ta in static:
                if not static[ta]["down"] and (ta, role) not in slots:
                    exp = static[ta]["exp"]
            elif ta in known_dyn:
                if (ta, role) not in slots:
                    exp = known_dyn[ta]
            else:
                exp = dyn_as(a)
                if exp is not None:
                    known_dyn[ta] = exp
            if exp is not None:
                live[nsess] = (a, role, exp); slots[(ta, role)] = nsess; nsess += 1
        elif k == "disc":
            if live and r.chance(7, 8):
                sid = r.pick(sorted(live))
            else:
                sid = r.below(nsess + 2)
            a, role, exp = live.pop(sid, (ADDRS[0], "P", 0))
            ta = tuple(a)
            if slots.get((ta, role)) == sid:
                slots.pop((ta, role))
            if ta in known_dyn and not any(k2[0] == ta for k2 in slots):
                known_dyn.pop(ta)
            if r.chance(2, 5):
                asn = (exp or r.pick([65002, BIG_AS, 65536])) if r.chance(2, 3) else r.pick([65001, 65002, 65003, 65009, 65000] + AS_EDGE)
                ops.append("(discx %d %d %d)" % (sid, asn, r.pick([90, 90, 0, 3, 30, 65535])))
            else:
                ops.append("(disc %d)" % sid)
        else:
            connected = [x[0] for x in live.values()]
            if connected and r.chance(2, 3):
                a = r.pick(connected)
            else:
                a = r.pick(ADDRS + paddrs) if r.chance(9, 10) else r.pick(OUTSIDE)
            ta = tuple(a)
            op = r.pick(["enable", "disable", "delete", "shutdown", "reset"])
            if op == "delete":
                if ta in static or ta in known_dyn:
                    tear(a)
                static.pop(ta, None); known_dyn.pop(ta, None)
            elif op in ("shutdown", "reset"):
                if ta in static or ta in known_dyn:
                    tear(a)
            elif op == "disable":
                if ta in static and not static[ta]["down"]:
                    static[ta]["down"] = True; tear(a)
                elif ta in known_dyn:
                    tear(a)
            elif op == "enable" and ta in static:
                static[ta]["down"] = False
            ops.append("(%s %s)" % (op, ip(a)))
    return "(hist (global %d %d %s) (groups %s) (peers %s) (ops %s))" % (
        r.pick([65001, 65001, 65002, 65001, 65002, BIG_AS, 65535, 65536]), r.pick([16843009, 1, 3758096383]), confed, " ".join(gtexts), " ".join(peers), " ".join(ops))


def gen_malformed(r):
    base = r.pick([gen_neg, gen_contains, gen_hist])(r)
    k = r.below(7)
    if k == 0:
        return base[: 1 + r.below(len(base) - 1)]              # truncated (never empty)
    if k == 1:
        return base.replace("65537", "65793", 1)               # family with bits 8..15 set
    if k == 2:
        return base.replace("(ip x7f", "(ip x0a", 1)           # source address that is not loopback
    if k == 3:
        return base + ")"
    if k == 4:
        return base.replace("(mp ", "(mp 1 ", 1).replace("(connect ", "(konnect ", 1).replace("(net ", "(net x00 ", 1)
    if k == 5:
        return "(contains (net x0a0000 8) (ip x0a000001))" if r.chance(1, 2) else "(contains (net x0a000000 256) (ip x0a000001))"
    return base.replace(" 8)", " 99)", 1).replace(" f ", " maybe ", 1)


def gen_case(r):
    k = r.weighted([("neg", 22), ("negap", 8), ("negsys", 16), ("contains", 14), ("hist", 36), ("bad", 4)])
    return {"neg": gen_neg, "negap": gen_neg_addpath_pair, "negsys": gen_neg_systematic, "contains": gen_contains, "hist": gen_hist, "bad": gen_malformed}[k](r)


# ---------------------------------------------------------------- the boundary suite (part of EVERY run, seed-independent)
def flip(bs, pos):
    bs = list(bs)
    bs[pos // 8] ^= 1 << (7 - pos % 8)
    return bs


def suite_contains():
    out = []
    for base in ([127, 0, 2, 9], [0x20, 1, 0x0d, 0xb8] + [0] * 11 + [1]):
        bits = 8 * len(base)
        for m in [0, 1, 7, 8, 9, 12, 16, bits - 9, bits - 8, bits - 7, bits - 1, bits, bits + 1, 255]:
            out.append("(contains (net %s %d) (ip %s))" % (hexb(base), m, hexb(base)))
            if 1 <= m <= bits:
                out.append("(contains (net %s %d) (ip %s))" % (hexb(base), m, hexb(flip(base, m - 1))))   # last covered bit
            if m < bits:
                out.append("(contains (net %s %d) (ip %s))" % (hexb(base), m, hexb(flip(base, m))))       # first uncovered bit
                out.append("(contains (net %s %d) (ip %s))" % (hexb(flip(base, m)), m, hexb(base)))       # host bit set in the prefix
        out.append("(contains (net %s 8) (ip %s))" % (hexb(base), hexb([127, 0, 0, 1] if len(base) == 16 else [0] * 15 + [1])))
    return out


def suite_neg():
    out = []
    f = IPV4
    for a in range(4):
        for b_ in range(4):
            out.append("(neg ((mp %d) (addpath (%d %d))) ((mp %d) (addpath (%d %d))) (sm (%d 4)))" % (f, f, a, f, f, b_, f))
    for a, b_ in [(4, 3), (3, 7), (255, 255), (5, 1)]:
        out.append("(neg ((mp %d) (addpath (%d %d))) ((mp %d) (addpath (%d %d))) (sm (%d 2)))" % (f, f, a, f, f, b_, f))
    out += [
        # add-path: family listed twice (last wins), family without MultiProtocol, two capabilities
        "(neg ((mp 65537) (addpath (65537 3) (65537 0))) ((mp 65537) (addpath (65537 3))) (sm (65537 2)))",
        "(neg ((mp 65537) (addpath (65537 0)) (addpath (65537 3))) ((mp 65537) (addpath (65537 1))) (sm (65537 2) (65537 4)))",
        "(neg ((mp 65537) (addpath (131073 3))) ((mp 65537) (mp 131073) (addpath (131073 3))) (sm (131073 2)))",
        "(neg ((mp 65537) (mp 65537)) ((mp 65537)) (sm))",
        "(neg () ((mp 65537)) (sm (65537 1)))", "(neg ((mp 65537)) () (sm))", "(neg ((mp 65537)) ((mp 131073)) (sm (65537 1)))",
        "(neg ((mp 65537) (mp 65664) (mp 65538) (mp 131073)) ((mp 131073) (mp 65538) (mp 65664) (mp 65537)) (sm))",
        # extended next hop
        "(neg ((mp 65537) (enh (65537 2))) ((mp 65537) (enh (65537 2))) (sm))",
        "(neg ((mp 65537) (enh (65537 2))) ((mp 65537)) (sm))", "(neg ((mp 65537)) ((mp 65537) (enh (65537 2))) (sm))",
        "(neg ((mp 65537) (enh (65537 1))) ((mp 65537) (enh (65537 2))) (sm))", "(neg ((mp 65537) (enh (65537 3))) ((mp 65537) (enh (65537 3))) (sm))",
        "(neg ((mp 131073) (enh (131073 2))) ((mp 131073) (enh (131073 2))) (sm))",
        "(neg ((mp 65537) (enh (65664 2))) ((mp 65537) (enh (65664 2))) (sm))",
        "(neg ((mp 65537) (mp 65664) (enh (65664 2))) ((mp 65537) (mp 65664) (enh (65664 2))) (sm))",
        "(neg ((mp 65537) (mp 65664) (enh (65664 2) (65537 2))) ((mp 65537) (mp 65664) (enh (65537 2)) (enh (65664 2))) (sm))",
        "(neg ((mp 65537) (mp 65664) (enh (65537 2))) ((mp 65537) (mp 65664) (enh (65664 2))) (sm))",
        # extended message, 4-octet AS
        "(neg ((mp 65537) extmsg) ((mp 65537)) (sm))", "(neg ((mp 65537) extmsg) ((mp 65537) extmsg) (sm))",
        "(neg ((mp 65537) (as4 0)) ((mp 65537) (as4 4294967295)) (sm))", "(neg ((mp 65537) (as4 23456)) ((mp 65537)) (sm))",
        "(neg ((mp 65537) (as4 65535)) ((mp 65537) (as4 65536)) (sm))", "(neg ((mp 65537) (as4 4200000001) (as4 65001)) ((mp 65537) (as4 65002)) (sm))",
        # graceful restart
        "(neg ((mp 65537) (gr 4 0 ((65537 0)))) ((mp 65537) (gr 4 4095 ((65537 128)))) (sm))",
        "(neg ((mp 65537) (gr 4 90 ((65537 0)))) ((mp 65537) (gr 0 90 ((65537 0)))) (sm))",
        "(neg ((mp 65537) (gr 8 90 ((65537 0)))) ((mp 65537) (gr 12 90 ((65537 0)))) (sm))",
        "(neg ((mp 65537) (gr 255 90 ((65537 0) (131073 0)))) ((mp 65537) (gr 255 120 ((131073 128)))) (sm))",
        "(neg ((mp 65537) (gr 4 90 ((65537 0)))) ((mp 65537) (gr 4 90 ((131073 0)))) (sm))",
        "(neg ((mp 65537) (gr 4 90 ())) ((mp 65537) (gr 4 90 ((65537 0)))) (sm))",
        "(neg ((mp 65537) (gr 4 90 ((65537 0)))) ((mp 65537)) (sm))",
        "(neg ((mp 65537) (gr 0 90 ()) (gr 4 120 ((65537 0)))) ((mp 65537) (gr 4 120 ((65537 0)))) (sm))",
        "(neg ((mp 65537) (gr 4 90 ((65537 0) (65537 128)))) ((mp 65537) (gr 4 90 ((65537 0)))) (sm))",
        # long-lived graceful restart
        "(neg ((mp 65537) (llgr (65537 0 0))) ((mp 65537) (llgr (65537 0 0))) (sm))",
        "(neg ((mp 65537) (llgr (65537 0 600))) ((mp 65537) (llgr (65537 0 0))) (sm))",
        "(neg ((mp 65537) (llgr (65537 0 0))) ((mp 65537) (llgr (65537 128 16777215))) (sm))",
        "(neg ((mp 65537) (llgr (65537 0 1))) ((mp 65537) (llgr (65537 0 16777215))) (sm))",
        "(neg ((mp 65537) (llgr (65537 0 1))) ((mp 65537) (llgr (65537 0 2))) (sm))",
        "(neg ((mp 65537) (llgr (65537 0 600) (131073 0 1))) ((mp 65537) (mp 131073) (llgr (131073 0 1) (65537 0 1))) (sm))",
        "(neg ((mp 65537) (gr 4 1 ((65537 0)))) ((mp 65537) (gr 4 4094 ((65537 0)))) (sm))",
        "(neg ((mp 65537) (llgr (65537 0 0) (65537 0 600))) ((mp 65537) (llgr (65537 0 0))) (sm))",
        "(neg ((mp 65537) (llgr (65537 0 600) (65537 0 0))) ((mp 65537) (llgr (65537 0 0) (65537 0 5))) (sm))",
        "(neg ((mp 65537) (llgr) (llgr (65537 0 600))) ((mp 65537) (llgr (65537 0 600))) (sm))",
        "(neg ((mp 65537) (llgr (65537 0 600))) ((mp 65537) (llgr (131073 0 600))) (sm))",
        "(neg ((mp 65537) (llgr (65537 0 600))) ((mp 65537)) (sm))",
        # send-max
        "(neg ((mp 65537) (addpath (65537 2))) ((mp 65537) (addpath (65537 1))) (sm (65537 0)))",
        "(neg ((mp 65537) (addpath (65537 2))) ((mp 65537) (addpath (65537 1))) (sm (65537 1)))",
        "(neg ((mp 65537) (addpath (65537 2))) ((mp 65537) (addpath (65537 1))) (sm (65537 255)))",
        "(neg ((mp 65537) (addpath (65537 2))) ((mp 65537) (addpath (65537 1))) (sm (65537 256)))",
        "(neg ((mp 65537) (addpath (65537 2))) ((mp 65537) (addpath (65537 1))) (sm (65537 2) (65537 9)))",
        "(neg ((mp 65537) (addpath (65537 2))) ((mp 65537) (addpath (65537 2))) (sm (65537 4)))",
        "(neg ((mp 65537) (addpath (65537 1))) ((mp 65537) (addpath (65537 2))) (sm (65537 4)))",
        "(neg ((mp 65537) (addpath (65537 3))) ((mp 65537) (addpath (65537 3))) (sm (131073 4)))",
        "(neg ((mp 65537) (unk 3 x) (unk 255 x0102) rr err fqdn) ((mp 65537) (unk 66 x00)) (sm))",
    ]
    return out


V4A, V4B, V6A = [127, 0, 0, 5], [127, 0, 2, 9], [0] * 15 + [1]


def speer(addr=V4A, exp=65002, lasn=0, hold=180, passive="f", rs="f", rr="f", cluster="none", down="f",
          fams="", sm="", pl="", gr="none", llgr="none", pol="none", group="none", via="cfg"):
    return "(peer %s %d %d %d %s %s %s %s %s (fams %s) (sm %s) (pl %s) %s %s %s %s %s)" % (
        ip(addr), exp, lasn, hold, passive, rs, rr, cluster, down, fams, sm, pl, gr, llgr, pol, group, via)


def sgroup(name="g1", asn=65002, lasn=0, hold="none", passive="f", rs="f", rr="f", cluster="none",
           fams="", sm="", gr="none", llgr="none", nets=()):
    return "(group %s %d %d %s %s %s %s %s (fams %s) (sm %s) %s %s (nets %s))" % (
        name, asn, lasn, hold, passive, rs, rr, cluster, fams, sm, gr, llgr,
        " ".join("(net %s %d)" % (hexb(n), m) for n, m in nets))


def shist(peers=(), groups=(), ops=(), asn=65001, rid=16843009, confed="none"):
    return "(hist (global %d %d %s) (groups %s) (peers %s) (ops %s))" % (
        asn, rid, confed, " ".join(groups), " ".join(peers), " ".join(ops))


def est(addr, asn, role="P", hold=90, sid=0):
    """connect, then the remote end answers with an OPEN carrying `asn`"""
    return ["(connect %s %s)" % (ip(addr), role), "(discx %d %d %d)" % (sid, asn, hold)]


def suite_hist():
    out = []
    CONF_IN, CONF_OUT, CONF_EMPTY = "(some (65000 (65001 65002)))", "(some (65000 (65002 65003)))", "(some (65000 ()))"
    # --- one configured neighbour, one parameter at its boundary, session taken to Established
    famsets = ["", "(65537 0)", "(131073 0)", "(65609 0)", "(65609 1) (65664 0)", "(65537 3) (65664 1) (131073 2)",
               "(65537 0) (65537 3)", "(65609 2) (131073 0)"]
    for addr in (V4A, V6A):
        for fs in famsets:
            out.append(shist([speer(addr, fams=fs, sm="(65537 255) (65664 1)")], ops=est(addr, 65002)))
    for hold in (0, 3, 4, 180, 65534, 65535):
        for rh in (0, 3, 90, 65535):
            out.append(shist([speer(hold=hold)], ops=est(V4A, 65002, hold=rh)))
    for gasn in (65001, 65535, 65536, 23456, BIG_AS):
        for exp in (gasn, 65002, 65535, 65536, 23456, BIG_AS, BIG_AS + 1):
            out.append(shist([speer(exp=exp, rr="t", cluster="(some 0)")], asn=gasn, ops=est(V4A, exp) + est(V4A, exp + 1, "A", sid=1)))
    for exp in (65002, 23456, 65535, 65536, BIG_AS):          # a remote AS that agrees only in its low / high 16 bits
        for d in (65536, 1, 4294901760 - (exp & 0xffff0000)):
            other = (exp + d) % 4294967296
            if other not in (0, exp):
                out.append(shist([speer(exp=exp)], ops=est(V4A, other)))
    for lasn in (0, 65001, 65010, 65535, 65536, BIG_AS):
        for exp in (65002, 65010, BIG_AS):
            for confed in ("none", CONF_IN, CONF_OUT):
                out.append(shist([speer(exp=exp, lasn=lasn)], confed=confed, ops=est(V4A, exp)))
    # roles: every arm of the derivation, static
    for confed in ("none", CONF_IN, CONF_OUT, CONF_EMPTY):
        for exp in (65001, 65002, 65003, 65000, 65009):
            for rs, rr in (("f", "f"), ("t", "f"), ("f", "t"), ("t", "t")):
                out.append(shist([speer(exp=exp, rs=rs, rr=rr, cluster="(some 4294967295)" if exp == 65001 else "none")],
                                 confed=confed, ops=est(V4A, exp, "A")))
    for cl in ("none", "(some 0)", "(some 1)", "(some 4294967295)"):
        for rr in "tf":
            out.append(shist([speer(exp=65001, rr=rr, cluster=cl)], rid=3758096383, ops=est(V4A, 65001)))
    for gr in ("(some (0 t (65537)))", "(some (4095 f (65537 131073)))", "(some (1 t ()))", "(some (120 t (65664 65609)))"):
        for ll in ("none", "(some ((65537 0)))", "(some ((65537 16777215) (131073 1)))", "(some ())", "(some ((65537 600) (65537 0)))"):
            out.append(shist([speer(fams="(65537 0) (131073 0)", gr=gr, llgr=ll)], ops=est(V4A, 65002)))
    for pl in ("(65537 0)", "(65537 1)", "(65537 4294967295) (131073 10)", "(65537 5) (65537 6)"):
        out.append(shist([speer(pl=pl)], ops=est(V4A, 65002)))
    for pol in ("none", "(some (accept ()))", "(some (reject ()))", "(some (accept (p1)))", "(some (reject (p2 p1)))",
                "(some (accept (p1 p1)))", "(some (accept (px)))", "(some (reject (p1 px)))"):
        out.append(shist([speer(pol=pol)], ops=est(V4A, 65002)))
    # --- the AddPeer request: hold_time and send-max at the edges of what try_from accepts, AS / group present or not
    for hold in (0, 1, 2, 3, 4, 180, 65534, 65535, 65536, 65537, 4294967295):
        out.append(shist([speer(hold=hold, via="api")], ops=est(V4A, 65002)))
        out.append(shist([speer(exp=0, hold=hold, group="(some g1)", via="api")], [sgroup(hold="(some 30)")], ops=est(V4A, 65002)))
    for smv in (0, 1, 254, 255, 256, 257, 65536, 1048576):
        out.append(shist([speer(fams="(65537 %d) (131073 1)" % (2 if smv else 0), sm="(65537 %d)" % smv, via="api")], ops=est(V4A, 65002)))
        out.append(shist([speer(fams="(65537 %d) (131073 3)" % (3 if smv else 1), sm="(131073 4) (65537 %d)" % smv, via="api")], ops=est(V4A, 65002)))
    for exp, grp, groups in ((0, "none", []), (0, "(some gx)", []), (0, "(some g1)", [sgroup(asn=0)]), (0, "(some g1)", [sgroup()]),
                             (65002, "none", []), (65002, "(some gx)", []), (65003, "(some g1)", [sgroup()])):
        out.append(shist([speer(exp=exp, group=grp, via="api")], groups, ops=est(V4A, 65002)))
    gfull_api = dict(asn=65003, lasn=65010, passive="t", rs="t", rr="t", cluster="(some 0)", fams="(65537 3) (131073 1)", sm="(65537 255)")
    out.append(shist([speer(exp=0, hold=0, group="(some g1)", via="api")], [sgroup(hold="(some 3)", **gfull_api)], ops=est(V4A, 65003)))
    out.append(shist([speer(exp=65002, lasn=BIG_AS, hold=65535, passive="t", rs="t", rr="t", cluster="(some 4294967295)", down="t",
                            fams="(65609 1) (131073 2) (65609 0)", sm="(131073 255)", pol="(some (reject (p2)))", group="(some g1)", via="api"),
                      speer(V6A, exp=65002, fams="(65537 0) (65609 0)", pol="(some (accept (px)))", via="api"),
                      speer(V6A, exp=BIG_AS, fams="(65537 0) (65609 0)", via="api"), speer(V6A, via="api")],
                     [sgroup(hold="(some 3)", **gfull_api)], ops=est(V6A, BIG_AS) + ["(enable %s)" % ip(V4A)] + est(V4A, 65002, sid=1)))
    # --- prefixes the daemon must not admit (longer than the address), the same prefix twice
    for net, a in (((V4B, 32), V4B), ((V4B, 33), V4B), ((V4B, 40), V4B), ((V4B, 255), V4B), (([127, 0, 2, 0], 24), V4B),
                   ((V6A, 128), V6A), ((V6A, 129), V6A), ((V6A, 136), V6A), ((V6A, 255), V6A), (([0] * 16, 127), V6A)):
        out.append(shist([], [sgroup(nets=[net])], ops=est(a, 65002)))
    out.append(shist([], [sgroup(nets=[(V4B, 33), (V4B, 32), (V4B, 32), (V4B, 31), (V4B, 33), (V4B, 31)])], ops=est(V4B, 65002)))
    out.append(shist([], [sgroup("g1", nets=[(V4B, 32)]), sgroup("g2", asn=65003, nets=[(V4B, 33), (V6A, 129)])], ops=est(V4B, 65002) + est(V6A, 65003, sid=1)))
    out.append(shist([], [sgroup("g1", nets=[(V4B, 32)]), sgroup("g1", asn=65003, nets=[(V4B, 33)])], ops=est(V4B, 65002)))
    # admin-down neighbour: refused in both directions, then enabled; disable with 0 / 1 / 2 connections
    out.append(shist([speer(down="t")], ops=["(connect %s P)" % ip(V4A), "(connect %s A)" % ip(V4A), "(enable %s)" % ip(V4A)] + est(V4A, 65002)))
    for op in ("enable", "disable", "delete", "shutdown", "reset"):
        for pre in ([], ["(connect %s P)" % ip(V4A)], ["(connect %s P)" % ip(V4A), "(connect %s A)" % ip(V4A)]):
            for down in "ft":
                ops = (["(enable %s)" % ip(V4A)] if down == "t" and pre else []) + pre + \
                      (["(disable %s)" % ip(V4A)] if down == "t" and pre and op != "disable" else []) + \
                      ["(%s %s)" % (op, ip(V4A)), "(connect %s P)" % ip(V4A), "(disc 0)", "(disc 1)", "(disc 2)", "(connect %s P)" % ip(V4A)]
                out.append(shist([speer(down=down)], ops=ops))
            out.append(shist([], ops=["(%s %s)" % (op, ip(V4A))]))
    # same direction twice, other direction, unknown session ids
    out.append(shist([speer()], ops=["(connect %s P)" % ip(V4A)] * 2 + ["(connect %s A)" % ip(V4A)] * 2 + ["(disc 5)", "(disc 1)", "(disc 0)", "(disc 0)"]))
    out.append(shist([speer(), speer(exp=65003)], ops=["(connect %s P)" % ip(V4A)]))          # the same address twice
    # --- peer groups: every fallback of apply_peer_group taken / not taken
    gfull = dict(asn=65003, lasn=65010, passive="t", rs="t", rr="t", cluster="(some 0)", fams="(65537 3) (131073 1)",
                 sm="(65537 255)", gr="(some (4095 t (65537)))", llgr="(some ((65537 16777215)))")
    for gh in ("none", "(some 0)", "(some 3)", "(some 180)", "(some 65535)", "(some 90)"):
        for ph in (180, 0, 3, 65535):
            out.append(shist([speer(exp=0, hold=ph, group="(some g1)")], [sgroup(hold=gh, **gfull)], ops=est(V4A, 65003)))
    out.append(shist([speer(exp=0, group="(some g1)")], [sgroup(asn=0)], ops=est(V4A, 65002)))            # both 0: any AS
    out.append(shist([speer(exp=65002, lasn=65011, hold=30, passive="t", rs="t", rr="t", cluster="(some 1)", fams="(131073 0)",
                            sm="(131073 2)", gr="(some (90 f (131073)))", llgr="(some ((131073 5)))", group="(some g1)")],
                     [sgroup(hold="(some 90)", **gfull)], ops=est(V4A, 65002)))                         # nothing inherited
    out.append(shist([speer(exp=65002, cluster="(some 1)", sm="(65537 9)", group="(some g1)")],
                     [sgroup(hold="(some 90)", **gfull)], ops=est(V4A, 65002)))                         # own cluster id replaced, own send-max dropped
    out.append(shist([speer(exp=0, group="(some gx)")], [sgroup()], ops=est(V4A, 65002)))                # group that does not exist
    out.append(shist([speer(exp=0, group="(some g1)")], [sgroup(asn=65002), sgroup(asn=65003)], ops=est(V4A, 65003)))   # later definition wins
    # --- dynamic neighbours: addresses at the edges of the prefix, every role, the life cycle
    edge = [(([127, 0, 2, 8], 29), [[127, 0, 2, 8], [127, 0, 2, 15], [127, 0, 2, 7], [127, 0, 2, 16]]),
            (([127, 0, 2, 9], 32), [[127, 0, 2, 9], [127, 0, 2, 8], [127, 0, 2, 10]]),
            (([127, 0, 2, 9], 31), [[127, 0, 2, 8], [127, 0, 2, 9], [127, 0, 2, 10], [127, 0, 2, 7]]),
            (([127, 0, 2, 0], 23), [[127, 0, 3, 254], [127, 0, 2, 1], [127, 0, 4, 1], [127, 0, 1, 254]]),
            (([127, 0, 0, 0], 8), [[127, 255, 255, 254], [127, 0, 0, 1]]),
            (([127, 128, 0, 0], 9), [[127, 128, 0, 1], [127, 127, 255, 254]]),
            (([0, 0, 0, 0], 0), [[127, 9, 9, 9], V6A]), (([0, 0, 0, 0], 1), [[127, 0, 0, 1]]), (([128, 0, 0, 0], 1), [[127, 0, 0, 1]]),
            (([10, 0, 0, 0], 8), [[127, 0, 0, 1]]),
            (([0] * 16, 0), [V6A, [127, 0, 0, 1]]), (([0] * 15 + [1], 128), [V6A]), (([0] * 15 + [0], 127), [V6A]), (([0] * 15 + [2], 127), [V6A]),
            (([0] * 16, 64), [V6A]), (([0] * 16, 120), [V6A]), (([0] * 14 + [1, 0], 120), [V6A]), (([0] * 16, 1), [V6A]), (([128] + [0] * 15, 1), [V6A]),
            (([0] * 15 + [0], 121), [V6A]), (([0] * 15 + [3], 127), [V6A])]
    for net, addrs in edge:
        for a in addrs:
            out.append(shist([], [sgroup(fams="(65537 1)" if len(a) == 16 else "", nets=[net])], ops=est(a, 65002)))
    for confed in ("none", CONF_IN, CONF_OUT):
        for gasn in (0, 65001, 65002, 65003, 65000, BIG_AS):
            for rs, rr in (("f", "f"), ("t", "f"), ("f", "t")):
                out.append(shist([], [sgroup(asn=gasn, rs=rs, rr=rr, cluster="(some 0)" if rr == "t" else "none", nets=[([127, 0, 0, 0], 8)])],
                                 confed=confed, ops=est(V4B, gasn or BIG_AS)))
    for gasn, glasn, gcl, gf, ggr, gll in [
            (65535, BIG_AS, "(some 4294967295)", "(65537 0) (65537 0)", "(some (0 f ()))", "(some ())"),
            (65536, 65536, "(some 16909060)", "(131073 0)", "(some (0 f (65537)))", "(some ((65537 0) (65537 0)))"),
            (23456, 0, "none", "(65609 0)", "none", "(some ((65537 0)))"),
            (23456, 0, "(some 1)", "(65609 1) (131073 0)", "none", "none")]:
        for rr in "tf":
            out.append(shist([speer(V4A, exp=0, group="(some g1)", sm="(65537 0)")],
                             [sgroup(asn=gasn, lasn=glasn, rr=rr, cluster=gcl, fams=gf, gr=ggr, llgr=gll, nets=[(V4B, 32)])],
                             ops=est(V4B, gasn) + est(V4A, gasn, sid=1)))
    out.append(shist([speer(V4A), speer(V4B), speer([127, 0, 0, 6], exp=65003), speer(V6A)], ops=est(V6A, 65002)))
    for gh in ("none", "(some 0)", "(some 3)", "(some 180)", "(some 65535)"):
        out.append(shist([], [sgroup(hold=gh, lasn=65010, nets=[(V4B, 32)], **{k: v for k, v in gfull.items() if k not in ("asn", "lasn")})], ops=est(V4B, 65002)))
    c = lambda a, r: "(connect %s %s)" % (ip(a), r)
    dyn = [sgroup(nets=[([127, 0, 2, 0], 24), (V6A, 128)])]
    out.append(shist([], dyn, ops=[c(V4B, "P"), c(V4B, "P"), c(V4B, "A"), c(V4B, "A"), "(disc 0)", c(V4B, "P"), "(disc 1)", "(disc 2)", c(V4B, "A"), "(discx 3 65002 90)"]))
    out.append(shist([], dyn, ops=[c(V6A, "A"), c(V6A, "P"), "(discx 1 65002 0)", "(discx 0 65003 90)", c(V6A, "P"), "(disc 2)"]))
    for op in ("enable", "disable", "delete", "shutdown", "reset"):
        for pre in ([c(V4B, "P")], [c(V4B, "P"), c(V4B, "A")]):
            out.append(shist([], dyn, ops=pre + ["(%s %s)" % (op, ip(V4B)), "(disc 0)", "(disc 1)", c(V4B, "P"), "(disc 2)", "(%s %s)" % (op, ip(V4B))]))
    # a static neighbour inside a dynamic prefix stays static; deleting it makes the address dynamic
    out.append(shist([speer(V4B, exp=65003, down="t")], dyn, ops=[c(V4B, "P"), "(delete %s)" % ip(V4B), c(V4B, "P"), "(discx 0 65002 90)"]))
    # several groups cover the address / the same prefix in two groups
    out.append(shist([], [sgroup("g1", nets=[([127, 0, 2, 0], 24)]), sgroup("g2", asn=65003, nets=[(V4B, 32)])], ops=[c(V4B, "P"), c(V4A, "P")]))
    out.append(shist([], [sgroup("g1", nets=[(V4B, 32)]), sgroup("g2", nets=[(V4B, 32)]), sgroup("g3", nets=[(V4B, 32)])], ops=[c(V4B, "A")]))
    return out


_SUITE = None


def boundary_suite():
    global _SUITE
    if _SUITE is None:
        _SUITE = suite_contains() + suite_neg() + suite_hist()
    return _SUITE


def gen(seed, n, tier):
    r = Rng(seed * 1000003 + 16)
    suite = boundary_suite()
    return suite + [gen_case(r) for _ in range(max(n - len(suite), n // 2))]
