"""SplitMix64 PRNG shared by the python-side generators (one PRNG state per run)."""
class Rng:
    def __init__(self, seed):
        self.s = seed & 0xFFFFFFFFFFFFFFFF
    def next(self):
        self.s = (self.s + 0x9E3779B97F4A7C15) & 0xFFFFFFFFFFFFFFFF
        z = self.s
        z = ((z ^ (z >> 30)) * 0xBF58476D1CE4E5B9) & 0xFFFFFFFFFFFFFFFF
        z = ((z ^ (z >> 27)) * 0x94D049BB133111EB) & 0xFFFFFFFFFFFFFFFF
        return z ^ (z >> 31)
    def below(self, n):
        return self.next() % n if n > 0 else 0
    def pick(self, xs):
        return xs[self.below(len(xs))]
    def chance(self, num, den):
        return self.below(den) < num
    def weighted(self, pairs):
        tot = sum(w for _, w in pairs)
        r = self.below(tot)
        for x, w in pairs:
            if r < w:
                return x
            r -= w
        return pairs[-1][0]
