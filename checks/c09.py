from common import Rng

CONFIG = dict(
    claimed=True,
    level_text="Kernel-checked Lean theorems over ALL inputs of the export model: the master theorems (the C09 reference "
               "checker, one clause per sentence of the statement, accepts every advertisement and every inbound decision "
               "the model can produce, for every receiver role, source, RR/cluster and confederation configuration, export "
               "policy of the modelled fragment and every well-formed attribute set) plus one readable theorem per sentence "
               "(no echo, no non-client to non-client, RS isolation, AS / ORIGINATOR_ID / CLUSTER_LIST loops never installed, "
               "eBGP: one prepend after stripping confed segments, internal attributes and received MED removed, next hop "
               "self; iBGP: LOCAL_PREF present, path and next hop untouched; reflection adds ORIGINATOR_ID and the "
               "cluster-id; confed member AS in a confed sequence; LLGR_STALE; unknown transitive forwarded with Partial, "
               "non-transitive dropped).  The model is tied to daemon/src/event/export.rs + the AS_PATH helpers of "
               "packet/src/bgp.rs + rx_update by running the real process_nlri_change / is_as_loop / rx_update and the "
               "model on the same generated cases (full 7 x 5 x 8 role matrix twice per run, then random cells) and "
               "diffing every observation, with the reference checker as oracle on the real outputs.",
    level_note="Trusted: Lean kernel; axioms propext/Classical.choice/Quot.sound; the hand-written model (checked only by the "
               "correspondence stream); harness glue (term <-> packet::Attribute conversion, the transcribed "
               "`if is_as_loop {continue}` chaining of run_select in front of rx_update, RIB lookup for `installed`). "
               "Modelled, not verified: export policy beyond one statement with an ORIGIN condition and next-hop / MED / "
               "community-add actions (C14), RTC filter, BMP Adj-RIB-Out notifications, the position at which "
               "inject_local_pref_if_absent inserts into an unsorted vector (std binary search; observations are sorted "
               "by code), malformed AS_PATH payloads (Attribute::decode rejects them, C05/C17).",
    lean_modules=["Rbgp.Export.Props"],
    theorems=[
        "Rbgp.Export.Props.check_run_ok",
        "Rbgp.Export.Props.check_rx_ok",
        "Rbgp.Export.Props.no_echo",
        "Rbgp.Export.Props.no_nonclient_to_nonclient",
        "Rbgp.Export.Props.rs_isolation",
        "Rbgp.Export.Props.as_loop_rejected",
        "Rbgp.Export.Props.originator_loop_rejected",
        "Rbgp.Export.Props.cluster_loop_rejected",
        "Rbgp.Export.Props.ebgp_prepend_once_after_strip",
        "Rbgp.Export.Props.prepend_first_as",
        "Rbgp.Export.Props.prepend_hops",
        "Rbgp.Export.Props.prepend_strip_no_confed",
        "Rbgp.Export.Props.prepend_full_segment_fresh",
        "Rbgp.Export.Props.ebgp_strips_lp_orig_cluster_aigp_med",
        "Rbgp.Export.Props.ebgp_nexthop_self",
        "Rbgp.Export.Props.ibgp_local_pref_present",
        "Rbgp.Export.Props.ibgp_path_nh_untouched",
        "Rbgp.Export.Props.reflect_adds_originator_and_cluster",
        "Rbgp.Export.Props.confed_member_in_confed_seq",
        "Rbgp.Export.Props.llgr_stale_community_present",
        "Rbgp.Export.Props.opaque_transitive_partial",
        "Rbgp.Export.Props.opaque_nontransitive_dropped",
    ],
    harness=dict(kind="daemon", test="event::verif_event::c09::verif_main"),
    profiles=["debug"],
    n_quick=2600, n_thorough=200000, shards=12,
    nontrivial_re=r"\(reach|\(installed f",
    rule="the full matrix source {local, kernel, eBGP, iBGP, RR-client, RS-client, confed} x receiver role {eBGP, RS-client, "
         "iBGP, RR-client, confed-eBGP} x {cluster-id set / unset} x {confederation id set / unset} x {source LLGR-stale or "
         "not} (280 cells, once with every attribute present and once with a random set), then random cells; attribute sets: "
         "each of ORIGIN, AS_PATH (0-4 segments of all four types, lengths 0-5, 254, 255, local AS / confederation id "
         "planted), MED, LOCAL_PREF, ATOMIC_AGGREGATE, AGGREGATOR, COMMUNITY (with LLGR_STALE / NO_LLGR), ORIGINATOR_ID, "
         "CLUSTER_LIST, EXT_COMMUNITY, AIGP, LARGE_COMMUNITY present or absent, 0-3 unknown attributes with flags from "
         "{C0,E0,80,A0,D0,40,00,F0,90}, shuffled order and duplicates now and then; next hop none / IPv4 / IPv6 / "
         "link-local pair / unspecified; families IPv4, IPv6, Flowspec; add-path branch (effective_max 2,3); export policy "
         "none or one statement (ORIGIN condition, next-hop self/peer/unchanged/address, MED set/mod, community add, "
         "accept/reject/pass); echo (source address = receiver); inbound cases with planted AS / ORIGINATOR_ID / cluster-id "
         "loops; 2.5 % syntactically damaged cases.  Non-trivial = an advertisement was produced or an inbound route was "
         "refused; distinct = distinct case line",
    expect_tokens=["suppressed", "(reach 0", "(reach 1", "(installed f)", "(installed t)", "(bad-case)", "(v6ll ", "(aspath (3 ",
                   "(aspath (2 ", "(words 10 ", "(val 9 ", "(val 5 100)", "4294901766", "(opq ", "none (attrs"],
    trusted_base=["model lean/Rbgp/Export/Model.lean of daemon/src/event/export.rs, the AS_PATH helpers of packet/src/bgp.rs and the "
                  "loop tests of rx_update / run_select",
                  "harness/daemon/c09.rs + export_common.rs: attributes are built with Attribute::new_with_value / new_with_bin / "
                  "new_opaque from structured terms and printed back by an independent walk of the payload bytes; the inbound "
                  "cases chain the real is_as_loop and the real rx_update as run_select does (transcribed `continue`)"],
    modelled_not_verified=["export policy beyond the one-statement fragment (C14)", "RTC filter and BMP notifications inside "
                           "process_nlri_change (held at None)", "insert position of inject_local_pref_if_absent in an unsorted "
                           "attribute vector (std partition_point); observations are stably sorted by code",
                           "AS_PATH payloads that are not a sequence of well-formed segments (cannot come out of Attribute::decode)"],
    assumptions=["sources are as on_established builds them: role Ibgp / IbgpRrClient iff remote AS = local AS (the checker is "
                 "vacuous on other sources, the model/implementation comparison is not)",
                 "attribute sets hold one attribute per code, as the UPDATE decoder guarantees (same remark)"],
)

LASNS = [65001, 4200000001]
OTHER_ASNS = [65002, 65003, 23456, 1, 65100, 65001, 4200000001]
RIDS = [16843009, 33686018, 0, 167772167]
CIDS = [16909060, 0, 16843009]
V4 = [167772161, 167772162, 167772167, 3232235777]       # 10.0.0.1 10.0.0.2 10.0.0.7 192.168.1.1
V6 = [10, 42540766411282592856903984951653826561, 338288524927261089654018896841347694593]
LL = 338288524927261089654018896841347694593               # fe80::1
LLGR_STALE = 4294901766
ROLES = ["ebgp", "rsc", "ibgp", "rrc", "confed"]
SRC_KINDS = ["local", "kernel", "ebgp", "ibgp", "rrc", "rsc", "confed"]


def addr(r, fam6):
    return "(v6 %d)" % r.pick(V6) if fam6 else "(v4 %d)" % r.pick(V4)


def gen_seg(r, lasn, confed):
    t = r.weighted([(2, 10), (1, 2), (3, 3), (4, 1)])
    n = r.weighted([(0, 1), (1, 6), (2, 5), (3, 3), (5, 1), (254, 1), (255, 2)])
    dom = [65002, 65003, 23456, 1, 65010]
    if r.chance(1, 8):
        dom = dom + [lasn]
    if confed and r.chance(1, 8):
        dom = dom + [confed]
    if n >= 254:
        a = r.pick(dom)
        asns = [a] * n
        if r.chance(1, 2):
            asns[r.below(n)] = r.pick(dom)
    else:
        asns = [r.pick(dom) for _ in range(n)]
    return "(%d%s)" % (t, "".join(" %d" % a for a in asns))


def gen_attrs(r, lasn, confed, rid, cid, rich=False):
    out = []
    p = (lambda num, den: True) if rich else r.chance
    if r.chance(9, 10):
        out.append("(val 1 %d)" % r.pick([0, 1, 2]))
    if r.chance(17, 20):
        nseg = r.weighted([(0, 1), (1, 8), (2, 5), (3, 2), (4, 1)])
        out.append("(aspath%s)" % "".join(" " + gen_seg(r, lasn, confed) for _ in range(nseg)))
    if p(1, 2):
        out.append("(val 4 %d)" % r.pick([0, 5, 100, 4294967295]))
    if p(1, 2):
        out.append("(val 5 %d)" % r.pick([0, 100, 200, 4294967295]))
    if p(1, 4):
        out.append("(bin 6 x)")
    if p(1, 5):
        out.append("(bin 7 x0000fdea0a000001)")
    if p(2, 5):
        n = r.below(4)
        ws = [r.pick([4259840100, 4259840200, LLGR_STALE, 4294901767, 4294967041]) for _ in range(n)]
        out.append("(words 8%s)" % "".join(" %d" % w for w in ws))
    if p(1, 3):
        out.append("(val 9 %d)" % r.pick(RIDS + [rid]))
    if p(1, 3):
        n = r.below(4)
        ws = [r.pick(CIDS + ([cid] if cid is not None else [])) for _ in range(n)]
        out.append("(words 10%s)" % "".join(" %d" % w for w in ws))
    if p(1, 5):
        out.append("(bin 16 x0002fde900000064)")
    if p(1, 4):
        out.append("(bin 26 x01000b0000000000000064)")
    if p(1, 6):
        out.append("(bin 32 x0000fde90000000100000002)")
    nop = r.weighted([(0, 6), (1, 5), (2, 2), (3, 1)])
    codes = [99, 200, 255, 11, 128]
    for _ in range(nop):
        fl = r.pick([192, 224, 128, 160, 208, 64, 0, 240, 144])
        n = r.pick([0, 1, 3, 4])
        out.append("(opq %d %d x%s)" % (r.pick(codes), fl, "".join("%02x" % r.below(256) for _ in range(n))))
    # order: canonical mostly, shuffled sometimes; a duplicate now and then (spec: not applicable)
    if r.chance(1, 4):
        for i in range(len(out) - 1, 0, -1):
            j = r.below(i + 1)
            out[i], out[j] = out[j], out[i]
    if out and r.chance(1, 30):
        out.insert(r.below(len(out) + 1), r.pick(out))
    return "(attrs%s)" % "".join(" " + a for a in out)


def gen_policy(r, fam6):
    if r.chance(3, 4):
        return "none"
    nh = r.weighted([("none", 4), ("self", 2), ("peer", 1), ("unchanged", 2), ("addr", 2)])
    if nh == "addr":
        nh = "(addr %s)" % addr(r, fam6)
    med = r.weighted([("none", 4), ("set", 3), ("mod", 3)])
    if med != "none":
        med = "(%s %s %d)" % (med, r.pick(["+", "+", "-"]), r.pick([0, 7, 100, 4294967295, 5000000000]))
    comm = ""
    if r.chance(1, 4):
        comm = "".join(" %d" % r.pick([4259840100, LLGR_STALE, 77]) for _ in range(1 + r.below(2)))
    disp = r.weighted([("accept", 5), ("pass", 3), ("reject", 2)])
    dflt = r.weighted([("accept", 5), ("reject", 1)])
    cond = "any" if r.chance(2, 3) else "(origin %d)" % r.pick([0, 1, 2, 7])
    return "(pol %s %s %s (comm%s) %s %s)" % (cond, nh, med, comm, disp, dflt)


def gen_source(r, kind, lasn, raddr_t, fam6, llgr):
    if kind in ("local", "kernel"):
        return kind
    role = {"ebgp": "ebgp", "ibgp": "ibgp", "rrc": "rrc", "rsc": "rsc", "confed": "confed"}[kind]
    if kind in ("ibgp", "rrc"):
        rasn = lasn
    elif kind == "confed":
        rasn = r.pick([65101, 65102])
    else:
        rasn = r.pick([65002, 65003])
    src_lasn = lasn
    if r.chance(1, 40):          # sources the statement does not talk about (spec: not applicable)
        rasn = r.pick([lasn, 65002])
    a = raddr_t if r.chance(1, 8) else addr(r, fam6 if r.chance(5, 6) else not fam6)
    return "(peer %s %d %d %d %s %s)" % (a, rasn, src_lasn, r.pick(RIDS), role, "t" if llgr else "f")


def gen_nh(r, fam6):
    k = r.weighted([("match", 12), ("none", 2), ("unspec", 2), ("other", 1)])
    if k == "none":
        return "none"
    if k == "unspec":
        return "(v6 0)" if fam6 else "(v4 0)"
    six = fam6 if k == "match" else not fam6
    if six:
        if r.chance(1, 3):
            return "(v6ll %d %d)" % (r.pick(V6), LL)
        return "(v6 %d)" % r.pick(V6)
    return "(v4 %d)" % r.pick(V4)


def gen_exp(r, cell=None, rich=False):
    lasn = r.pick(LASNS)
    if cell is None:
        kind = r.pick(SRC_KINDS)
        role = r.pick(ROLES)
        cluster = r.pick([None, None, 16909060, 0])
        confed = r.pick([0, 0, 65100, lasn])
        llgr = r.chance(1, 5)
    else:
        kind, role, cluster, confed, llgr = cell
    if kind in ("local", "kernel"):
        llgr = False
    fam = r.weighted([("ipv4", 8), ("ipv6", 4), ("fs4", 1)])
    fam6 = fam == "ipv6"
    laddr = addr(r, fam6)
    link = "(some %d)" % LL if (fam6 and r.chance(1, 2)) else "none"
    raddr = addr(r, fam6)
    rid = r.pick(RIDS)
    mx = r.weighted([(1, 6), (2, 3), (3, 1)])
    ctx = "(ctx %s %d %s %s %d)" % (role, lasn, laddr, link, confed)
    sess = "(sess %s %s %d %s)" % (raddr, "none" if cluster is None else "(some %d)" % cluster, mx, fam)
    src = gen_source(r, kind, lasn, raddr, fam6, llgr)
    attrs = gen_attrs(r, lasn, confed, rid, cluster, rich)
    nh = gen_nh(r, fam6) if fam != "fs4" else r.pick(["none", "none", "(v4 167772161)"])
    path = "(path %d %s %s)" % (r.pick([1, 1, 2, 7, 4294967295]), nh, attrs)
    return "(exp %s %s %s %s %s)" % (ctx, sess, gen_policy(r, fam6), src, path)


def gen_rx(r):
    lasn = r.pick(LASNS)
    confed = r.pick([0, 0, 65100, lasn])
    rid = r.pick(RIDS)
    cluster = r.pick([None, 16909060, 0, 16843009])
    role = r.pick(ROLES)
    return "(rx %d %d %d %s %s %s)" % (lasn, confed, rid, "none" if cluster is None else "(some %d)" % cluster,
                                      role, gen_attrs(r, lasn, confed, rid, cluster))


def mutate(r, case):
    """malformed stream: the result is usually not a case (both sides must say (bad-case))."""
    k = r.below(6)
    if k == 0:
        return case.replace("(val 1 ", "(val 3 ", 1)
    if k == 1:
        return case.replace("ebgp", "xbgp", 1)
    if k == 2:
        return case[:-1]
    if k == 3:
        return case.replace("(v4 ", "(v4 4294967296", 1)
    if k == 4:
        return case.replace("(aspath (", "(aspath (9 ", 1)
    return case.replace("(opq ", "(opq 5 ", 1)


def matrix(r, rich):
    out = []
    for kind in SRC_KINDS:
        for role in ROLES:
            for cluster in (None, 16909060):
                for confed in (0, 65100):
                    for llgr in (False, True):
                        out.append(gen_exp(r, (kind, role, cluster, confed, llgr), rich))
    return out


def gen(seed, n, tier):
    r = Rng(seed * 1000003 + 9)
    cases = matrix(r, True) + matrix(r, False)          # 2 x 280 cells
    while len(cases) < n:
        k = r.below(100)
        if k < 80:
            c = gen_exp(r)
        else:
            c = gen_rx(r)
        if r.chance(1, 40):
            c = mutate(r, c)
        cases.append(c)
    return cases
