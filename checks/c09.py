from common import Rng

def _reachable_cells():
    """cells of the role matrix in which the statement lets a route through (liveness table: each must
    show at least one advertisement in every run; `+rr` = the receiving iBGP session has a cluster-id)"""
    srcs = ["local", "kernel", "peer-ebgp", "peer-ibgp", "peer-rrc", "peer-rsc", "peer-confed"]
    out = []
    for s in srcs:
        for d in ["ebgp", "rsc", "confed", "ibgp", "rrc", "ibgp+rr", "rrc+rr"]:
            base = d.split("+")[0]
            if (s == "peer-rsc") != (base == "rsc"):
                continue                      # route-server boundary (a route server originates nothing either)
            if base in ("ibgp", "rrc") and s in ("peer-ibgp", "peer-rrc"):
                if not d.endswith("+rr"):
                    continue                  # plain iBGP: nothing iBGP-learned goes to an iBGP peer
                if s == "peer-ibgp" and base == "ibgp":
                    continue                  # non-client to non-client
            out.append("cell:%s>%s" % (s, d))
    return out


def _reachable_wire_cells():
    ks = ["ebgp", "ibgp", "rrc", "rsc", "confed"]
    out = []
    for s in ks:
        for d in ks:
            if (s == "rsc") != (d == "rsc"):
                continue
            if s == "ibgp" and d == "ibgp":
                continue
            out.append("wirecell:%s>%s" % (s, d))
    return out


CONFIG = dict(
    claimed=True,
    level_text="Kernel-checked Lean theorems over ALL inputs of the export model: the master theorems (the C09 reference "
               "checker, one clause per sentence of the statement, accepts every advertisement the model can produce for "
               "every receiver role but route-server client, and every sentence but the one of finding "
               "F09-rs-client-internal-attributes for RS clients as well; it accepts every inbound decision; it accepts what "
               "the model does when a route turns LLGR-stale after it was advertised: send, restale_llgr, re-feed), for "
               "every source, RR/cluster and confederation configuration, export policy of the modelled fragment and every "
               "well-formed attribute set, plus one readable theorem per sentence (no echo, no non-client to non-client, RS "
               "isolation, AS / ORIGINATOR_ID / CLUSTER_LIST loops never installed, eBGP: one prepend after stripping confed "
               "segments, internal attributes and received MED removed, next hop self; iBGP: LOCAL_PREF present, path and "
               "next hop untouched; reflection adds ORIGINATOR_ID and the cluster-id and only reflection does; confed member "
               "AS in a confed sequence; LLGR_STALE; unknown transitive forwarded with Partial, non-transitive dropped).  The "
               "full-strength statements C09_full (all receivers) and C09_wire_full (all router configurations) are kept as "
               "definitions and refuted for the current code by kernel-evaluated witnesses (three open findings).  The "
               "model is tied to the code at two levels: (a) the real process_nlri_change / is_as_loop / rx_update / "
               "Table::insert + restale_llgr and the model on the same generated cases (full 7 x 5 x 8 role matrix twice per "
               "run, then random cells), every observation diffed; (b) wire cases: a real Global with two neighbours added by "
               "add_peer, both sessions built by accept_connection on loopback TCP and driven by the real run_select (decode, "
               "validate_message, AS-loop guard, rx_msg, on_established, handle_prefix_update, flush_tx), the bytes the "
               "receiver's socket delivers decoded by an independent reader - so role, cluster-id, local AS, confederation "
               "id, Source and every call-site argument are the daemon's own; the reference checker, which derives the "
               "sessions from the configuration by the text, is the oracle on all real outputs.",
    level_note="Trusted: Lean kernel; axioms propext/Classical.choice/Quot.sound; the hand-written model (checked only by the "
               "correspondence stream); harness glue: term <-> packet::Attribute conversion; for (rx ...) cases the "
               "transcribed `if is_as_loop {continue}` chaining in front of rx_update (the wire cases run the real guard); "
               "for wire cases the transcribed preamble of session_loop and the pump (run_select under a 2 ms idle "
               "timeout), the scripted remote speaker (own OPEN/UPDATE encoder) and the independent UPDATE reader. "
               "Modelled, not verified: export policy beyond one statement with an ORIGIN condition and next-hop / MED / "
               "community-add actions (C14), RTC filter, BMP Adj-RIB-Out notifications, the position at which "
               "inject_local_pref_if_absent inserts into an unsorted vector (std binary search; observations are sorted "
               "by code), malformed AS_PATH payloads (Attribute::decode rejects them, C05/C17).  The wire cases have no "
               "theorem of their own (WireCase.run composes rxInstalled and exportOne on the parameters accept_connection "
               "derives); they are covered by the correspondence stream and the oracle.  The oracle tests presence / "
               "containment for ORIGINATOR_ID, the cluster-id and LOCAL_PREF; their values are compared by the model diff.",
    lean_modules=["Rbgp.Export.Props"],
    theorems=[
        "Rbgp.Export.Props.check_run_ok",
        "Rbgp.Export.Props.check_run_all_but_rs",
        "Rbgp.Export.Props.advertised_iff",
        "Rbgp.Export.Props.C09_full_fails",
        "Rbgp.Export.Props.check_stale_ok",
        "Rbgp.Export.Props.stale_is_readvertised",
        "Rbgp.Export.Props.C09_wire_full_fails",
        "Rbgp.Export.Props.check_rx_ok",
        "Rbgp.Export.Props.no_echo",
        "Rbgp.Export.Props.no_nonclient_to_nonclient",
        "Rbgp.Export.Props.rs_isolation",
        "Rbgp.Export.Props.as_loop_rejected",
        "Rbgp.Export.Props.originator_loop_rejected",
        "Rbgp.Export.Props.cluster_loop_rejected",
        "Rbgp.Export.Props.nonreflected_keeps_originator_and_cluster",
        "Rbgp.Export.Props.ebgp_prepend_once_after_strip",
        "Rbgp.Export.Props.prepend_first_as",
        "Rbgp.Export.Props.prepend_hops",
        "Rbgp.Export.Props.prepend_strip_no_confed",
        "Rbgp.Export.Props.prepend_full_segment_fresh",
        "Rbgp.Export.Props.ebgp_strips_lp_orig_cluster_aigp_med",
        "Rbgp.Export.Props.ebgp_nexthop_self",
        "Rbgp.Export.Props.ibgp_local_pref_present",
        "Rbgp.Export.Props.ibgp_path_nh_untouched",
        "Rbgp.Export.Props.reflect_adds_originator_and_cluster",
        "Rbgp.Export.Props.confed_member_in_confed_seq",
        "Rbgp.Export.Props.llgr_stale_community_present",
        "Rbgp.Export.Props.opaque_transitive_partial",
        "Rbgp.Export.Props.opaque_nontransitive_dropped",
    ],
    harness=dict(kind="daemon", test="event::verif_event::c09::verif_main"),
    profiles=["debug"],
    n_quick=2600, n_thorough=200000, shards=12,
    nontrivial_re=r"\(reach|\(installed f|absent",
    oracle_stats=True,
    expect_judged=_reachable_cells() + _reachable_wire_cells() + [
        "exp-judged", "exp2-judged", "stale-readvertised", "rx-judged", "wire-judged", "rx-as-loop", "rx-originator-loop",
        "rx-cluster-loop", "wire-as-loop:ibgp", "wire-as-loop:rrc", "wire-as-loop:confed", "wire-as-loop:ebgp",
        "wire-as-loop:rsc", "wire-originator-loop:ibgp", "wire-originator-loop:rrc", "wire-originator-loop:confed",
        "wire-cluster-loop:ibgp", "wire-cluster-loop:rrc", "wire-cluster-loop:confed"],
    rule="the full matrix source {local, kernel, eBGP, iBGP, RR-client, RS-client, confed} x receiver role {eBGP, RS-client, "
         "iBGP, RR-client, confed-eBGP} x {cluster-id set / unset} x {confederation id set / unset} x {source LLGR-stale or "
         "not} (280 cells, once with every attribute present and once with a random set), 30 loop-free wire cells "
         "(announcing neighbour kind x receiving neighbour kind or none), then random cases: 66 % exp, 10 % exp2 (the "
         "neighbour turns LLGR-stale after the first send), 6 % wire (2 % in the thorough tier), 18 % rx.  Attribute sets: "
         "each of ORIGIN, AS_PATH (0-4 segments of all four types, lengths 0-5, 254, 255, local AS / confederation id "
         "planted), MED, LOCAL_PREF, ATOMIC_AGGREGATE, AGGREGATOR, COMMUNITY (with LLGR_STALE / NO_LLGR), ORIGINATOR_ID, "
         "CLUSTER_LIST, EXT_COMMUNITY, AIGP, LARGE_COMMUNITY present or absent, 0-3 unknown attributes with distinct codes "
         "and flags from {C0,E0,80,A0,D0,40,00,F0,90}, shuffled order now and then, one deliberate duplicate in 30; next "
         "hop none / IPv4 / IPv6 / link-local pair / unspecified; families IPv4, IPv6, Flowspec; add-path branch "
         "(effective_max 2,3); export policy none or one statement (ORIGIN condition, next-hop "
         "self/peer/unchanged/address, MED set/mod, community add, accept/reject/pass); echo (source address = "
         "receiver); inbound cases with planted AS / ORIGINATOR_ID / cluster-id loops.  Wire cases: global AS, router-id, "
         "confederation (id + members, sometimes repeating the local AS) or none; per neighbour remote AS by kind, "
         "per-neighbour local AS now and then, RS-client / RR-client flags, cluster-id configured one time in four (also on "
         "sessions that are not iBGP); attribute sets a real neighbour of that kind can send (mandatory attributes, confed "
         "segments only from confederation members, optional flag on unknown attributes) with the router's AS, the "
         "confederation id, the router-id and the cluster-ids planted; receiver established before (live change) or "
         "after (dump) the announcement.  2.5 % syntactically damaged cases.  Non-trivial = an advertisement was produced "
         "or an inbound route was refused; distinct = distinct case line",
    expect_tokens=["suppressed", "(reach 0", "(reach 1", "(installed f)", "(installed t)", "(bad-case)", "(v6ll ", "(aspath (3 ",
                   "(aspath (2 ", "(words 10 ", "(val 9 ", "(val 5 100)", "4294901766", "(opq ", "none (attrs",
                   "(twice (reach", "(twice suppressed nothing)", "(wire absent", "(wire (installed", "(sent (reach 0"],
    trusted_base=["model lean/Rbgp/Export/Model.lean of daemon/src/event/export.rs, the AS_PATH helpers of packet/src/bgp.rs, the "
                  "loop tests of rx_update / run_select, Table::restale_llgr on a one-path destination, and the session "
                  "parameters accept_connection / add_peer derive from the configuration",
                  "harness/daemon/c09.rs + export_common.rs: attributes are built with Attribute::new_with_value / new_with_bin / "
                  "new_opaque from structured terms and printed back by an independent walk of the payload bytes; the (rx) "
                  "cases chain the real is_as_loop and the real rx_update as run_select does (transcribed `continue`); the "
                  "wire cases run the real run_select on loopback sockets (transcribed: session_loop preamble, pump)"],
    modelled_not_verified=["export policy beyond the one-statement fragment (C14)", "RTC filter and BMP notifications inside "
                           "process_nlri_change (held at None)", "insert position of inject_local_pref_if_absent in an unsorted "
                           "attribute vector (std partition_point); observations are stably sorted by code",
                           "AS_PATH payloads that are not a sequence of well-formed segments (cannot come out of Attribute::decode)",
                           "wire cases: IPv4 unicast only, one prefix, export policy none, effective_max 1, no LLGR; a looping "
                           "UPDATE replacing an installed route is not generated (the RIB starts empty)"],
    assumptions=["sources are as on_established builds them: role Ibgp / IbgpRrClient iff remote AS = local AS, role Ebgp / "
                 "ConfedEbgp only with another AS (the checker is vacuous on other sources - counted as exp-skipped-not-wf in "
                 "oracle_clause_counts -, the model/implementation comparison is not)",
                 "attribute sets hold one attribute per code, as the UPDATE decoder guarantees (same remark)",
                 "a route-server client is an eBGP peer served transparently: AS_PATH, NEXT_HOP and MED are not rewritten for it "
                 "(RFC 7947), LOCAL_PREF / ORIGINATOR_ID / CLUSTER_LIST / AIGP are removed as for any eBGP peer (clause "
                 "rs-client-internal-attribute-sent, open finding)",
                 "wire cases: LOCAL_PREF, ORIGINATOR_ID and CLUSTER_LIST received from an external neighbour (eBGP peer, RS "
                 "client) and unrecognised optional non-transitive attributes are not part of the received route (RFC 4271 "
                 "5, 5.1.5, RFC 7606 7.9, 7.10): the loop sentences are judged on what is left",
                 "the local cluster-id is the configured one, the router-id otherwise, on every session of the router (open "
                 "finding F09-cluster-loop-non-ibgp-session); the local AS is the configured one on every session, the "
                 "confederation id as well when configured (open finding F09-member-as-loop-external-session)",
                 "local and kernel routes are not expected at route-server clients (rs_isolation_suppress: a route server "
                 "originates nothing); those two cells are not in the liveness table"],
)

LASNS = [65001, 4200000001]
OTHER_ASNS = [65002, 65003, 23456, 1, 65100, 65001, 4200000001]
RIDS = [16843009, 33686018, 0, 167772167]
CIDS = [16909060, 0, 16843009]
V4 = [167772161, 167772162, 167772167, 3232235777]       # 10.0.0.1 10.0.0.2 10.0.0.7 192.168.1.1
V6 = [10, 42540766411282592856903984951653826561, 338288524927261089654018896841347694593]
LL = 338288524927261089654018896841347694593               # fe80::1
LLGR_STALE = 4294901766
ROLES = ["ebgp", "rsc", "ibgp", "rrc", "confed"]
SRC_KINDS = ["local", "kernel", "ebgp", "ibgp", "rrc", "rsc", "confed"]


def addr(r, fam6):
    return "(v6 %d)" % r.pick(V6) if fam6 else "(v4 %d)" % r.pick(V4)


def gen_seg(r, lasn, confed):
    t = r.weighted([(2, 10), (1, 2), (3, 3), (4, 1)])
    n = r.weighted([(0, 1), (1, 6), (2, 5), (3, 3), (5, 1), (254, 1), (255, 2)])
    dom = [65002, 65003, 23456, 1, 65010]
    if r.chance(1, 8):
        dom = dom + [lasn]
    if confed and r.chance(1, 8):
        dom = dom + [confed]
    if n >= 254:
        a = r.pick(dom)
        asns = [a] * n
        if r.chance(1, 2):
            asns[r.below(n)] = r.pick(dom)
    else:
        asns = [r.pick(dom) for _ in range(n)]
    return "(%d%s)" % (t, "".join(" %d" % a for a in asns))


def gen_attrs(r, lasn, confed, rid, cid, rich=False):
    out = []
    p = (lambda num, den: True) if rich else r.chance
    if r.chance(9, 10):
        out.append("(val 1 %d)" % r.pick([0, 1, 2]))
    if r.chance(17, 20):
        nseg = r.weighted([(0, 1), (1, 8), (2, 5), (3, 2), (4, 1)])
        out.append("(aspath%s)" % "".join(" " + gen_seg(r, lasn, confed) for _ in range(nseg)))
    if p(1, 2):
        out.append("(val 4 %d)" % r.pick([0, 5, 100, 4294967295]))
    if p(1, 2):
        out.append("(val 5 %d)" % r.pick([0, 100, 200, 4294967295]))
    if p(1, 4):
        out.append("(bin 6 x)")
    if p(1, 5):
        out.append("(bin 7 x0000fdea0a000001)")
    if p(2, 5):
        n = r.below(4)
        ws = [r.pick([4259840100, 4259840200, LLGR_STALE, 4294901767, 4294967041]) for _ in range(n)]
        out.append("(words 8%s)" % "".join(" %d" % w for w in ws))
    if p(1, 3):
        out.append("(val 9 %d)" % r.pick(RIDS + [rid]))
    if p(1, 3):
        n = r.below(4)
        ws = [r.pick(CIDS + ([cid] if cid is not None else [])) for _ in range(n)]
        out.append("(words 10%s)" % "".join(" %d" % w for w in ws))
    if p(1, 5):
        out.append("(bin 16 x0002fde900000064)")
    if p(1, 4):
        out.append("(bin 26 x01000b0000000000000064)")
    if p(1, 6):
        out.append("(bin 32 x0000fde90000000100000002)")
    nop = r.weighted([(0, 6), (1, 5), (2, 2), (3, 1)])
    codes = [99, 200, 255, 11, 128]
    for i in range(len(codes) - 1, 0, -1):          # drawn without replacement: one attribute per code
        j = r.below(i + 1)
        codes[i], codes[j] = codes[j], codes[i]
    for k in range(nop):
        fl = r.pick([192, 224, 128, 160, 208, 64, 0, 240, 144])
        n = r.pick([0, 1, 3, 4])
        out.append("(opq %d %d x%s)" % (codes[k], fl, "".join("%02x" % r.below(256) for _ in range(n))))
    # order: canonical mostly, shuffled sometimes; a duplicate now and then (spec: not applicable)
    if r.chance(1, 4):
        for i in range(len(out) - 1, 0, -1):
            j = r.below(i + 1)
            out[i], out[j] = out[j], out[i]
    if out and r.chance(1, 30):
        out.insert(r.below(len(out) + 1), r.pick(out))
    return "(attrs%s)" % "".join(" " + a for a in out)


def gen_policy(r, fam6):
    if r.chance(3, 4):
        return "none"
    nh = r.weighted([("none", 4), ("self", 2), ("peer", 1), ("unchanged", 2), ("addr", 2)])
    if nh == "addr":
        nh = "(addr %s)" % addr(r, fam6)
    med = r.weighted([("none", 4), ("set", 3), ("mod", 3)])
    if med != "none":
        med = "(%s %s %d)" % (med, r.pick(["+", "+", "-"]), r.pick([0, 7, 100, 4294967295, 5000000000]))
    comm = ""
    if r.chance(1, 4):
        comm = "".join(" %d" % r.pick([4259840100, LLGR_STALE, 77]) for _ in range(1 + r.below(2)))
    disp = r.weighted([("accept", 5), ("pass", 3), ("reject", 2)])
    dflt = r.weighted([("accept", 5), ("reject", 1)])
    cond = "any" if r.chance(2, 3) else "(origin %d)" % r.pick([0, 1, 2, 7])
    return "(pol %s %s %s (comm%s) %s %s)" % (cond, nh, med, comm, disp, dflt)


def gen_source(r, kind, lasn, raddr_t, fam6, llgr):
    if kind in ("local", "kernel"):
        return kind
    role = {"ebgp": "ebgp", "ibgp": "ibgp", "rrc": "rrc", "rsc": "rsc", "confed": "confed"}[kind]
    if kind in ("ibgp", "rrc"):
        rasn = lasn
    elif kind == "confed":
        rasn = r.pick([65101, 65102])
    else:
        rasn = r.pick([65002, 65003])
    src_lasn = lasn
    if r.chance(1, 40):          # sources the statement does not talk about (spec: not applicable)
        rasn = r.pick([lasn, 65002])
    a = raddr_t if r.chance(1, 8) else addr(r, fam6 if r.chance(5, 6) else not fam6)
    return "(peer %s %d %d %d %s %s)" % (a, rasn, src_lasn, r.pick(RIDS), role, "t" if llgr else "f")


def gen_nh(r, fam6):
    k = r.weighted([("match", 12), ("none", 2), ("unspec", 2), ("other", 1)])
    if k == "none":
        return "none"
    if k == "unspec":
        return "(v6 0)" if fam6 else "(v4 0)"
    six = fam6 if k == "match" else not fam6
    if six:
        if r.chance(1, 3):
            return "(v6ll %d %d)" % (r.pick(V6), LL)
        return "(v6 %d)" % r.pick(V6)
    return "(v4 %d)" % r.pick(V4)


def gen_exp(r, cell=None, rich=False, op="exp"):
    lasn = r.pick(LASNS)
    if cell is None:
        kind = r.pick(SRC_KINDS)
        role = r.pick(ROLES)
        cluster = r.pick([None, None, 16909060, 0])
        confed = r.pick([0, 0, 65100, lasn])
        llgr = r.chance(1, 5)
    else:
        kind, role, cluster, confed, llgr = cell
    if op == "exp2":
        # the route is advertised first, then its neighbour turns LLGR-stale
        if kind in ("local", "kernel"):
            kind = r.pick(["ebgp", "ibgp", "rrc", "rsc", "confed"])
        llgr = False
    if kind in ("local", "kernel"):
        llgr = False
    fam = r.weighted([("ipv4", 8), ("ipv6", 4), ("fs4", 1)])
    fam6 = fam == "ipv6"
    laddr = addr(r, fam6)
    link = "(some %d)" % LL if (fam6 and r.chance(1, 2)) else "none"
    raddr = addr(r, fam6)
    rid = r.pick(RIDS)
    mx = r.weighted([(1, 6), (2, 3), (3, 1)])
    ctx = "(ctx %s %d %s %s %d)" % (role, lasn, laddr, link, confed)
    sess = "(sess %s %s %d %s)" % (raddr, "none" if cluster is None else "(some %d)" % cluster, mx, fam)
    src = gen_source(r, kind, lasn, raddr, fam6, llgr)
    attrs = gen_attrs(r, lasn, confed, rid, cluster, rich)
    nh = gen_nh(r, fam6) if fam != "fs4" else r.pick(["none", "none", "(v4 167772161)"])
    path = "(path %d %s %s)" % (1 if op == "exp2" else r.pick([1, 1, 2, 7, 4294967295]), nh, attrs)
    return "(%s %s %s %s %s %s)" % (op, ctx, sess, gen_policy(r, fam6), src, path)


# ---- wire cases: one router, two neighbours on loopback addresses, everything derived by the real code
W_LADDR = 2130706433          # 127.0.0.1
W_SRC = 2130706434            # 127.0.0.2
W_DST = 2130706435            # 127.0.0.3
W_RID = [16843009, 167772167]
W_KINDS = ["ebgp", "ibgp", "rrc", "rsc", "confed"]


def gen_nbr(r, kind, a, asn, confed_members, rid):
    lasn = 0
    own = asn
    if r.chance(1, 12):
        lasn = own = 65010
    rs = rrc = "f"
    if kind == "ebgp":
        rasn = r.pick([65002, 65003])
    elif kind == "rsc":
        rasn = r.pick([65002, 65003]); rs = "t"
    elif kind == "ibgp":
        rasn = own
    elif kind == "rrc":
        rasn = own; rrc = "t"
    else:
        rasn = r.pick(confed_members)
    clv = r.pick([16909060, 16843009]) if r.chance(1, 4) else None
    cl = "(some %d)" % clv if clv is not None else "none"
    return "(nbr (v4 %d) %d %d %d %s %s %s)" % (a, rasn, lasn, rid, rs, rrc, cl), rasn, own, clv


def gen_wire_attrs(r, kind, rasn, own, confed_id, members, rid, cids, clean=False):
    out = ["(val 1 %d)" % r.pick([0, 1, 2])]
    # AS_PATH a real neighbour of that kind could send
    dom = [65020, 65021, 23456, 1]
    loop = r.weighted([("none", 6), ("own", 2), ("confed", 1 if confed_id else 0), ("asn", 1)])
    if clean:
        loop = "none"
        rid = 84215045
        cids = [50462976]
    segs = []
    if kind in ("ebgp", "rsc"):
        first = [rasn] + [r.pick(dom) for _ in range(r.below(3))]
        if loop == "own":
            first.append(own)
        if loop == "confed":
            first.append(confed_id)
        segs.append((2, first))
        if r.chance(1, 4):
            segs.append((1, [r.pick(dom) for _ in range(1 + r.below(2))]))
    elif kind == "confed":
        cs = [rasn] + [r.pick(members) for _ in range(r.below(2))]
        if loop == "own":
            cs.append(own)
        segs.append((3, cs))
        if r.chance(1, 5):
            segs.append((4, [r.pick(members)]))
        if r.chance(2, 3):
            ext = [r.pick(dom) for _ in range(1 + r.below(2))]
            if loop == "confed":
                ext.append(confed_id)
            segs.append((2, ext))
    else:
        if r.chance(3, 4):
            ext = [r.pick(dom) for _ in range(1 + r.below(3))]
            if loop == "own":
                ext.append(own)
            if loop == "confed":
                ext.append(confed_id)
            segs.append((2, ext))
    out.append("(aspath%s)" % "".join(" (%d%s)" % (t, "".join(" %d" % a for a in asns)) for t, asns in segs))
    if r.chance(1, 2):
        out.append("(val 4 %d)" % r.pick([0, 5, 100]))
    if kind in ("ibgp", "rrc", "confed") and r.chance(3, 4) or r.chance(1, 4):
        out.append("(val 5 %d)" % r.pick([50, 100, 200]))
    if r.chance(1, 6):
        out.append("(bin 6 x)")
    if r.chance(1, 3):
        out.append("(words 8%s)" % "".join(" %d" % r.pick([4259840100, 4259840200, 4294967041]) for _ in range(1 + r.below(2))))
    if r.chance(1, 3):
        out.append("(val 9 %d)" % r.pick([rid, rid, 33686018, 84215045]))
    if r.chance(1, 3):
        n = 1 + r.below(3)
        out.append("(words 10%s)" % "".join(" %d" % r.pick(cids + [50462976, 67305985]) for _ in range(n)))
    elif kind in ("ibgp", "rrc", "confed") and not clean and r.chance(1, 5):
        out.append("(words 10 %d)" % cids[0])
    if r.chance(1, 4):
        out.append("(bin 26 x01000b0000000000000064)")
    if r.chance(1, 6):
        out.append("(bin 32 x0000fde90000000100000002)")
    codes = [99, 200, 255]
    for k in range(r.weighted([(0, 5), (1, 3), (2, 1)])):
        out.append("(opq %d %d x%s)" % (codes[k], r.pick([192, 224, 128, 160]), "".join("%02x" % r.below(256) for _ in range(r.pick([0, 1, 4])))))
    return "(attrs%s)" % "".join(" " + a for a in out)


def gen_wire(r, cell=None):
    asn = r.pick(LASNS)
    rid = r.pick(W_RID)
    members = [65101, 65102]
    has_confed = r.chance(1, 3)
    if cell is None:
        ks = r.pick(W_KINDS)
        kd = r.pick(W_KINDS + ["none"])
    else:
        ks, kd = cell
    if "confed" in (ks, kd):
        has_confed = True
    confed_id = 65100 if has_confed else 0
    confed = "(confed 65100 %s)" % " ".join(str(m) for m in (members + ([asn] if r.chance(1, 2) else []))) if has_confed else "none"
    src, rasn, own, clv = gen_nbr(r, ks, W_SRC, asn, members, 33686018)
    dst = "none" if kd == "none" else gen_nbr(r, kd, W_DST, asn, members, 50529027)[0]
    # the cluster-id in force on the announcing session, planted half of the time
    eff = clv if clv is not None else rid
    cids = [eff, eff, eff, rid, 16909060, 50462976]
    attrs = gen_wire_attrs(r, ks, rasn, own, confed_id, members, rid, cids, clean=cell is not None)
    nh = r.pick([W_SRC, 167772161])
    return "(wire (glob %d %d %s (v4 %d)) %s %s %s (v4 %d) %s)" % (
        asn, rid, confed, W_LADDR, src, dst, r.pick(["t", "f"]), nh, attrs)


def wire_matrix(r):
    return [gen_wire(r, (ks, kd)) for ks in W_KINDS for kd in W_KINDS + ["none"]]


def gen_rx(r):
    lasn = r.pick(LASNS)
    confed = r.pick([0, 0, 65100, lasn])
    rid = r.pick(RIDS)
    cluster = r.pick([None, 16909060, 0, 16843009])
    role = r.pick(ROLES)
    return "(rx %d %d %d %s %s %s)" % (lasn, confed, rid, "none" if cluster is None else "(some %d)" % cluster,
                                      role, gen_attrs(r, lasn, confed, rid, cluster))


def mutate(r, case):
    """malformed stream: the result is usually not a case (both sides must say (bad-case))."""
    k = r.below(6)
    if k == 0:
        return case.replace("(val 1 ", "(val 3 ", 1)
    if k == 1:
        return case.replace("ebgp", "xbgp", 1)
    if k == 2:
        return case[:-1]
    if k == 3:
        return case.replace("(v4 ", "(v4 4294967296", 1)
    if k == 4:
        return case.replace("(aspath (", "(aspath (9 ", 1)
    return case.replace("(opq ", "(opq 5 ", 1)


def matrix(r, rich):
    out = []
    for kind in SRC_KINDS:
        for role in ROLES:
            for cluster in (None, 16909060):
                for confed in (0, 65100):
                    for llgr in (False, True):
                        out.append(gen_exp(r, (kind, role, cluster, confed, llgr), rich))
    return out


def gen(seed, n, tier):
    r = Rng(seed * 1000003 + 9)
    cases = matrix(r, True) + matrix(r, False) + wire_matrix(r)          # 2 x 280 cells + 30 wire cells
    while len(cases) < n:
        k = r.below(100)
        if k < 66:
            c = gen_exp(r)
        elif k < 76:
            c = gen_exp(r, op="exp2")
        elif k < 82 if tier == "quick" else k < 78:
            c = gen_wire(r)
        else:
            c = gen_rx(r)
        if r.chance(1, 40):
            c = mutate(r, c)
        cases.append(c)
    return cases
