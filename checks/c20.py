from common import Rng

CONFIG = dict(
    claimed=False,
    na_reason="theorems in progress",
    level_text="",
    level_note="",
    lean_modules=["Rbgp.Fib.Codec"],
    theorems=[],
    harness=dict(kind="daemon", test="event::verif_event::c20::verif_main"),
    profiles=["debug"],
    n_quick=3000, n_thorough=150000, shards=12,
    nontrivial_re=r"\(fib \(|svc-trace",
    rule="",
    expect_tokens=[],
    trusted_base=[],
    modelled_not_verified=[],
    assumptions=[],
)

V4 = [1, 2]
V6 = [1]
VPN = [1, 2, 3]
NH4 = [1, 2, 3]
NH6 = [101, 102]
RTS = [1, 2, 3]


def subset(r, xs, p_num=1, p_den=2):
    return [x for x in xs if r.chance(p_num, p_den)]


def gen_pfx(r):
    k = r.weighted([(0, 6), (1, 2), (2, 5)])
    if k == 0:
        return (0, r.pick(V4))
    if k == 1:
        return (1, r.pick(V6))
    return (2, r.pick(VPN))


def gen_rule(r, npeers):
    c = r.weighted([("any", 2), ("peer", 3), ("nh", 3)])
    if c == "peer":
        cond = "(peer %d)" % r.below(npeers)
    elif c == "nh":
        cond = "(nh %d)" % r.pick(NH4 + [4])
    else:
        cond = "any"
    a = r.weighted([("set", 5), ("rej", 2), ("acc", 1)])
    act = "(set %d)" % r.pick(NH4 + [4]) if a == "set" else a
    return "(rule %s %s)" % (cond, act)


def gen_case(r):
    npeers = r.pick([2, 3, 3, 4])
    rids = [r.pick([1, 2, 3]) for _ in range(npeers)]
    nv = r.pick([0, 1, 2, 2, 3])
    vrfs = []
    for _ in range(nv):
        tid = r.pick([0, 10, 11, 12, 10])
        vrfs.append("(%s)" % " ".join(str(x) for x in [tid] + subset(r, RTS)))
    n = 1 + r.below(r.pick([6, 14, 30]))
    ops = []
    live = []        # (src, fam, id, pid) probably stored: bias removals/replacements towards them
    for _ in range(n):
        k = r.weighted([("ins", 12), ("rm", 3), ("nh", 4), ("down", 1), ("stale", 1), ("purge", 1),
                        ("soft", 2), ("pol", 1), ("loc", 1)])
        if k in ("ins", "loc"):
            if k == "loc":
                src = r.pick([100, 101])
            else:
                src = r.below(npeers)
            if live and r.chance(1, 3):
                _, f, i, pid = r.pick(live)      # replace / add a tied path on a used prefix
                if r.chance(1, 2):
                    pid = r.pick([0, 0, 1])
            else:
                f, i = gen_pfx(r)
                pid = r.pick([0, 0, 0, 1, 2])
            if src >= 100:
                pid = 0
            nh = r.pick(NH6) if (f == 1 and r.chance(3, 4)) else r.pick(NH4)
            lp = r.pick([100, 100, 100, 100, 200, 50])
            cl = r.pick([0, 0, 0, 1])
            rts = subset(r, RTS) if (f == 2 or r.chance(1, 8)) else []
            ops.append("(ins %d %d %d %d %d %d %d (%s))" % (src, f, i, pid, nh, lp, cl, " ".join(map(str, rts))))
            live.append((src, f, i, pid))
        elif k == "rm":
            if live and r.chance(5, 6):
                src, f, i, pid = r.pick(live)
            else:
                src = r.pick(list(range(npeers)) + [100, 101])
                f, i = gen_pfx(r)
                pid = r.pick([0, 1])
            ops.append("(rm %d %d %d %d)" % (src, f, i, pid))
        elif k == "nh":
            ops.append("(nh %d %s)" % (r.pick(NH4 + NH4 + NH6 + [4]), r.pick(["t", "f", "f"])))
        elif k == "pol":
            nr = r.pick([0, 1, 1, 2, 3])
            ops.append("(pol%s)" % "".join(" " + gen_rule(r, npeers) for _ in range(nr)))
        else:
            ops.append("(%s %d)" % (k, r.below(npeers)))
    return "(case (peers %s) (vrfs%s) (ops %s))" % (" ".join(map(str, rids)), "".join(" " + v for v in vrfs), " ".join(ops))


def gen_svc(r):
    n = 1 + r.below(r.pick([4, 10, 16]))
    return "(svc %s)" % " ".join("(%s %d)" % (r.pick(["r", "r", "u"]), r.pick([1, 2, 3])) for _ in range(n))


def mutate(r, case):
    k = r.below(6)
    if k == 0:
        return case.replace("(ins ", "(inz ", 1)
    if k == 1:
        return case.replace("(peers ", "(peers 4294967296 ", 1)
    if k == 2:
        return case.replace(" 100 0 (", " 1001 0 (", 1)
    if k == 3:
        return case.replace("(ins 0 ", "(ins 9 ", 1)
    if k == 4:
        return case[:-2]
    return case.replace("(nh ", "(nh 200 ", 1)


def gen(seed, n, tier):
    r = Rng(seed * 1000003 + 20)
    out = []
    for _ in range(n):
        x = r.below(100)
        if x < 4:
            out.append(gen_svc(r))
        elif x < 7:
            out.append(mutate(r, gen_case(r)))
        else:
            out.append(gen_case(r))
    return out
