from common import Rng

CONFIG = dict(
    claimed=True,
    level_text="Kernel-checked Lean theorems over ALL histories (route insert/replace/remove, peer drop, GR stale marking, "
               "stale purge, soft reset IN with next-hop-rewriting import policy, next-hop reachability reports; several peers, "
               "add-path ids, local/kernel sources, VRFs) of a model of table_manager.rs' FIB/NHT side: the replayed main-table "
               "FIB entry of every prefix equals the next hops of the best path and the paths tied with it before the "
               "router-id step, the same in every VRF whose import targets match, outstanding registrations = peer-learned "
               "paths using the address (never unregistered below zero), unreachable next hops never in a FIB entry, the "
               "service loop's watched counts refine the fold; master theorem: the C20 reference checker accepts every model "
               "run. The model is tied to the code by running the real TableManager (kernel handle observed at the channel "
               "through the cfg-guarded kernel hook) and the real run_service_loop on the same generated histories and "
               "diffing requests and RIB contents step by step, with the reference checker as oracle on the real observations.",
    level_note="Trusted: Lean kernel; axioms propext/Classical.choice/Quot.sound; the hand-written model Rbgp/Fib/Model.lean "
               "(checked only by the correspondence stream); harness glue (case decoding, attribute construction, snapshot "
               "through Table::destinations/lookup_nexthop, canonical ordering of requests between different keys). Modelled, "
               "not verified: hash-map/shard iteration order, Arc identities as numbers, the shared GR-stale atomic as a "
               "per-path flag, netlink (requests are observed at the channel; lookup_route answers are not modelled), "
               "best-path steps not varied by the generator (AS_PATH length, ORIGIN, LLGR, MAC mobility), deferral, prefix limits.",
    lean_modules=["Rbgp.Fib.Props"],
    theorems=[
        "Rbgp.Fib.Props.check_run_ok",
        "Rbgp.Fib.Props.check_canon_ok",
        "Rbgp.Fib.Props.fib_eq_ecmp",
        "Rbgp.Fib.Props.vrf_fib_eq",
        "Rbgp.Fib.Props.refcount_eq_uses",
        "Rbgp.Fib.Props.service_refcount_refines",
        "Rbgp.Fib.Props.service_watched_eq_uses",
        "Rbgp.Fib.Props.invalid_excluded",
        "Rbgp.Fib.Props.invalid_flag_eq_report",
    ],
    harness=dict(kind="daemon", test="event::verif_event::c20::verif_main"),
    profiles=["debug"],
    n_quick=3000, n_thorough=150000, shards=12,
    nontrivial_re=r"\(fib \(|svc-trace",
    rule="random histories over 2-4 peers (router ids from {1,2,3} with repeats, so ties before and at the router-id step), "
         "next hops from 3 IPv4 + 2 IPv6 addresses shared between peers, prefixes 2 IPv4 / 1 IPv6 / 3 VPNv4, add-path ids 0-2, "
         "LOCAL_PREF {50,100,200}, CLUSTER_LIST length {0,1}, route targets from {1,2,3}, 0-3 VRFs (table ids incl. 0 and "
         "duplicates); ops: insert/replace (biased to used prefixes), local and kernel-source inserts, remove, peer down, GR "
         "stale + later purge with re-announcement from a new session, soft reset IN, import policy change (rules matching "
         "any/peer/next hop with set-next-hop/reject/accept), reachability reports; 4% service-loop request sequences, 3% "
         "malformed cases; non-trivial = at least one FIB request or a service run; distinct = distinct case line",
    expect_tokens=["(fib (0 0 ", "(fib (0 1 ", "(0 2 ", "(10 0 ", "(11 0 ", "(12 0 ", " ())", "(r 1) (u ", "(u 1) (u 1)",
                   "(p 100 ", "(p 101 ", " t f ", " f t ", " 200 t ", " 50 t ", " t 1 ", "(1 2)) ", "(2 1)) ", "(1 2 3))",
                   "(101", "svc-trace", "(emit t f", "bad-case"],
    trusted_base=["model Rbgp/Fib/Model.lean of daemon/src/table_manager.rs (insert_route, remove_route, unregister_peer, "
                  "drop_stale_families, soft_reset_in, update_nexthop_validity, nht_register, distribute_update) over a reduced "
                  "model of table/src/lib.rs (insert, remove, drop, drop_stale, restale, update_nexthop_validity, ecmp_paths) "
                  "and of kernel/src/lib.rs run_service_loop's watched map",
                  "harness/daemon/c20.rs: builds Source/attributes/policy objects, reads the request stream through "
                  "rustybgp_kernel::verif (cfg-guarded), snapshots the RIB through the public query API, sorts requests "
                  "between different keys; the import policy with a next-hop action is installed directly in "
                  "TableManager.import_policy (PolicyTable::build_assignment would reject it)",
                  "service-loop cases need a netlink socket (read-only RTM_GETROUTE by lookup_route)"],
    modelled_not_verified=["hash-map and shard iteration order (requests of different destinations commute in the replay)",
                           "Arc pointer identity of Source / attribute vectors (numbers allocated per insertion / session)",
                           "Source.stale atomic shared by all paths of a session (per-path flag; a marked Source is never "
                           "re-used for insertion in the generated histories)",
                           "sort_unstable as a stable insertion sort (std uses insertion sort below 20 elements)",
                           "netlink side of the kernel service (apply/withdraw execution, lookup_route results)",
                           "decision steps held constant by the generator: AS_PATH length, ORIGIN, LLGR-stale, EVPN MAC mobility",
                           "RFC 4724 deferral and per-peer prefix limits (not part of the property's histories)"],
    assumptions=["each VPN prefix maps to its own VRF-local prefix (two RDs carrying the same IP prefix into one VRF would need "
                 "a VRF-level best-path selection that the code does not have; such histories are not generated)",
                 "requests of one history step that concern different FIB cells / different addresses are unordered: both "
                 "sides print them in a canonical order (check_canon_ok proves the verdict for that form too)"],
)

V4 = [1, 2]
V6 = [1]
VPN = [1, 2, 3]
NH4 = [1, 2, 3]
NH6 = [101, 102]
RTS = [1, 2, 3]


def subset(r, xs, p_num=1, p_den=2):
    return [x for x in xs if r.chance(p_num, p_den)]


def gen_pfx(r):
    k = r.weighted([(0, 6), (1, 2), (2, 5)])
    if k == 0:
        return (0, r.pick(V4))
    if k == 1:
        return (1, r.pick(V6))
    return (2, r.pick(VPN))


def gen_rule(r, npeers):
    c = r.weighted([("any", 2), ("peer", 3), ("nh", 3)])
    if c == "peer":
        cond = "(peer %d)" % r.below(npeers)
    elif c == "nh":
        cond = "(nh %d)" % r.pick(NH4 + [4])
    else:
        cond = "any"
    a = r.weighted([("set", 5), ("rej", 2), ("acc", 1)])
    act = "(set %d)" % r.pick(NH4 + [4]) if a == "set" else a
    return "(rule %s %s)" % (cond, act)


def gen_case(r):
    npeers = r.pick([2, 3, 3, 4])
    rids = [r.pick([1, 2, 3]) for _ in range(npeers)]
    nv = r.pick([0, 1, 2, 2, 3])
    vrfs = []
    for _ in range(nv):
        tid = r.pick([0, 10, 11, 12, 10])
        vrfs.append("(%s)" % " ".join(str(x) for x in [tid] + subset(r, RTS)))
    n = 1 + r.below(r.pick([6, 14, 30]))
    ops = []
    live = []        # (src, fam, id, pid) probably stored: bias removals/replacements towards them
    for _ in range(n):
        k = r.weighted([("ins", 12), ("rm", 3), ("nh", 4), ("down", 1), ("stale", 1), ("purge", 1),
                        ("soft", 2), ("pol", 1), ("loc", 1)])
        if k in ("ins", "loc"):
            if k == "loc":
                src = r.pick([100, 101])
            else:
                src = r.below(npeers)
            if live and r.chance(1, 3):
                _, f, i, pid = r.pick(live)      # replace / add a tied path on a used prefix
                if r.chance(1, 2):
                    pid = r.pick([0, 0, 1])
            else:
                f, i = gen_pfx(r)
                pid = r.pick([0, 0, 0, 1, 2])
            if src >= 100:
                pid = 0
            nh = r.pick(NH6) if (f == 1 and r.chance(3, 4)) else r.pick(NH4)
            lp = r.pick([100, 100, 100, 100, 200, 50])
            cl = r.pick([0, 0, 0, 1])
            rts = subset(r, RTS) if (f == 2 or r.chance(1, 8)) else []
            ops.append("(ins %d %d %d %d %d %d %d (%s))" % (src, f, i, pid, nh, lp, cl, " ".join(map(str, rts))))
            live.append((src, f, i, pid))
        elif k == "rm":
            if live and r.chance(5, 6):
                src, f, i, pid = r.pick(live)
            else:
                src = r.pick(list(range(npeers)) + [100, 101])
                f, i = gen_pfx(r)
                pid = r.pick([0, 1])
            ops.append("(rm %d %d %d %d)" % (src, f, i, pid))
        elif k == "nh":
            ops.append("(nh %d %s)" % (r.pick(NH4 + NH4 + NH6 + [4]), r.pick(["t", "f", "f"])))
        elif k == "pol":
            nr = r.pick([0, 1, 1, 2, 3])
            ops.append("(pol%s)" % "".join(" " + gen_rule(r, npeers) for _ in range(nr)))
        else:
            ops.append("(%s %d)" % (k, r.below(npeers)))
    return "(case (peers %s) (vrfs%s) (ops %s))" % (" ".join(map(str, rids)), "".join(" " + v for v in vrfs), " ".join(ops))


def gen_svc(r):
    n = 1 + r.below(r.pick([4, 10, 16]))
    return "(svc %s)" % " ".join("(%s %d)" % (r.pick(["r", "r", "u"]), r.pick([1, 2, 3])) for _ in range(n))


def mutate(r, case):
    k = r.below(6)
    if k == 0:
        return case.replace("(ins ", "(inz ", 1)
    if k == 1:
        return case.replace("(peers ", "(peers 4294967296 ", 1)
    if k == 2:
        return case.replace(" 100 0 (", " 1001 0 (", 1)
    if k == 3:
        return case.replace("(ins 0 ", "(ins 9 ", 1)
    if k == 4:
        return case[:-2]
    return case.replace("(nh ", "(nh 200 ", 1)


def netlink_ok():
    """The service-loop cases drive the real run_service_loop, whose lookup_route needs a netlink socket."""
    try:
        import socket
        s = socket.socket(socket.AF_NETLINK, socket.SOCK_RAW, 0)
        s.bind((0, 0))
        s.close()
        return True
    except Exception:
        return False


SVC_FIXED = [
    "(svc (r 1) (r 1) (u 1) (r 2) (u 2) (u 2) (r 2) (u 1) (u 1) (r 1))",
    "(svc (u 3) (r 3) (r 3) (r 3) (u 3))",
]


def gen(seed, n, tier):
    r = Rng(seed * 1000003 + 20)
    svc = netlink_ok()
    out = list(SVC_FIXED) if svc else []
    for _ in range(n):
        x = r.below(100)
        if x < 4:
            c = gen_svc(r)      # drawn in any case so that the other cases do not depend on the probe
            if svc:
                out.append(c)
        elif x < 7:
            out.append(mutate(r, gen_case(r)))
        else:
            out.append(gen_case(r))
    return out
