from common import Rng

CONFIG = dict(
    claimed=True,
    level_text="Kernel-checked Lean theorems over ALL histories (route insert/replace/remove, peer drop, GR stale marking, "
               "stale purge, soft reset IN with next-hop-rewriting import policy, next-hop reachability reports; several peers, "
               "add-path ids, local/kernel sources, VRFs) of a model of table_manager.rs' FIB/NHT side: the replayed main-table "
               "FIB entry of every prefix equals the next hops of the best path and the paths tied with it before the "
               "router-id step, the same in every VRF whose import targets match, outstanding registrations = peer-learned "
               "paths using the address (never unregistered below zero), unreachable next hops never in a main-table or VRF entry, a VRF "
               "entry withdrawn as soon as the best path is no longer imported, every entry in a known table, the "
               "service loop's watched counts refine the fold; master theorem: the C20 reference checker accepts every model "
               "run. The model is tied to the code by running the real TableManager (kernel handle observed at the channel "
               "through the cfg-guarded kernel hook) and the real run_service_loop on the same generated histories and "
               "diffing requests and RIB contents step by step, with the reference checker as oracle on the real observations.",
    level_note="Trusted: Lean kernel; axioms propext/Classical.choice/Quot.sound; the hand-written model Rbgp/Fib/Model.lean "
               "(checked only by the correspondence stream); harness glue (case decoding, attribute construction, snapshot "
               "through Table::destinations/lookup_nexthop, canonical ordering of requests between different keys). Modelled, "
               "not verified: hash-map/shard iteration order, Arc identities as numbers, the shared GR-stale atomic as a "
               "per-path flag, netlink (requests are observed at the channel; lookup_route answers are not modelled), "
               "best-path steps not varied by the generator (AS_PATH length, ORIGIN, LLGR, MAC mobility), deferral, prefix limits.",
    lean_modules=["Rbgp.Fib.Props"],
    theorems=[
        "Rbgp.Fib.Props.check_run_ok",
        "Rbgp.Fib.Props.check_canon_ok",
        "Rbgp.Fib.Props.check_all_ok",
        "Rbgp.Fib.Props.fib_eq_ecmp",
        "Rbgp.Fib.Props.vrf_fib_eq",
        "Rbgp.Fib.Props.refcount_eq_uses",
        "Rbgp.Fib.Props.service_refcount_refines",
        "Rbgp.Fib.Props.service_watched_eq_uses",
        "Rbgp.Fib.Props.feed_ok",
        "Rbgp.Fib.Props.invalid_excluded",
        "Rbgp.Fib.Props.invalid_excluded_vrf",
        "Rbgp.Fib.Props.fib_cells_known",
        "Rbgp.Fib.Props.invalid_flag_eq_report",
    ],
    harness=dict(kind="daemon", test="event::verif_event::c20::verif_main"),
    profiles=["debug"],
    n_quick=3000, n_thorough=150000, shards=12,
    nontrivial_re=r"\(fib \(|svc-trace",
    rule="random histories over 2-4 peers (router ids from {1,2,3} with repeats, so ties before and at the router-id step; "
         "roles eBGP / iBGP / RR client), next hops from 3 IPv4 + 2 IPv6 addresses shared between peers (IPv6 also as "
         "global+link-local pairs), prefixes 2 IPv4 / 1 IPv6 / 3 VPNv4 / 2 VPNv6, add-path ids 0-2, LOCAL_PREF {50,100,200}, "
         "AS_PATH length 0-2, ORIGIN 0-2, LLGR_STALE / NO_LLGR communities, CLUSTER_LIST length {0,1}, route targets of all "
         "three formats, 0-3 VRFs (distinct table ids, table id 0 allowed), families in restarting-speaker deferral from the "
         "start; ops: insert/replace (biased to used prefixes), local and kernel-source inserts, remove, peer down through "
         "unregister_peer and through drop_families, GR stale + purge, LLGR stale + purge, re-announcement from a new session, "
         "soft reset IN, import policy change (rules matching any/peer/next hop with set-next-hop/reject/accept), "
         "reachability reports, end of deferral; 1/8 of the cases feed the run's register/unregister stream in the order "
         "sent to the real run_service_loop; 4% service-loop sequences with injected route events; 3% malformed cases; "
         "1% + 2 fixed WIRE cases: one real eBGP session on loopback TCP (real run_select -> rx_msg -> insert_route / "
         "remove_route with the session's own Source, real apply_disconnect -> unregister_peer on close, reconnect); "
         "inserts with the per-session prefix limit reached (insl), session down with graceful restart for a subset of the "
         "families (gdown mask), End-of-RIB of a single family (purgef); 5 fixed boundary cases in every run (LOCAL_PREF "
         "0/1/99/100-present/101/u32 max, ORIGIN absent vs present, AS_PATH absent vs empty, CLUSTER_LIST 0-3, router id 0 "
         "and u32 max, path id u32 max, VRF table ids 0/1/100000, empty import set, non-RT extended community, every "
         "watched-count transition of the service loop); "
         "non-trivial = at least one FIB request or a service run; distinct = distinct case line",
    expect_tokens=["(fib (0 0 ", "(fib (0 1 ", "(0 2 ", "(0 3 ", "(10 0 ", "(11 0 ", "(12 1 ", " ())", "(r 1) (u ", "(u 1) (u 1)",
                   "(p 100 ", "(p 101 ", " t f f ", " f t f ", " f f t ", " f t t ", " 200 0 0 t ", " 50 ", " 100 1 ",
                   " 100 2 ", " 0 1 t ", " 0 2 t ", " f 0 ", " f 1 ", "(1 2)) ", "(2 1)) ", "(1 2 3))", "(101", "(feed (", "(feed)", "(order ok)",
                   "svc-trace", "(emit t f", "bad-case",
                   # boundary buckets (wave 7): LOCAL_PREF 0 / 1 / 99 / 101 / u32 max, CLUSTER_LIST 2 and 3, AS_PATH length 3,
                   # router id 0 and u32 max, path id u32 max, VRF table ids 1 and 100000, the real-session (wire) cases
                   " f f f 0 ", " f f f 1 ", " f f f 99 ", " f f f 101 ", " f f f 4294967295 ", " t 2 ", " t 3 ", " 100 3 ",
                   " 0 0 ())", " 4294967295 ())", "(p 0 4294967295 ", "(1 0 ", "(100000 ", " 33686018 ())"],
    trusted_base=["model Rbgp/Fib/Model.lean of daemon/src/table_manager.rs (insert_route, remove_route, unregister_peer, "
                  "drop_stale_families, soft_reset_in, update_nexthop_validity, nht_register, distribute_update) over a reduced "
                  "model of table/src/lib.rs (insert, remove, drop, drop_stale, restale, update_nexthop_validity, ecmp_paths) "
                  "and of kernel/src/lib.rs run_service_loop's watched map",
                  "harness/daemon/c20.rs: in the (case ...) histories it builds Source/attributes/policy objects and calls the "
                  "TableManager entry points itself; in the (wire ...) cases the routes enter and leave through real session tasks "
                  "(harness/daemon/rig.rs) and the harness only observes; builds Source/attributes/policy objects, reads the request stream through "
                  "rustybgp_kernel::verif (cfg-guarded), snapshots the RIB through the public query API, sorts requests "
                  "between different keys; the import policy with a next-hop action is installed directly in "
                  "TableManager.import_policy (PolicyTable::build_assignment would reject it)",
                  "service-loop and feed cases need a netlink socket (read-only RTM_GETROUTE by lookup_route); without one the "
                  "generator says so on stderr, drops the svc cases (coverage_gaps lists svc-trace) and the feed cases fail the "
                  "correspondence (feed-no-netlink)",
                  "daemon/src/event/mod.rs KernelEvent::NexthopUpdate -> update_nexthop_validity is one line inside "
                  "Global::serve's select loop and is not executed (the harness calls update_nexthop_validity itself)"],
    modelled_not_verified=["hash-map and shard iteration order (requests of different destinations commute in the replay)",
                           "Arc pointer identity of Source / attribute vectors (numbers allocated per insertion / session)",
                           "Source.stale atomic shared by all paths of a session (per-path flag; a marked Source is never "
                           "re-used for insertion in the generated histories)",
                           "sort_unstable as a stable insertion sort (std uses insertion sort below 20 elements)",
                           "netlink side of the kernel service (apply/withdraw execution, lookup_route results)",
                           "decision steps held constant by the generator: EVPN MAC mobility, ORIGINATOR_ID, confederation roles",
                           "route events of the service loop with a changing kernel answer (lookup_route is real netlink)",
                           "add_vrf/delete_vrf and kernel-handle changes in mid-run (not part of the property's histories; see "
                           "known-findings remarks); prefix-limit counters above 0 (only the reached limit is modelled); MED / "
                           "the metric field of the request (not observed)"],
    assumptions=["each VPN prefix maps to its own VRF-local prefix (two RDs carrying the same IP prefix into one VRF would need "
                 "a VRF-level best-path selection that the code does not have; such histories are not generated)",
                 "requests of one history step that concern different FIB cells / different addresses are unordered (hash-map "
                 "iteration): both sides print them in a canonical order (check_canon_ok / check_all_ok prove the verdict for "
                 "that form); the order sent is judged by the run-level `order` observation (no unregister without outstanding "
                 "registration) and, in the feed cases, by the real service loop fed in the order sent"],
)

V4 = [1, 2]
V6 = [1]
VPN = [1, 2, 3]
VPN6 = [1, 2]
NH4 = [1, 2, 3]
NH6 = [101, 102]
RTS = [1, 2, 3]


def subset(r, xs, p_num=1, p_den=2):
    return [x for x in xs if r.chance(p_num, p_den)]


def gen_pfx(r):
    k = r.weighted([(0, 6), (1, 2), (2, 5), (3, 2)])
    if k == 0:
        return (0, r.pick(V4))
    if k == 1:
        return (1, r.pick(V6))
    if k == 2:
        return (2, r.pick(VPN))
    return (3, r.pick(VPN6))


def gen_rule(r, npeers):
    c = r.weighted([("any", 2), ("peer", 3), ("nh", 3)])
    if c == "peer":
        cond = "(peer %d)" % r.below(npeers)
    elif c == "nh":
        cond = "(nh %d)" % r.pick(NH4 + [4] + NH6)
    else:
        cond = "any"
    a = r.weighted([("set", 5), ("rej", 2), ("acc", 1)])
    act = "(set %d)" % r.pick(NH4 + [4] + NH6) if a == "set" else a
    return "(rule %s %s)" % (cond, act)


def gen_case(r):
    npeers = r.pick([2, 3, 3, 4])
    peers = ["(%d %d)" % (r.pick([1, 2, 3, 1, 2, 3, 0, 4294967295]), r.pick([0, 0, 0, 1, 2])) for _ in range(npeers)]
    nv = r.pick([0, 1, 2, 2, 3])
    tids = [10, 11, 12] if r.chance(3, 4) else [1, 100000, 11]
    vrfs = []
    for _ in range(nv):
        if r.chance(1, 6) or not tids:
            tid = 0
        else:
            tid = tids.pop(r.below(len(tids)))
        vrfs.append("(%s)" % " ".join(str(x) for x in [tid] + subset(r, RTS)))
    defer = r.pick([[], [], [], [], [], [0], [2], [0, 2, 3], [1]])
    feed = r.chance(1, 8)
    n = 1 + r.below(r.pick([6, 14, 30]))
    ops = []
    live = []        # (src, fam, id, pid) probably stored: bias removals/replacements towards them
    pending = list(defer)
    forced = []      # ops scheduled by an earlier op: soft reset after a policy change, purge after stale marking
    stale, llgrs, unreach, used_nh = [], [], [], []
    for _ in range(n):
        if forced and r.chance(2, 3):
            ops.append(forced.pop(0))
            continue
        k = r.weighted([("ins", 14), ("rm", 3), ("nh", 4), ("down", 1), ("drop", 1), ("stale", 1), ("purge", 2),
                        ("llgr", 1), ("lpurge", 1), ("soft", 3), ("pol", 2), ("loc", 1), ("undefer", 1 if pending else 0),
                        ("gdown", 1), ("purgef", 1)])
        if k in ("ins", "loc"):
            if k == "loc":
                src = r.pick([100, 101])
            else:
                src = r.below(npeers)
            if live and r.chance(1, 3):
                _, f, i, pid = r.pick(live)      # replace / add a tied path on a used prefix
                if r.chance(1, 2):
                    pid = r.pick([0, 0, 1])
            else:
                f, i = gen_pfx(r)
                pid = r.pick([0, 0, 0, 1, 2])
            if src >= 100:
                pid = 0
            nh = r.pick(NH6) if (f in (1, 3) and r.chance(3, 4)) else r.pick(NH4)
            lp = r.pick([100, 100, 100, 100, 100, 200, 50, 0, 1, 99, 101, 4294967295, 4294967294])
            cl = r.pick([0, 0, 0, 0, 1, 1, 2, 3])
            asl = r.pick([0, 0, 0, 0, 1, 2, 3])
            org = r.pick([0, 0, 0, 0, 1, 2, 2])
            # 1 LLGR_STALE, 2 NO_LLGR, 4 link-local pair, 8 LOCAL_PREF present although default,
            # 16 ORIGIN absent when INCOMPLETE, 32 AS_PATH present but empty, 64 a non-RT extended community
            fl = ((1 if r.chance(1, 12) else 0) + (2 if r.chance(1, 10) else 0) + (4 if (nh >= 100 and r.chance(1, 3)) else 0)
                  + (8 if r.chance(1, 4) else 0) + (16 if r.chance(1, 2) else 0) + (32 if r.chance(1, 3) else 0)
                  + (64 if r.chance(1, 6) else 0))
            if pid != 0 and src < 100 and r.chance(1, 10):
                pid = r.pick([4294967295, 4294967294, 1])
            rts = subset(r, RTS) if (f >= 2 or r.chance(1, 8)) else []
            kind = "insl" if (src < 100 and r.chance(1, 9)) else "ins"   # insl: the prefix limit is reached
            ops.append("(%s %d %d %d %d %d %d %d (%s) %d %d %d)" %
                       (kind, src, f, i, pid, nh, lp, cl, " ".join(map(str, rts)), asl, org, fl))
            live.append((src, f, i, pid))
            used_nh.append(nh)
        elif k == "rm":
            if live and r.chance(5, 6):
                src, f, i, pid = r.pick(live)
            else:
                src = r.pick(list(range(npeers)) + [100, 101])
                f, i = gen_pfx(r)
                pid = r.pick([0, 1])
            ops.append("(rm %d %d %d %d)" % (src, f, i, pid))
        elif k == "nh":
            if unreach and r.chance(1, 2):
                a = r.pick(unreach)           # reported reachable again
                unreach.remove(a)
                ops.append("(nh %d t)" % a)
            else:
                a = r.pick(used_nh) if (used_nh and r.chance(2, 3)) else r.pick(NH4 + NH4 + NH6 + [4])
                up = r.pick(["t", "f", "f", "f"])
                if up == "f" and a not in unreach:
                    unreach.append(a)
                ops.append("(nh %d %s)" % (a, up))
        elif k == "pol":
            nr = r.pick([0, 1, 1, 2, 3])
            ops.append("(pol%s)" % "".join(" " + gen_rule(r, npeers) for _ in range(nr)))
            srcs = [x[0] for x in live if x[0] < 100]
            if srcs:
                forced.append("(soft %d)" % r.pick(srcs))
        elif k == "stale":
            p = r.pick([x[0] for x in live if x[0] < 100]) if (live and any(x[0] < 100 for x in live) and r.chance(3, 4)) else r.below(npeers)
            ops.append("(stale %d)" % p)
            stale.append(p)
            forced.append("(purge %d)" % p)
        elif k == "purge":
            ops.append("(purge %d)" % (r.pick(stale) if (stale and r.chance(3, 4)) else r.below(npeers)))
        elif k == "gdown":
            # graceful restart negotiated for some families only: the others are dropped
            p = r.pick([x[0] for x in live if x[0] < 100]) if (live and any(x[0] < 100 for x in live) and r.chance(3, 4)) else r.below(npeers)
            ops.append("(gdown %d %d)" % (p, r.pick([0, 1, 2, 4, 5, 8, 10, 14, 15])))
            stale.append(p)
            forced.append("(purgef %d %d)" % (p, r.below(4)))
        elif k == "purgef":
            ops.append("(purgef %d %d)" % ((r.pick(stale) if (stale and r.chance(3, 4)) else r.below(npeers)), r.below(4)))
        elif k == "llgr":
            p = r.pick([x[0] for x in live if x[0] < 100]) if (live and any(x[0] < 100 for x in live) and r.chance(3, 4)) else r.below(npeers)
            ops.append("(llgr %d)" % p)
            llgrs.append(p)
            forced.append("(lpurge %d)" % p)
        elif k == "lpurge":
            ops.append("(lpurge %d)" % (r.pick(llgrs) if (llgrs and r.chance(3, 4)) else r.below(npeers)))
        elif k == "undefer":
            f = r.pick(pending + [r.pick([0, 1, 2, 3])])
            if f in pending:
                pending.remove(f)
            ops.append("(undefer %d)" % f)
        else:
            ops.append("(%s %d)" % (k, r.below(npeers)))
    return "(case (peers %s) (vrfs%s) (opts (defer%s) (feed %s)) (ops %s))" % (
        " ".join(peers), "".join(" " + v for v in vrfs), "".join(" %d" % f for f in defer),
        "t" if feed else "f", " ".join(ops))


def gen_svc(r):
    n = 1 + r.below(r.pick([4, 10, 16]))
    return "(svc %s)" % " ".join(
        "e" if r.chance(1, 8) else "(%s %d)" % (r.pick(["r", "r", "u"]), r.pick([1, 2, 3])) for _ in range(n))


def mutate(r, case):
    k = r.below(6)
    if k == 0:
        return case.replace("(ins ", "(inz ", 1)
    if k == 1:
        return case.replace("(peers (", "(peers (4294967296 0) (", 1)
    if k == 2:
        return case.replace(" 100 0 (", " 4294967296 0 (", 1)
    if k == 3:
        return case.replace("(ins 0 ", "(ins 9 ", 1)
    if k == 4:
        return case[:-2]
    return case.replace("(nh ", "(nh 200 ", 1)


def netlink_ok():
    """The service-loop cases drive the real run_service_loop, whose lookup_route needs a netlink socket."""
    try:
        import socket
        s = socket.socket(socket.AF_NETLINK, socket.SOCK_RAW, 0)
        s.bind((0, 0))
        s.close()
        return True
    except Exception:
        return False


# boundary values that must be hit in EVERY quick run (independent of the seed)
BOUNDARY_FIXED = [
    # LOCAL_PREF present and 0 / 1 / u32 max against absent (= 100) and present 100; ORIGIN absent vs present INCOMPLETE;
    # AS_PATH absent vs present-empty; CLUSTER_LIST 0..3; router id 0 and u32 max; path id u32 max
    "(case (peers (0 0) (4294967295 0) (1 0)) (vrfs) (opts (defer) (feed f)) (ops (ins 0 0 1 0 1 0 0 () 0 2 16) (ins 1 0 1 0 2 100 0 () 0 2 8) (ins 2 0 1 0 3 100 0 () 0 2 32) (ins 0 0 1 4294967295 1 1 3 () 0 2 0) (ins 1 0 1 1 2 4294967295 2 () 0 0 0) (ins 2 0 1 1 3 4294967294 1 () 3 0 0) (rm 1 0 1 1) (rm 0 0 1 4294967295) (down 2)))",
    "(case (peers (1 0) (1 0)) (vrfs) (opts (defer) (feed f)) (ops (ins 0 0 1 0 1 99 0 () 0 0 0) (ins 1 0 1 0 2 100 0 () 0 0 0) (ins 0 0 1 0 1 101 0 () 0 0 0) (ins 0 0 1 0 1 100 0 () 0 0 8) (ins 1 0 1 0 2 100 1 () 0 0 0) (ins 0 0 1 0 1 100 1 () 1 0 0) (ins 1 0 1 0 2 100 1 () 1 1 0) (ins 0 0 1 0 1 100 1 () 1 1 0)))",
    # prefix limit reached: new prefix refused (nothing stored or registered), further path of a known prefix accepted
    "(case (peers (1 0) (2 0)) (vrfs) (opts (defer) (feed t)) (ops (insl 0 0 1 0 1 100 0 () 0 0 0) (ins 0 0 1 0 1 100 0 () 0 0 0) (insl 0 0 1 1 2 100 0 () 0 0 0) (insl 0 0 1 0 3 100 0 () 0 0 0) (insl 1 0 1 0 3 100 0 () 0 0 0) (insl 0 0 2 0 1 100 0 () 0 0 0) (down 0)))",
    # VRF table ids 1 and 100000, table id 0, empty import set, a non-RT extended community next to the route targets
    "(case (peers (1 0) (2 0)) (vrfs (1 1) (100000 2) (0 1 2 3) (12)) (opts (defer) (feed f)) (ops (ins 0 2 1 0 1 100 0 (1 2) 0 0 64) (ins 1 2 1 0 2 100 0 () 0 0 64) (ins 0 3 1 0 101 100 0 (2) 0 0 68) (rm 0 2 1 0) (down 0) (down 1)))",
    # graceful restart for some families only; End-of-RIB family by family
    "(case (peers (1 0) (2 0)) (vrfs (10 1)) (opts (defer) (feed t)) (ops (ins 0 0 1 0 1 100 0 () 0 0 0) (ins 0 1 1 0 101 100 0 () 0 0 0) (ins 0 2 1 0 2 100 0 (1) 0 0 0) (ins 0 3 1 0 102 100 0 (1) 0 0 0) (ins 1 0 1 0 3 100 0 () 0 0 0) (gdown 0 5) (ins 0 0 1 0 1 100 0 () 0 0 0) (purgef 0 1) (purgef 0 0) (purgef 0 2) (gdown 0 0) (gdown 1 15) (purgef 1 0)))",
]

# one REAL eBGP session on loopback per case (run_select -> rx_msg -> insert_route/remove_route, apply_disconnect -> unregister_peer)
WIRE_FIXED = [
    "(wire (rid 33686018) (ops (ann 1 1) (ann 2 1) (ann 1 2) (wd 2) close (ann 1 3) (wd 1) (wd 1) close close))",
    "(wire (rid 1) (ops (ann 1 1) (ann 1 1) (ann 2 2) (ann 3 2) close (wd 1) (ann 2 1) close))",
]


def gen_wire(r):
    n = 1 + r.below(8)
    ops = []
    for _ in range(n):
        k = r.weighted([("ann", 6), ("wd", 2), ("close", 1)])
        if k == "ann":
            ops.append("(ann %d %d)" % (r.pick([1, 2, 3]), r.pick([1, 2, 3])))
        elif k == "wd":
            ops.append("(wd %d)" % r.pick([1, 2, 3]))
        else:
            ops.append("close")
    return "(wire (rid %d) (ops %s))" % (r.pick([1, 2, 4294967294]), " ".join(ops))


SVC_FIXED = [
    "(svc (r 1) (r 1) (u 1) (r 2) e (u 2) (u 2) (r 2) (u 1) (u 1) (r 1))",
    "(svc (u 3) (r 3) (r 3) e (r 3) (u 3))",
    # every count transition: 0->1->2->3, 3->2, 2->1 (must stay watched), 1->0, unregister of an absent address, 0->1 again
    "(svc (r 1) (r 1) (r 1) (u 1) (u 1) e (r 1) (u 1) (u 1) (u 1) (u 1) (r 1))",
]


def gen(seed, n, tier):
    r = Rng(seed * 1000003 + 20)
    svc = netlink_ok()
    if not svc:
        # never silent: without a netlink socket the real run_service_loop cannot be driven; the
        # service cases are left out (coverage_gaps will list "svc-trace") and the (feed t) cases,
        # which stay in, will show up as correspondence mismatches (feed-no-netlink)
        import sys
        print("C20: NO NETLINK SOCKET - the service-loop cases (real run_service_loop) are NOT run", file=sys.stderr)
    out = (list(SVC_FIXED) if svc else []) + list(BOUNDARY_FIXED) + list(WIRE_FIXED)
    for _ in range(n):
        x = r.below(100)
        if x < 4:
            c = gen_svc(r)      # drawn in any case so that the other cases do not depend on the probe
            if svc:
                out.append(c)
        elif x < 7:
            out.append(mutate(r, gen_case(r)))
        elif x < 8:
            out.append(gen_wire(r))
        else:
            out.append(gen_case(r))
    return out
