from common import Rng

CONFIG = dict(
    claimed=True,
    level_text="Kernel-checked Lean theorems over ALL event sequences of the GR/LLGR helper model (GrState + the two timer "
               "slots + the session + the peer's routes with their Source stale marks): the C10 reference checker accepts "
               "every model run; a stale or LLGR-stale route implies an armed restart timer, an armed LLGR timer of its "
               "family, or an awaited End-of-RIB on the live session; a drop removes every non-negotiated family at once; "
               "no purge removes a route announced on the live session; a failed attempt leaves armed timers armed; NO_LLGR "
               "routes are gone when an LLGR timer is armed; ineligible reasons arm nothing and leave no route of the "
               "session; every armed timer's expiry removes what it protected.  The model is tied to daemon/src/gr.rs and "
               "the glue in daemon/src/event/mod.rs by running the real GrState, PeerContext, TableManager and glue "
               "functions on the same generated histories and diffing routes, stale marks, timer slots and "
               "is_peer_restarting after every step, with the reference checker as oracle on the real observations.",
    level_note="Trusted: Lean kernel; axioms propext/Classical.choice/Quot.sound; hand-written model (checked only by the "
               "correspondence streams).  Three streams on the same model, same observation, same oracle: `glue` (real glue "
               "functions called in the session task's order, timers fired by explicit events), `glue-short` / `glue-real` "
               "(1 s timers, `wait` = 1.25 s on tokio's paused / real clock: the REAL timer tasks of apply_disconnect and "
               "spawn_llgr_timers elapse, are cancelled by a reconnect, are fired by force_down), `glue-tcp` (the peer's "
               "session is a REAL session task — accept_connection + PeerSession::run on a loopback TCP connection, the "
               "harness is the remote speaker; OPEN negotiation, handle_message's End-of-RIB detection, run_select's close "
               "arm and the session_loop tail are the daemon's).  Modelled, not verified: the numeric durations (only "
               "'1 s elapses within 1.25 s, 1 s armed at an expiry does not' is observed), RTC state, BMP/BFD.",
    lean_modules=["Rbgp.Gr.Helper.Props"],
    theorems=[
        "Rbgp.Gr.Helper.Props.check_run_ok",
        "Rbgp.Gr.Helper.Props.inv_after",
        "Rbgp.Gr.Helper.Props.inv_inductive",
        "Rbgp.Gr.Helper.Props.stale_implies_pending",
        "Rbgp.Gr.Helper.Props.drop_clears_other_families",
        "Rbgp.Gr.Helper.Props.purge_spares_fresh",
        "Rbgp.Gr.Helper.Props.failed_attempt_keeps_timer",
        "Rbgp.Gr.Helper.Props.no_llgr_dropped",
        "Rbgp.Gr.Helper.Props.ineligible_class",
        "Rbgp.Gr.Helper.Props.ineligible_no_helper",
        "Rbgp.Gr.Helper.Props.negotiated_within_session",
        "Rbgp.Gr.Helper.Props.forced_down_ends_helper",
        "Rbgp.Gr.Helper.Props.bounded_lifetime_wait",
        "Rbgp.Gr.Helper.Props.bounded_lifetime_gr",
        "Rbgp.Gr.Helper.Props.bounded_lifetime_llgr",
        "Rbgp.Gr.Helper.Props.bounded_lifetime_eor",
    ],
    harness=dict(kind="daemon", test="event::verif_event::c10::verif_main"),
    profiles=["debug"],
    n_quick=2000, n_thorough=60000, shards=12,
    nontrivial_re=r"\(\d \d t |\(\d \d f t ",
    rule="histories of one peer over 3 families x 3 prefixes: session established (the peer's MP-BGP families, its GR "
         "capability with/without N-bit and its LLGR capability — mostly subsets of the MP families, sometimes naming "
         "families without MP-BGP, empty, or with repeats —, local speaker in selection deferral or not), announcements (with/without NO_LLGR / LLGR_STALE community), End-of-RIB per family, session down for every "
         "SessionDownReason (I/O, hold timer, remote/local NOTIFICATION with Cease / hard reset / non-Cease codes, FSM "
         "error, admin shutdown), a connection ending before Established, restart-timer and per-family LLGR-timer expiry, "
         "ShutdownPeer, DisablePeer/EnablePeer, `wait` in 1 s-timer cases (paused clock 400 quick / 6000 thorough, real clock 4 / 24), the same histories over a real TCP session where a remote speaker can cause them (240 / 1500), generated as session cycles with random events mixed in plus a pure-noise stream; plus "
         "the pure GrState machine: every reachable model state x every input (BFS in the model, 594 cases) and random "
         "input sequences; non-trivial = some stale or LLGR-stale route was observed; distinct = distinct case line",
    expect_tokens=["(rib (", "t (llt", "(llt 0", "(llt 1", "(llt 2", "start-timer", "stop-timer", "del-stale", "start-llgr",
                   "stop-llgr", "del-llgr"],
    trusted_base=["model Rbgp/Gr/Helper/Model.lean of daemon/src/gr.rs GrState + the helper-side glue of event/mod.rs + the "
                  "per-peer RIB operations of table_manager.rs / table/src/lib.rs (stale marks kept per path instead of per "
                  "shared Source: every marking happens after the owning session ended)",
                  "`glue` / `glue-short` / `glue-real` (harness/daemon/c10.rs): the real code is called in the order the session "
                  "task would: establishment = PeerSession::apply_outputs on the FSM's SessionNegotiated/SessionEstablished "
                  "outputs (PeerCodec::negotiate, negotiate_gr/negotiate_llgr on real capabilities, on_established) + "
                  "process_effects; announcements = rx_update; session end = finish_session + apply_disconnect (also for a "
                  "never-established connection); shutdown/disable/enable = the real gRPC handlers; timer events = the real "
                  "expiry handlers called directly (forced=false); `wait` = the real timer tasks on the paused (400 quick / 6000 "
                  "thorough cases) or real (4 / 24) clock.  Transcribed THERE only: run_select's mapping CloseReason -> "
                  "SessionDownReason::AdminShutdown and handle_message's `if negotiated_gr.is_some()` End-of-RIB guard "
                  "(3+1 lines) — both are executed for real in the `glue-tcp` stream",
                  "`glue-tcp` (harness/daemon/c10t.rs, 240 quick / 1500 thorough cases): transcribed are the three lines of "
                  "serve's listener arm (accept_connection, tokio::spawn(run), store the join handle); the remote speaker "
                  "(OPEN with MP / AS4 / GR incl. N bit / LLGR capabilities, KEEPALIVE, UPDATE with communities, End-of-RIB, "
                  "NOTIFICATION, a second OPEN) is the harness's; a step ends after 16 quiet scheduler turns; not expressible "
                  "over TCP and therefore only in the other streams: hold-timer expiry, local NOTIFICATIONs, `est`/`attempt` "
                  "while a session may be up, `est` while administratively down, End-of-RIB of a non-IPv4 family the session "
                  "does not carry; socket set-up failures (no ephemeral port) are retried for minutes and the case re-run, a "
                  "`glue-real` run during which the machine stalled > 0.5 s inside a wait is repeated"],
    modelled_not_verified=["durations: restart / LLGR times are 1 s in the clock streams and never elapse in the others; that the "
                           "negotiated number of seconds is the one used is not observed", "RTC state machine calls inside apply_disconnect / gr_restart_timer_expired",
                           "route ranking and distribution of the resulting NlriChanges (C02/C06/C01)"],
    assumptions=["the events of one peer are serialised by its PeerContext mutex; a session's tear-down (finish_session "
                 "+ apply_disconnect) is treated as one atomic step, and a new session of the peer is not established in between"],
)

NF, NX = 3, 3


def fl(fs):
    return "(" + " ".join(str(f) for f in fs) + ")"


def b(x):
    return "t" if x else "f"


def subset(r, universe, num=1, den=2):
    return [x for x in universe if r.chance(num, den)]


NOTIFS = [(6, 1), (6, 2), (6, 3), (6, 4), (6, 5), (6, 6), (6, 7), (6, 8), (6, 9), (6, 0), (6, 10),
          (1, 2), (2, 2), (3, 1), (3, 11), (4, 0), (5, 1), (7, 1)]


def gen_reason(r):
    k = r.weighted([("io", 6), ("hold", 2), ("rnotif", 4), ("lnotif", 3), ("fsm", 1), ("admin", 2)])
    if k in ("rnotif", "lnotif"):
        c, s = r.pick(NOTIFS)
        return "(%s %d %d)" % (k, c, s)
    return k


def gen_est(r):
    """peer capabilities: MP families, GR capability (families, N-bit), LLGR capability families; the GR / LLGR lists
    are mostly subsets of the MP families, sometimes name families without MP-BGP, sometimes are empty or repeat one"""
    fams = subset(r, range(NF), 2, 3)
    if not fams and r.chance(9, 10):
        fams = [r.below(NF)]
    def caplist(num, den):
        w = r.below(10)
        g = subset(r, fams, num, den) if w < 7 else subset(r, range(NF), 1, 2)
        if not g and r.chance(5, 6):
            g = [r.pick(fams)] if fams else [r.below(NF)]
        if g and r.chance(1, 10):
            g = g + [r.pick(g)]
        return g
    gr = "none" if r.chance(1, 10) else "(some (%s %s))" % (fl(caplist(2, 3)), b(r.chance(1, 2)))
    llgr = "none" if r.chance(2, 5) else "(some %s)" % fl(caplist(1, 2))
    return "(est %s %s %s %s)" % (fl(fams), gr, llgr, b(r.chance(1, 12)))


def rand_ev(r):
    k = r.weighted([("est", 3), ("attempt", 3), ("gr-timer", 3), ("llgr-timer", 3), ("force", 1), ("disable", 1),
                    ("enable", 2), ("ann", 3), ("eor", 3), ("down", 2)])
    if k == "est":
        return gen_est(r)
    if k == "ann":
        return "(ann %d %d %s %s)" % (r.below(NF), r.below(NX), b(r.chance(1, 4)), b(r.chance(1, 8)))
    if k == "eor":
        return "(eor %d)" % r.below(NF)
    if k == "down":
        return "(down %s)" % gen_reason(r)
    if k == "llgr-timer":
        return "(llgr-timer %d)" % r.below(NF)
    return k


def gen_glue(r):
    """session cycles (establish, announce, End-of-RIB, go down, what happens while down) with random events mixed in"""
    evs = []
    disabled = False
    for _ in range(1 + r.below(3)):
        est = gen_est(r)
        evs.append(est)
        fams = [int(x) for x in est[6:est.index(")")].split()] or [0]
        for _ in range(r.below(5)):
            f = r.pick(fams) if r.chance(7, 8) else r.below(NF)
            evs.append("(ann %d %d %s %s)" % (f, r.below(NX), b(r.chance(1, 4)), b(r.chance(1, 8))))
            if r.chance(1, 7):
                evs.append(rand_ev(r))
        for f in fams:
            if r.chance(1, 2):
                evs.append("(eor %d)" % f)
        if r.chance(1, 4):
            evs.append("(ann %d %d f f)" % (r.pick(fams), r.below(NX)))
        w = r.below(20)
        if w < 1:
            evs.append("force")
        elif w < 2:
            evs.append("disable"); disabled = True
        elif w < 12:
            evs.append("(down io)")
        else:
            evs.append("(down %s)" % gen_reason(r))
        for _ in range(r.below(4)):
            k = r.weighted([("attempt", 4), ("gr-timer", 4), ("llgr-timer", 4), ("force", 1), ("rand", 2)])
            if k == "llgr-timer":
                evs.append("(llgr-timer %d)" % r.pick(fams))
            elif k == "rand":
                evs.append(rand_ev(r))
            else:
                evs.append(k)
        if disabled and r.chance(2, 3):
            evs.append("enable"); disabled = False
    return "(glue %s)" % " ".join(evs)


def gen_optfams(r):
    return "none" if r.chance(1, 3) else "(some %s)" % fl(subset(r, range(NF), 1, 2) + ([r.below(NF)] if r.chance(1, 6) else []))


def gen_pure(r):
    n = 1 + r.below(10)
    ins = []
    for _ in range(n):
        k = r.weighted([("dropped", 5), ("established", 4), ("eor", 4), ("timer", 3), ("llgr-timer", 3)])
        if k == "dropped":
            ins.append("(dropped %s %s)" % (gen_optfams(r), gen_optfams(r)))
        elif k == "established":
            ins.append("(established %s)" % fl(subset(r, range(NF), 1, 2)))
        elif k == "eor":
            ins.append("(eor %d)" % r.below(NF))
        elif k == "timer":
            ins.append("timer")
        else:
            ins.append("(llgr-timer %d)" % r.below(NF))
    return "(pure %s)" % " ".join(ins)


def gen_short(r, head="glue-short"):
    """1 s restart / LLGR time; `wait` = 1.25 s pass and every timer that is due elapses IN ITS OWN TASK (the real
    tokio timeout on the oneshot): natural expiry, cancellation by a reconnect (the sender is dropped), the forced
    `run now` of shutdown / disable.  `glue-short` runs on tokio's paused clock, `glue-real` on the real one."""
    evs = []
    fams = [0]
    for _ in range(1 + r.below(3)):
        e = gen_est(r)
        evs.append(e)
        fams = [int(x) for x in e[6:e.index(")")].split()] or [0]
        for _ in range(1 + r.below(3)):
            evs.append("(ann %d %d %s f)" % (r.pick(fams), r.below(NX), b(r.chance(1, 3))))
        if r.chance(1, 3):
            evs.append("(eor %d)" % r.pick(fams))
        evs.append("(down %s)" % ("io" if r.chance(3, 4) else gen_reason(r)))
        for _ in range(r.below(4)):
            k = r.weighted([("wait", 6), ("attempt", 2), ("force", 1), ("disable", 1), ("enable", 1), ("gr-timer", 1),
                            ("llgr-timer", 1)])
            evs.append("(llgr-timer %d)" % r.pick(fams) if k == "llgr-timer" else k)
        if r.chance(1, 2):
            # reconnect inside the window: the pending timer task is cancelled / End-of-RIB purges
            evs.append("enable")
            e = gen_est(r)
            evs.append(e)
            f2 = [int(x) for x in e[6:e.index(")")].split()] or [0]
            if r.chance(1, 2):
                evs.append("wait")
            for f in f2:
                if r.chance(1, 2):
                    evs.append("(eor %d)" % f)
            evs.append("(down io)")
            evs.append("wait")
            if r.chance(1, 2):
                evs.append("wait")
    return "(%s %s)" % (head, " ".join(evs))


def gen_tcp(r):
    """the same kind of history over a REAL TCP session (`glue-tcp`): only what a remote speaker and the operator can
    cause — the session ends by the socket closing, a NOTIFICATION from the speaker, an FSM error, shutdown or disable;
    a session is opened only when none can be up and the peer is not administratively down"""
    evs = []
    up = False
    admin = False
    fams = [0]
    def tcp_down():
        w = r.below(20)
        if w < 11:
            return "(down io)"
        if w < 16:
            c, s = r.pick(NOTIFS)
            return "(down (rnotif %d %d))" % (c, s)
        if w < 17:
            return "(down fsm)"
        if w < 19:
            return "force"
        return "disable"
    for _ in range(2 + r.below(18)):
        if not up:
            k = r.weighted([("est", 8), ("attempt", 3), ("gr-timer", 3), ("llgr-timer", 3), ("force", 1),
                            ("disable", 1), ("enable", 2 if admin else 1), ("ann", 1), ("eor", 1), ("down", 1)])
        else:
            k = r.weighted([("ann", 8), ("eor", 5), ("down", 5), ("gr-timer", 1), ("llgr-timer", 1), ("enable", 1)])
        if k == "est":
            if admin:
                evs.append("enable"); admin = False
                continue
            e = gen_est(r)
            fams = [int(x) for x in e[6:e.index(")")].split()] or [0]
            evs.append(e); up = True
        elif k == "attempt":
            evs.append("attempt")
        elif k == "ann":
            f = r.pick(fams) if r.chance(7, 8) else r.below(NF)
            evs.append("(ann %d %d %s %s)" % (f, r.below(NX), b(r.chance(1, 4)), b(r.chance(1, 8))))
        elif k == "eor":
            evs.append("(eor %d)" % (r.pick(fams) if (r.chance(5, 6) or up) else r.below(NF)) if not (up and r.chance(1, 8)) else "(eor 0)")
        elif k == "down":
            d = tcp_down()
            evs.append(d); up = False
            if d == "disable":
                admin = True
        elif k == "llgr-timer":
            evs.append("(llgr-timer %d)" % (r.pick(fams) if r.chance(3, 4) else r.below(NF)))
        elif k == "force":
            evs.append("force"); up = False
        elif k == "disable":
            evs.append("disable"); up = False; admin = True
        elif k == "enable":
            evs.append("enable"); admin = False
        else:
            evs.append(k)
    return "(glue-tcp %s)" % " ".join(evs)


def gen_noise(r):
    return "(glue %s)" % " ".join(rand_ev(r) for _ in range(2 + r.below(24)))


def pure_bfs():
    """every reachable state of the MODEL of GrState x every input of the alphabet (families 0..1 for the drop /
    established parameters, 0..2 for End-of-RIB and LLGR-timer), each state driven along a shortest path; computed by
    the Lean driver (`drv_c10 bfs`) from the model itself."""
    import subprocess, os
    drv = os.path.join(os.path.dirname(os.path.dirname(os.path.abspath(__file__))), "lean", ".lake", "build", "bin", "drv_c10")
    out = subprocess.run([drv, "bfs"], input="(bfs)\n", stdout=subprocess.PIPE, text=True, timeout=600).stdout
    return [l for l in out.split("\n") if l.startswith("(pure")]


def gen(seed, n, tier):
    r = Rng(seed * 1000003 + 10)
    cases = pure_bfs()
    rs = Rng(seed * 1000003 + 1011)
    cases += [gen_short(rs) for _ in range(400 if tier == "quick" else 6000)]
    cases += [gen_short(rs, "glue-real") for _ in range(4 if tier == "quick" else 24)]
    rt = Rng(seed * 1000003 + 1010)
    cases += [gen_tcp(rt) for _ in range(240 if tier == "quick" else 1500)]
    target = len(cases) + n
    while len(cases) < target:
        w = r.below(12)
        cases.append(gen_pure(r) if w < 1 else gen_noise(r) if w < 3 else gen_glue(r))
    return cases
