from common import Rng

CONFIG = dict(
    claimed=False, na_reason="proofs in progress",
    level_text="Kernel-checked Lean theorems over ALL event sequences of the GR/LLGR helper model (GrState + the two timer "
               "slots + the session + the peer's routes with their Source stale marks): the C10 reference checker accepts "
               "every model run; a stale or LLGR-stale route implies an armed restart timer, an armed LLGR timer of its "
               "family, or an awaited End-of-RIB on the live session; a drop removes every non-negotiated family at once; "
               "no purge removes a route announced on the live session; a failed attempt leaves armed timers armed; NO_LLGR "
               "routes are gone when an LLGR timer is armed; ineligible reasons arm nothing and leave no route of the "
               "session; every armed timer's expiry removes what it protected.  The model is tied to daemon/src/gr.rs and "
               "the glue in daemon/src/event/mod.rs by running the real GrState, PeerContext, TableManager and glue "
               "functions on the same generated histories and diffing routes, stale marks, timer slots and "
               "is_peer_restarting after every step, with the reference checker as oracle on the real observations.",
    level_note="Trusted: Lean kernel; axioms propext/Classical.choice/Quot.sound; hand-written model (checked only by the "
               "correspondence stream); harness sequencing of the real glue calls (a live TCP session is replaced by "
               "PeerSession::new_for_test + direct calls). Modelled, not verified: tokio timer tasks (a timer is an explicit "
               "event, fired through the code's own oneshot 'run now' path), restart/stale durations, RTC state, BMP/BFD.",
    lean_modules=["Rbgp.Gr.Helper.Props"],
    theorems=[],
    harness=dict(kind="daemon", test="event::verif_event::c10::verif_main"),
    profiles=["debug"],
    n_quick=2500, n_thorough=60000, shards=12,
    nontrivial_re=r"\(\d \d t |\(\d \d f t ",
    rule="histories of one peer over 3 families x 3 prefixes: session established (any session family set, negotiated GR "
         "subset with/without N-bit, negotiated LLGR set incl. LLGR-only families, local speaker in selection deferral or "
         "not), announcements (with/without NO_LLGR / LLGR_STALE community), End-of-RIB per family, session down for every "
         "SessionDownReason (I/O, hold timer, remote/local NOTIFICATION with Cease / hard reset / non-Cease codes, FSM "
         "error, admin shutdown), a connection ending before Established, restart-timer and per-family LLGR-timer expiry, "
         "force_down, disable/enable; plus pure GrState input sequences; non-trivial = some stale or LLGR-stale route was "
         "observed; distinct = distinct case line",
    expect_tokens=["(rib (", "t (llt", "(llt 0", "(llt 1", "(llt 2", "start-timer", "stop-timer", "del-stale", "start-llgr",
                   "stop-llgr", "del-llgr"],
    trusted_base=["model Rbgp/Gr/Helper/Model.lean of daemon/src/gr.rs GrState + the helper-side glue of event/mod.rs + the "
                  "per-peer RIB operations of table_manager.rs / table/src/lib.rs",
                  "harness/daemon/c10.rs drives the real functions in the order the session task would; run_select's "
                  "mapping CloseReason -> SessionDownReason::AdminShutdown and handle_message's `if negotiated_gr.is_some()` "
                  "guard for End-of-RIB are transcribed (3 lines)"],
    modelled_not_verified=["timer tasks (tokio::time::timeout on a oneshot) — expiry is an explicit event; durations are not "
                           "modelled", "RTC state machine calls inside apply_disconnect / gr_restart_timer_expired",
                           "route ranking and distribution of the resulting NlriChanges (C02/C06/C01)"],
    assumptions=["the events of one peer are serialised by its PeerContext mutex; a session's tear-down (session_loop tail "
                 "+ apply_disconnect) is treated as one atomic step"],
)

NF, NX = 3, 3


def fl(fs):
    return "(" + " ".join(str(f) for f in fs) + ")"


def b(x):
    return "t" if x else "f"


def subset(r, universe, num=1, den=2):
    return [x for x in universe if r.chance(num, den)]


NOTIFS = [(6, 1), (6, 2), (6, 3), (6, 4), (6, 5), (6, 6), (6, 7), (6, 8), (6, 9), (6, 0), (6, 10),
          (1, 2), (2, 2), (3, 1), (3, 11), (4, 0), (5, 1), (7, 1)]


def gen_reason(r):
    k = r.weighted([("io", 6), ("hold", 2), ("rnotif", 4), ("lnotif", 3), ("fsm", 1), ("admin", 2)])
    if k in ("rnotif", "lnotif"):
        c, s = r.pick(NOTIFS)
        return "(%s %d %d)" % (k, c, s)
    return k


def gen_est(r):
    fams = subset(r, range(NF), 2, 3)
    if not fams and r.chance(9, 10):
        fams = [r.below(NF)]
    w = r.below(10)
    if w < 1 or not fams:
        gr = "none"
    else:
        g = subset(r, fams, 2, 3)
        if not g:
            g = [r.pick(fams)]
        if r.chance(1, 10):
            g = g + [r.pick(g)]
        gr = "(some (%s %s))" % (fl(g), b(r.chance(1, 2)))
    w = r.below(10)
    if w < 4 or not fams:
        llgr = "none"
    else:
        g = subset(r, fams, 1, 2)
        if not g:
            g = [r.pick(fams)]
        if r.chance(1, 10):
            g = g + [r.pick(g)]
        llgr = "(some %s)" % fl(g)
    return "(est %s %s %s %s)" % (fl(fams), gr, llgr, b(r.chance(1, 12)))


def gen_glue(r):
    n = 2 + r.below(r.pick([6, 12, 20, 30]))
    evs = []
    up = False
    for _ in range(n):
        if not up:
            k = r.weighted([("est", 10), ("attempt", 3), ("gr-timer", 3), ("llgr-timer", 3), ("force", 1),
                            ("disable", 1), ("enable", 1), ("ann", 1), ("eor", 1), ("down", 1)])
        else:
            k = r.weighted([("ann", 10), ("eor", 5), ("down", 5), ("attempt", 2), ("gr-timer", 1), ("llgr-timer", 1),
                            ("force", 1), ("disable", 1), ("enable", 1), ("est", 1)])
        if k == "est":
            evs.append(gen_est(r)); up = True
        elif k == "ann":
            evs.append("(ann %d %d %s %s)" % (r.below(NF), r.below(NX), b(r.chance(1, 4)), b(r.chance(1, 8))))
        elif k == "eor":
            evs.append("(eor %d)" % r.below(NF))
        elif k == "down":
            evs.append("(down %s)" % gen_reason(r)); up = False
        elif k == "llgr-timer":
            evs.append("(llgr-timer %d)" % r.below(NF))
        else:
            evs.append(k)
            if k in ("force", "disable"):
                up = False
    return "(glue %s)" % " ".join(evs)


def gen_optfams(r):
    return "none" if r.chance(1, 3) else "(some %s)" % fl(subset(r, range(NF), 1, 2) + ([r.below(NF)] if r.chance(1, 6) else []))


def gen_pure(r):
    n = 1 + r.below(10)
    ins = []
    for _ in range(n):
        k = r.weighted([("dropped", 5), ("established", 4), ("eor", 4), ("timer", 3), ("llgr-timer", 3)])
        if k == "dropped":
            ins.append("(dropped %s %s)" % (gen_optfams(r), gen_optfams(r)))
        elif k == "established":
            ins.append("(established %s)" % fl(subset(r, range(NF), 1, 2)))
        elif k == "eor":
            ins.append("(eor %d)" % r.below(NF))
        elif k == "timer":
            ins.append("timer")
        else:
            ins.append("(llgr-timer %d)" % r.below(NF))
    return "(pure %s)" % " ".join(ins)


def gen(seed, n, tier):
    r = Rng(seed * 1000003 + 10)
    cases = []
    while len(cases) < n:
        cases.append(gen_pure(r) if r.chance(1, 6) else gen_glue(r))
    return cases
