from common import Rng

CONFIG = dict(
    level_text="Kernel-checked Lean theorems over ALL interleavings (any number of shards, writer sessions and subscribers; "
               "every schedule of the atomic steps of table_manager.rs subject only to mutex exclusion) of a transition-system "
               "model of TableManager's subscription machinery: per-shard snapshot invariant, exact reconstruction of the "
               "pre- and post-policy Adj-RIB-In by snapshot + live events once writers finish, last event per (peer, prefix, "
               "path-id) = current state, PeerDown forwarded only after PeerUp, and the master theorem that the C18 reference "
               "checker accepts every model schedule.  The model is tied to the code by running the REAL TableManager (one OS "
               "thread per session/subscriber) under a deterministic scheduler that releases one thread at a time between the "
               "cfg-guarded scheduling points in table_manager.rs, on the same schedules as the model, diffing every received "
               "event history, return value and the final iter_reach/iter_reach_post; the reference checker is the oracle on "
               "the real observations; the real bmp.rs apply_snapshot folds the snapshot phase and the real send_peer_up / send_peer_down "
               "forward every live PeerUp/PeerDown event onto a real loopback BMP connection whose bytes are decoded as the observation.",
    level_note="Trusted: Lean kernel; axioms propext/Classical.choice/Quot.sound; hand-written model (checked only by the "
               "correspondence stream); harness glue (session teardown = unregister_peer then peer_down transcribed from "
               "event/mod.rs; fresh Source + prefix counter per session; Loc-RIB/Adj-RIB-Out/EOR events dropped from the "
               "observation; event order across different keys projected away).  Modelled, not verified: memory ordering below "
               "Mutex/ArcSwap operations; interleavings inside a critical section (no scheduling point between the two notify "
               "calls and the table mutation; the proof treats the section body as one step, which is sound because every sender "
               "of a key's events holds that key's shard lock); the load-to-send window of peer_up/peer_down; BmpClient::serve's "
               "use of global peer state, TCP back-pressure; GR-retained routes and their purge (DESIGN 4.0, remark S28b).",
    lean_modules=["Rbgp.Monitor.Props"],
    theorems=[
        "Rbgp.Monitor.Props.check_run_ok",
        "Rbgp.Monitor.Props.reachable_inv",
        "Rbgp.Monitor.Props.snapshot_invariant",
        "Rbgp.Monitor.Props.reconstruct_exact",
        "Rbgp.Monitor.Props.last_event_is_current",
        "Rbgp.Monitor.Props.peerdown_after_peerup",
        "Rbgp.Monitor.Props.apply_snapshot_is_fold",
        "Rbgp.Monitor.Props.run_reachable",
        "Rbgp.Monitor.Props.run_finishes",
        "Rbgp.Monitor.Props.compile_wf",
    ],
    harness=dict(kind="daemon", test="event::verif_event::c18::verif_main"),
    profiles=["debug"],
    n_quick=3000, n_thorough=120000, shards=12,
    nontrivial_re=r"\(hist \(\([0-9wd]|\(\(\) \([0-9wd]",
    rule="random cases: 1-3 shards, 1-3 writer sessions (up / ins / rem / soft-reset-in / import-policy change / down, colliding "
         "2x2x2 key domain per writer, prefix limit 0-2) and 1-2 subscribers (subscribe with/without snapshot, unsubscribe, "
         "re-subscribe), run under a random schedule at coarse (critical sections atomic, bulk operations yield between "
         "shards) or fine (every scheduling point) granularity; plus every subscription point of sequential histories; "
         "thorough tier adds ALL schedules of curated 2-shard x 2-writer x 3-op programs with one subscriber (coarse) and of "
         "tiny programs at fine granularity; non-trivial = some subscription received a route event; distinct = distinct case line",
    expect_tokens=["limit", "(up ", "(down ", "eos", " w", " d", "(fwd (up", "(down 0)))) (rib", "t f (ctl", " f t (ctl",
                   "(none none)", "(rows 0 0)", "(hist)"],
    trusted_base=["model Rbgp/Monitor/Model.lean of daemon/src/table_manager.rs (subscribe/unsubscribe/insert_route/remove_route/"
                  "soft_reset_in/unregister_peer/peer_up/peer_down) and of bmp.rs apply_snapshot/track_peer_up/track_peer_down",
                  "harness/daemon/c18.rs: deterministic scheduler over the cfg(osrg_rustybgp_verif) scheduling points "
                  "(table_manager::verif_sched); session teardown order transcribed from event/mod.rs; prefixes chosen per shard by "
                  "probing the real dealer; harness/daemon/c18_bmp.rs exposes the private bmp.rs consumer functions: the PeerUp/PeerDown "
                  "message construction of BmpClient::serve's live loop is transcribed, send_peer_up/send_peer_down are the real ones writing "
                  "to a real Framed<TcpStream, BmpCodec>; the forwarded stream is read back from the peer socket (BMP type + per-peer address)"],
    modelled_not_verified=["memory ordering below the granularity of Mutex / ArcSwap operations (sequential consistency assumed at the "
                           "scheduling points)",
                           "sub-critical-section interleavings of channel sends (events of other shards / other peers landing between "
                           "the pre- and post-policy notification of one insert): they commute in the fold",
                           "the window between subscribers.load() and the sends inside peer_up/peer_down (one atomic step in the model)",
                           "BmpClient::serve as a whole (PeerUp reconstruction from global peer state, flush per established peer, TCP "
                           "back-pressure); only apply_snapshot and send_peer_up/send_peer_down (hence track_peer_up/down) are executed",
                           "GR-retained stale routes and their purge (outside the quantifier by DESIGN 4.0; remark S28b witnessed in "
                           "corpus/C18/remarks.case comments and known-findings.json)"],
    assumptions=["a peer address is owned by one session task at a time (writer thread i = peer i): sessions of the same peer are sequential",
                 "a session teardown is unregister_peer on every shard followed by peer_down, as event/mod.rs does"],
    claimed=True,
)

POLS = ["none", "reject", "tag"]


def w_ops(r, n, nops, structured):
    ops = []
    up = False
    if structured and r.chance(4, 5):
        ops.append("up"); up = True
    for _ in range(nops):
        x = r.weighted([("ins", 10), ("rem", 4), ("sr", 2), ("pol", 2), ("down", 2), ("up", 1)])
        if x == "ins":
            ops.append("(ins %d %d %d %d)" % (r.below(n), r.below(2), r.below(2), 1 + r.below(9)))
        elif x == "rem":
            ops.append("(rem %d %d %d)" % (r.below(n), r.below(2), r.below(2)))
        elif x == "pol":
            ops.append("(pol %s)" % r.pick(POLS))
        elif x == "down":
            ops.append("down"); up = False
        elif x == "up":
            if structured and up:
                continue
            ops.append("up"); up = True
        else:
            ops.append(x)
    if structured and up and r.chance(1, 3):
        ops.append("down")
    return ops


def s_ops(r):
    x = r.below(10)
    if x < 5:
        return ["(sub t)"]
    if x < 6:
        return ["(sub f)"]
    if x < 8:
        return ["(sub t)", "unsub", "(sub t)"]
    if x < 9:
        return ["(sub %s)" % r.pick(["t", "f"]), "unsub"]
    return ["(sub f)", "(sub t)"]


def rand_sched(r, nth, length):
    mode = r.below(3)
    out = []
    if mode == 0:
        out = [r.below(nth) for _ in range(length)]
    elif mode == 1:       # bursts
        while len(out) < length:
            t = r.below(nth)
            out += [t] * (1 + r.below(6))
    else:                 # mostly sequential with a few switches
        t = r.below(nth)
        for _ in range(length):
            if r.chance(1, 6):
                t = r.below(nth)
            out.append(t)
    return out[:length]


def case_str(n, gran, limit, threads, sched):
    return "(case (cfg %d %d %d) (threads %s) (sched %s))" % (
        n, gran, limit, " ".join("(%s)" % " ".join([k] + ops) for k, ops in threads), " ".join(map(str, sched)))


def gen_random(r):
    n = r.pick([1, 2, 2, 2, 3])
    gran = r.below(2)
    limit = r.pick([0, 0, 0, 1, 2])
    nw = 1 + r.below(3)
    ns = 1 + r.below(2) if nw < 3 else 1
    threads = []
    for _ in range(nw):
        threads.append(("w", w_ops(r, n, 1 + r.below(r.pick([3, 5, 8])), r.chance(5, 6))))
    for _ in range(ns):
        threads.append(("s", s_ops(r)))
    # interleave thread positions a little (peer ids = thread index)
    if r.chance(1, 3):
        threads.reverse()
    sched = rand_sched(r, len(threads), r.pick([10, 30, 80]))
    return case_str(n, gran, limit, threads, sched)


def gen_softreset(r):
    """policy flip + soft reset IN racing with a subscriber at fine or coarse granularity"""
    n = r.pick([2, 2, 3])
    gran = r.pick([0, 1, 1])
    ops = []
    for _ in range(1 + r.below(3)):
        ops.append("(ins %d %d %d %d)" % (r.below(n), r.below(2), r.below(2), 1 + r.below(9)))
    ops.append("(pol %s)" % r.pick(["reject", "tag"]))
    ops.append("sr")
    if r.chance(1, 3):
        ops += ["(pol none)", "sr"]
    threads = [("w", ops), ("s", s_ops(r))]
    if r.chance(1, 3):
        threads.insert(1, ("w", w_ops(r, n, 1 + r.below(3), True)))
    # let the writer get into the soft reset, run the subscriber, then interleave
    nins = len([o for o in ops if o.startswith("(ins")])
    lead = (3 * nins if gran == 1 else nins) + 1 + r.below(4)
    si = len(threads) - 1
    sched = [0] * lead + [si] * (2 + r.below(5)) + [r.below(len(threads)) for _ in range(12)]
    return case_str(n, gran, 0, threads, sched)


def gen_peers(r):
    """several sessions going up and down around the subscription point(s): PeerDown for a peer whose
    PeerUp this subscriber never saw while another peer's PeerUp was forwarded, re-subscription, ..."""
    n = r.pick([1, 2])
    nw = 2 + r.below(2)
    threads = []
    for _ in range(nw):
        ops = []
        for _ in range(1 + r.below(4)):
            x = r.below(10)
            if x < 4:
                ops.append("up")
            elif x < 8:
                ops.append("down")
            else:
                ops.append("(ins %d 0 0 %d)" % (r.below(n), 1 + r.below(9)))
        threads.append(("w", ops))
    threads.append(("s", r.pick([["(sub f)"], ["(sub t)"], ["(sub f)", "unsub", "(sub t)"], ["(sub t)", "unsub", "(sub f)"]])))
    if r.chance(1, 2):
        threads.reverse()
    return case_str(n, 0, 0, threads, [r.below(len(threads)) for _ in range(8 + r.below(20))])


def gen_sequential_points(r):
    """one writer history, a subscriber that subscribes after exactly p writer segments (all p)."""
    n = r.pick([1, 2, 3])
    limit = r.pick([0, 0, 1])
    ops = w_ops(r, n, 3 + r.below(5), True)
    sub = r.pick([["(sub t)"], ["(sub t)"], ["(sub f)"]])
    out = []
    for p in range(0, 3 * len(ops) + 2):
        # threads [w, s]: index 0 = writer while both are enabled
        out.append(case_str(n, 0, limit, [("w", ops), ("s", sub)], [0] * p + [1] * (n + 3)))
    return out


def interleavings(counts):
    """all schedules (as indices into the list of unfinished threads) of threads with the given segment counts"""
    res = []

    def rec(cs, acc):
        alive = [i for i, c in enumerate(cs) if c > 0]
        if not alive:
            res.append(list(acc)); return
        for pos, i in enumerate(alive):
            cs[i] -= 1; acc.append(pos)
            rec(cs, acc)
            acc.pop(); cs[i] += 1
    rec(list(counts), [])
    return res


def segs_coarse(op, n):
    if op in ("up", "unsub") or op.startswith("(ins") or op.startswith("(rem") or op.startswith("(pol"):
        return 1
    if op == "sr":
        return n
    if op == "down":
        return n + 1
    if op == "(sub t)":
        return n + 1
    if op == "(sub f)":
        return 2
    raise ValueError(op)


EXH_PROGRAMS = [
    # (writer 0 ops, writer 1 ops) over 2 shards, one subscriber; every coarse schedule
    (["(ins 0 0 0 1)", "(ins 1 0 0 2)", "(rem 0 0 0)"], ["(ins 0 0 0 3)", "(ins 1 0 0 4)", "(rem 1 0 0)"]),
    (["(ins 0 0 0 1)", "(ins 0 0 0 2)", "(rem 0 0 0)"], ["(ins 1 0 0 3)", "(rem 1 0 0)", "(ins 1 0 0 4)"]),
    (["up", "(ins 0 0 0 1)", "down"], ["(ins 0 0 0 3)", "(ins 1 0 0 4)", "(rem 0 0 0)"]),
    (["(ins 0 0 0 1)", "(ins 1 0 0 2)", "down"], ["(ins 0 0 1 3)", "(rem 0 0 1)", "(ins 0 0 1 5)"]),
    (["(ins 1 0 0 1)", "(pol reject)", "sr"], ["(ins 1 0 0 3)", "(ins 0 0 0 4)", "(rem 1 0 0)"]),
    (["(ins 0 0 0 1)", "(ins 1 0 0 2)", "sr"], ["(pol tag)", "(ins 0 0 0 4)", "(pol none)"]),
]


def gen_exhaustive():
    out = []
    n = 2
    for w0, w1 in EXH_PROGRAMS:
        threads = [("w", w0), ("w", w1), ("s", ["(sub t)"])]
        counts = [sum(segs_coarse(o, n) for o in ops) for _, ops in threads]
        for sch in interleavings(counts):
            out.append(case_str(n, 0, 0, threads, sch))
    # fine granularity, tiny programs: every 0/1 string long enough to finish both threads
    tiny = [
        (["(ins 0 0 0 1)"], ["(sub t)"]),
        (["(ins 1 0 0 1)", "(rem 1 0 0)"], ["(sub t)"]),
        (["(ins 0 0 0 1)", "down"], ["(sub t)"]),
        (["(pol reject)", "sr"], ["(sub t)"]),
    ]
    for w, s in tiny:
        for pre in ([], ["(ins 0 0 0 7)", "(ins 1 0 0 8)"]):
            L = 11
            for bits in range(1 << L):
                sch = [(bits >> i) & 1 for i in range(L)]
                out.append(case_str(n, 1, 0, [("w", pre + w), ("s", s)], sch))
    return out


def gen_malformed(r):
    base = gen_random(r)
    x = r.below(6)
    if x == 0:
        return base.replace("(cfg ", "(cfg 9 ", 1)
    if x == 1:
        return base.replace("(ins ", "(ins 7 ", 1)
    if x == 2:
        return base.replace("(threads (w", "(threads (s", 1)
    if x == 3:
        return base[:-2]
    if x == 4:
        return base.replace("(sched", "(sched x", 1)
    return "(case)"


def gen(seed, n, tier):
    r = Rng(seed * 1000003 + 18)
    out = []
    if tier == "thorough":
        out += gen_exhaustive()
    while len(out) < n:
        x = r.below(100)
        if x < 60:
            out.append(gen_random(r))
        elif x < 72:
            out.append(gen_softreset(r))
        elif x < 84:
            out.append(gen_peers(r))
        elif x < 97:
            out += gen_sequential_points(r)
        else:
            out.append(gen_malformed(r))
    return out[:n] if tier != "thorough" else out
