from common import Rng

CONFIG = dict(
    level_text="Kernel-checked Lean theorems over ALL interleavings (any number of shards, writer sessions, channel subscribers, "
               "BMP connections, MRT dumps and watch streams; every schedule of the atomic steps of table_manager.rs subject only "
               "to mutex exclusion) of a transition-system model of TableManager's subscription machinery and of the consumer "
               "tasks as transition systems over the events they receive (BmpClient::serve: drain to EndOfSnapshot / flush / "
               "forward with peer-up tracking; gRPC watch_event; MrtDumper): per-shard snapshot invariant, exact reconstruction "
               "of the pre- and post-policy Adj-RIB-In by snapshot + live events once writers finish, last event per (peer, "
               "prefix, path-id) = current state, PeerDown written out only after PeerUp for every consumer and every input "
               "stream, the consumer invariants (a peer in session is announced on every consumer connection that has read "
               "the peer table; the station agrees with the channel view on every key of an announced peer unless the key is "
               "on its way out) and the master theorem C18_full_holds_partial: the C18 reference checker accepts every model schedule "
               "of every case without a GR-retaining session end, consumer tasks included (with GR retention the tightened checker - a retained key is excused only by the subscriber's own history - is refuted for BMP/watch connections, finding S28h / C18_full_fails, and unproved for channel subscribers).  The model is tied to the code "
               "by running the REAL TableManager, the REAL Global peer table, the REAL PeerSession::finish_session teardown and "
               "the REAL BmpClient::serve (on a loopback TCP connection whose bytes are decoded), the REAL MrtDumper::serve (BGP4MP records read back from its file) and the REAL gRPC watch_event handler (response stream polled) under a deterministic scheduler "
               "that releases one OS thread at a time between the cfg-guarded scheduling points in table_manager.rs, on the same "
               "schedules as the model, diffing every received event history, every BMP message written, return values and the "
               "final iter_reach/iter_reach_post; the reference checker is the oracle on the real observations.",
    level_note="Theorem-backed: every clause of the checker - channel subscribers, BMP connections, MRT dumps, watch streams - under "
               "insert/remove/soft-reset-in (any thread)/policy change/session up/non-retaining down/GR-retaining down/the four "
               "bulk purges/subscribe/unsubscribe, in cases WITHOUT a GR-retaining session end.  Oracle-only (no theorem): cases with GR retention - for a key the table "
               "holds as a GR-retained (stale) route (per-key stale flag in the observation) a subscriber may hold nothing only if the PeerDown of the key's peer was the last thing it was told about the key (or, consumer connections, nothing about the peer was ever announced), otherwise it must hold what the table holds; "
               "open finding S28h there for BMP/watch connections opened during retention; the route clauses of a BMP connection / watch stream "
               "are judged only when every session announces routes between its up and its down, the MRT clause only for peers "
               "that never end a session (both restrictions are in the checker, from the property's reading in DESIGN 4.0).  "
               "Hypothesis-backed (model = implementation on the generated stream + oracle on the real bytes): that the consumer "
               "state machines of the model (consStep/consRun, drainSnapshot, the flush) are what bmp.rs / grpc.rs / mrt.rs do.  "
               "Trusted: Lean kernel; axioms "
               "propext/Classical.choice/Quot.sound; hand-written model; harness glue (session establishment = session_addrs store "
               "then peer_up, transcribed from apply_outputs/on_established because on_established needs a live TCP stream; fresh "
               "Source + prefix counter per session; import_policy.store as the common end of every policy-assignment path; BMP "
               "decoding of the loopback bytes with the repo's own BGP parser; Loc-RIB/Adj-RIB-Out/EOR events dropped; event order "
               "across different keys projected away).  Modelled, not verified: memory ordering below Mutex/ArcSwap operations; "
               "interleavings inside a critical section between the two notify calls and the table mutation; the load-to-send window "
               "inside peer_up/peer_down; the API path of a watch table event carries no next hop (the observed value is completed from the MED); an MRT updates dump has no "
               "record for a session end, so it is judged only for peers that never end a session.  (The window between "
               "EndOfSnapshot and serve's read of the peer table is two atomic steps in the model and covered by the theorems; "
               "the harness has no scheduling point inside it.)",
    lean_modules=["Rbgp.Monitor.Props"],
    theorems=[
        "Rbgp.Monitor.Props.C18_full_holds_partial",
        "Rbgp.Monitor.Props.C18_full_fails",
        "Rbgp.Monitor.Props.channel_subscription_ok",
        "Rbgp.Monitor.Props.mrt_dump_ok",
        "Rbgp.Monitor.Props.retained_key_invariant",
        "Rbgp.Monitor.Props.check_run_ok",
        "Rbgp.Monitor.Props.bmp_peerdown_after_peerup",
        "Rbgp.Monitor.Props.watch_peerdown_after_peerup",
        "Rbgp.Monitor.Props.watch_view_is_fold",
        "Rbgp.Monitor.Props.consumer_view_or_nothing",
        "Rbgp.Monitor.Props.reachable_cinv",
        "Rbgp.Monitor.Props.consumer_refines_channel",
        "Rbgp.Monitor.Props.reachable_inv",
        "Rbgp.Monitor.Props.snapshot_invariant",
        "Rbgp.Monitor.Props.reconstruct_exact",
        "Rbgp.Monitor.Props.last_event_is_current",
        "Rbgp.Monitor.Props.peerdown_after_peerup",
        "Rbgp.Monitor.Props.apply_snapshot_is_fold",
        "Rbgp.Monitor.Props.run_reachable",
        "Rbgp.Monitor.Props.run_finishes",
        "Rbgp.Monitor.Props.compile_wf",
    ],
    harness=dict(kind="daemon", test="event::verif_event::c18::verif_main"),
    profiles=["debug"],
    n_quick=3000, n_thorough=150000, shards=12,
    nontrivial_re=r"\(hist \(\([0-9wd]|\(\(\) \([0-9wd]|\(whist \(\([0-9wd]",
    rule="random cases: 1-3 shards, 1-3 writer sessions (up / ins / rem over IPv4 and IPv6 prefixes with distinct next hops / "
         "soft-reset-in of any peer from any thread / import-policy change / down, colliding 2x3x2 key domain per writer, prefix "
         "limit 0-2) and 1-2 subscribers (channel subscription with/without snapshot, unsubscribe, re-subscribe, or a real BMP "
         "connection), run under a random schedule at coarse (critical sections atomic, bulk operations yield between shards) or "
         "fine (every scheduling point: before lock, lock acquired, list loaded, guard dropped, before peer_up/peer_down) "
         "granularity; targeted soft-reset races; several sessions going up and down around the subscription point; the purge "
         "class (GR-retaining end, stale/LLGR purges, drop_families); every subscription point of sequential histories; a "
         "malformed stream; thorough tier adds ALL schedules of curated 2-shard x 2-writer x 3-op programs with a snapshot "
         "subscriber, a no-snapshot subscriber, a BMP connection, a prefix limit and an unsubscribe (coarse) and of tiny programs "
         "at fine granularity; non-trivial = some subscription received a route event; distinct = distinct case line",
    expect_tokens=["limit", "(up ", "(down ", "eos", " w", " d", "(fwd (up", "(down 0)) (aps", "t f (ctl", " f t (ctl",
                   "(none none)", "(rows 0 0)", "(hist)", "(bmp ", "(wctl ((up 0) (down 0))", "(wctl ((up 0))", "31", "20",
                   "(mrt ", "(watch ", " t t (whist", " f f (whist", "(aps ((t", "((t) (t))"],
    trusted_base=["model Rbgp/Monitor/Model.lean of daemon/src/table_manager.rs (subscribe/unsubscribe/insert_route/remove_route/"
                  "soft_reset_in/unregister_peer/drop_families/drop_stale_families/mark_llgr_stale/drop_llgr_stale_families/peer_up/"
                  "peer_down) and of bmp.rs BmpClient::serve (apply_snapshot, PeerUp burst, flush_peer_snapshot, send_peer_up/down)",
                  "harness/daemon/c18.rs: deterministic scheduler over the cfg(osrg_rustybgp_verif) scheduling points "
                  "(table_manager::verif_sched: LOCK, ACQUIRED, LOADED, UNLOCKED, REGISTERED, NOTIFY; lock ownership is taken from the "
                  "real guard's ACQUIRED/UNLOCKED reports); a subscriber list used under a shard lock must have the length of the list "
                  "of that moment (LOADED carries it); prefixes chosen per shard by probing the real dealer",
                  "harness/daemon/c18_bmp.rs: the real BmpClient::serve polled to quiescence on a loopback connection (pending with "
                  "nothing new on the wire four polls in a row), its bytes decoded with the repo's BGP parser; for channel subscribers "
                  "the PeerUp/PeerDown message construction of serve's live loop is transcribed and send_peer_up/send_peer_down are real"],
    modelled_not_verified=["memory ordering below the granularity of Mutex / ArcSwap operations (sequential consistency assumed at the "
                           "scheduling points)",
                           "sub-critical-section interleavings of channel sends (events of other shards / other peers landing between "
                           "the pre- and post-policy notification of one insert): they commute in the fold",
                           "the window between subscribers.load() and the sends inside peer_up/peer_down (one atomic step in the model)",
                           "session establishment (on_established) is reduced to session_addrs store + register_peer (with the peer's ADD-PATH families) + peer_up",
                           "that the consumer state machines of the model are what bmp.rs / grpc.rs / mrt.rs do is hypothesis-backed (correspondence run on the real tasks)",
                           "GR/LLGR retention itself (which routes stay, for how long): a retained stale key is skipped by the checker"],
    assumptions=["a peer address is owned by one session task at a time (writer thread i = peer i): sessions of the same peer are sequential",
                 "the BMP-connection clause is judged only when every session announces routes between its up and its down"],
    claimed=True,
)

POLS = ["none", "reject", "tag"]


def w_ops(r, n, nops, structured, writers=None):
    ops = []
    up = False
    if structured and r.chance(4, 5):
        ops.append("up"); up = True
    for _ in range(nops):
        x = r.weighted([("ins", 10), ("rem", 4), ("sr", 2), ("pol", 2), ("down", 2), ("up", 1)])
        if x == "ins":
            if structured and not up:
                ops.append("up"); up = True
            ops.append("(ins %d %d %d %d)" % (r.below(n), r.pick([0, 0, 1, 2]), r.below(2), 1 + r.below(9)))
        elif x == "rem":
            if structured and not up:
                continue
            ops.append("(rem %d %d %d)" % (r.below(n), r.pick([0, 0, 1, 2]), r.below(2)))
        elif x == "pol":
            ops.append("(pol %s)" % r.pick(POLS))
        elif x == "down":
            if structured and not up:
                continue
            ops.append("down"); up = False
        elif x == "sr" and writers and r.chance(1, 2):
            ops.append("(sr %d)" % r.pick(writers))
        elif x == "up":
            if structured and up:
                continue
            ops.append("up"); up = True
        else:
            ops.append(x)
    if structured and up and r.chance(1, 3):
        ops.append("down")
    return ops


def s_ops(r):
    if r.chance(2, 5):
        return r.pick([["bmp"], ["bmp"], ["(sub t)", "bmp"], ["bmp", "(sub f)"], ["mrt"], ["mrt", "(sub t)"],
                       ["(watch t f)"], ["(watch t t)"], ["(watch f f)"], ["(watch f t)"], ["(watch t f)", "mrt"]])
    x = r.below(10)
    if x < 5:
        return ["(sub t)"]
    if x < 6:
        return ["(sub f)"]
    if x < 8:
        return ["(sub t)", "unsub", "(sub t)"]
    if x < 9:
        return ["(sub %s)" % r.pick(["t", "f"]), "unsub"]
    return ["(sub f)", "(sub t)"]


def rand_sched(r, nth, length):
    mode = r.below(3)
    out = []
    if mode == 0:
        out = [r.below(nth) for _ in range(length)]
    elif mode == 1:       # bursts
        while len(out) < length:
            t = r.below(nth)
            out += [t] * (1 + r.below(6))
    else:                 # mostly sequential with a few switches
        t = r.below(nth)
        for _ in range(length):
            if r.chance(1, 6):
                t = r.below(nth)
            out.append(t)
    return out[:length]


def case_str(n, gran, limit, threads, sched):
    if any(o in ("bmp", "mrt") or o.startswith("(watch") for _, ops in threads for o in ops):
        # a BMP connection of a peer without ADD-PATH carries no path ids
        import re as _re
        threads = [(k, [_re.sub(r"^\((ins|rem) (\d+) (\d+) \d+", r"(\1 \2 \3 0", o) for o in ops]) for k, ops in threads]
    threads = [(("wa" if k == "w" and (hash((len(ops), i)) + len(sched)) % 3 == 0 else k), ops) for i, (k, ops) in enumerate(threads)]
    return "(case (cfg %d %d %d) (threads %s) (sched %s))" % (
        n, gran, limit, " ".join("(%s)" % " ".join([k] + ops) for k, ops in threads), " ".join(map(str, sched)))


def gen_random(r):
    n = r.pick([1, 2, 2, 2, 3])
    gran = r.below(2)
    limit = r.pick([0, 0, 0, 1, 2])
    nw = 1 + r.below(3)
    ns = 1 + r.below(2) if nw < 3 else 1
    threads = []
    rev = r.chance(1, 3)
    # peer ids = thread index; writers first unless reversed
    widx = list(range(ns, ns + nw)) if rev else list(range(nw))
    for _ in range(nw):
        threads.append(("w", w_ops(r, n, 1 + r.below(r.pick([3, 5, 8])), r.chance(5, 6), widx)))
    sl = [("s", s_ops(r)) for _ in range(ns)]
    threads = sl + threads if rev else threads + sl
    sched = rand_sched(r, len(threads), r.pick([10, 30, 80]))
    return case_str(n, gran, limit, threads, sched)


def gen_softreset(r):
    """policy flip + soft reset IN racing with a subscriber at fine or coarse granularity"""
    n = r.pick([2, 2, 3])
    gran = r.pick([0, 1, 1])
    ops = []
    for _ in range(1 + r.below(3)):
        ops.append("(ins %d %d %d %d)" % (r.below(n), r.below(2), r.below(2), 1 + r.below(9)))
    ops.append("(pol %s)" % r.pick(["reject", "tag"]))
    ops.append("sr")
    if r.chance(1, 3):
        ops += ["(pol none)", "sr"]
    threads = [("w", ops), ("s", s_ops(r))]
    if r.chance(1, 3):
        threads.insert(1, ("w", w_ops(r, n, 1 + r.below(3), True)))
    # let the writer get into the soft reset, run the subscriber, then interleave
    nins = len([o for o in ops if o.startswith("(ins")])
    lead = (3 * nins if gran == 1 else nins) + 1 + r.below(4)
    si = len(threads) - 1
    sched = [0] * lead + [si] * (2 + r.below(5)) + [r.below(len(threads)) for _ in range(12)]
    return case_str(n, gran, 0, threads, sched)


def gen_peers(r):
    """several sessions going up and down around the subscription point(s): PeerDown for a peer whose
    PeerUp this subscriber never saw while another peer's PeerUp was forwarded, re-subscription, ..."""
    n = r.pick([1, 2])
    nw = 2 + r.below(2)
    threads = []
    for _ in range(nw):
        ops = []
        up = False
        for _ in range(1 + r.below(5)):
            x = r.below(10)
            if not up:
                ops.append("up"); up = True
            elif x < 5:
                ops.append("down"); up = False
            else:
                ops.append("(ins %d %d 0 %d)" % (r.below(n), r.pick([0, 2]), 1 + r.below(9)))
        threads.append(("w", ops))
    threads.append(("s", r.pick([["(sub f)"], ["(sub t)"], ["bmp"], ["bmp"], ["(watch t f)"], ["(watch f f)"], ["mrt"],
                                 ["(sub f)", "unsub", "(sub t)"], ["(sub t)", "unsub", "bmp"]])))
    if r.chance(1, 2):
        threads.reverse()
    return case_str(n, 0, 0, threads, [r.below(len(threads)) for _ in range(8 + r.below(20))])


def gen_purge(r):
    """the purge class: GR-retaining session end, stale / LLGR purges, drop_families, around a subscriber"""
    n = r.pick([1, 2])
    ops = ["up"]
    for _ in range(1 + r.below(3)):
        ops.append("(ins %d %d %d %d)" % (r.below(n), r.pick([0, 1, 2]), r.below(2), 1 + r.below(9)))
    tail = r.pick([["gdown", "purge"], ["gdown", "up", "(ins 0 0 0 3)", "purge"], ["gdown", "dropfam"],
                   ["gdown", "llgr", "lpurge"], ["dropfam"], ["gdown", "up", "purge", "down"], ["llgr", "lpurge"],
                   ["gdown"], ["gdown", "up", "(ins 0 0 0 3)"], ["gdown", "up", "(ins 0 1 0 4)", "(rem 0 0 0)", "purge"]])
    ops += tail
    threads = [("w", ops), ("s", r.pick([["(sub t)"], ["(sub t)"], ["bmp"], ["(sub f)"], ["(watch t f)"]]))]
    if r.chance(1, 3):
        threads.insert(1, ("w", w_ops(r, n, 1 + r.below(3), True, [0, 1])))
    lead = r.below(len(ops) * (2 if n == 2 else 1) + 3)
    sched = [0] * lead + [len(threads) - 1] * (2 + r.below(3)) + [r.below(len(threads)) for _ in range(10)]
    return case_str(n, r.below(2), 0, threads, sched)


def gen_purge_paths(r):
    """two path-ids of one peer on one prefix, a GR (or LLGR) cycle in which the peer re-announces only one of
    them, then the purge: the other path must be withdrawn although its sibling survives"""
    n = r.pick([1, 2])
    k, j = r.below(n), r.pick([0, 1, 2])
    keep = r.below(2)
    ops = ["up", "(ins %d %d 0 %d)" % (k, j, 1 + r.below(9)), "(ins %d %d 1 %d)" % (k, j, 1 + r.below(9))]
    if r.chance(1, 3):
        ops.append("(ins %d %d %d %d)" % (r.below(n), r.pick([0, 1, 2]), r.below(2), 1 + r.below(9)))
    re = "(ins %d %d %d %d)" % (k, j, keep, 1 + r.below(9))
    ops += r.pick([["gdown", "up", re, "purge"], ["gdown", "up", re, "purge"], ["gdown", "llgr", "up", re, "lpurge"],
                   ["gdown", "up", re, "llgr", "lpurge"], ["gdown", "up", re, "purge", "(rem %d %d %d)" % (k, j, keep)],
                   ["gdown", "up", re, "dropfam"]])
    sub = r.pick([["(sub t)"], ["(sub t)"], ["(sub f)"], ["(sub t)", "unsub", "(sub t)"]])
    gran = r.below(2)
    lead = r.below(len(ops) * (3 if gran else 2) + 2)
    sched = [0] * lead + [1] * (2 + r.below(3)) + [r.below(2) for _ in range(6)] + [0] * 10
    return "(case (cfg %d %d 0) (threads (%s %s) (s %s)) (sched %s))" % (
        n, gran, r.pick(["wa", "wa", "w"]), " ".join(ops), " ".join(sub), " ".join(map(str, sched)))


def gen_sequential_points(r):
    """one writer history, a subscriber that subscribes after exactly p writer segments (all p)."""
    n = r.pick([1, 2, 3])
    limit = r.pick([0, 0, 1])
    ops = w_ops(r, n, 3 + r.below(5), True)
    sub = r.pick([["(sub t)"], ["(sub t)"], ["(sub f)"]])
    out = []
    for p in range(0, 3 * len(ops) + 2):
        # threads [w, s]: index 0 = writer while both are enabled
        out.append(case_str(n, 0, limit, [("w", ops), ("s", sub)], [0] * p + [1] * (n + 3)))
    return out


def interleavings(counts):
    """all schedules (as indices into the list of unfinished threads) of threads with the given segment counts"""
    res = []

    def rec(cs, acc):
        alive = [i for i, c in enumerate(cs) if c > 0]
        if not alive:
            res.append(list(acc)); return
        for pos, i in enumerate(alive):
            cs[i] -= 1; acc.append(pos)
            rec(cs, acc)
            acc.pop(); cs[i] += 1
    rec(list(counts), [])
    return res


def segs_coarse(op, n):
    if op == "unsub" or op.startswith("(ins") or op.startswith("(rem") or op.startswith("(pol"):
        return 1
    if op == "up":
        return n + 1
    if op == "mrt" or op.startswith("(watch f"):
        return 2
    if op.startswith("(watch t"):
        return n + 1
    if op == "sr" or op.startswith("(sr"):
        return n
    if op == "down":
        return n + 1
    if op in ("(sub t)", "bmp"):
        return n + 1
    if op == "(sub f)":
        return 2
    raise ValueError(op)


EXH_PROGRAMS = [
    # (writer 0 ops, writer 1 ops) over 2 shards, one subscriber; every coarse schedule
    (["(ins 0 0 0 1)", "(ins 1 0 0 2)", "(rem 0 0 0)"], ["(ins 0 0 0 3)", "(ins 1 0 0 4)", "(rem 1 0 0)"]),
    (["(ins 0 0 0 1)", "(ins 0 0 0 2)", "(rem 0 0 0)"], ["(ins 1 0 0 3)", "(rem 1 0 0)", "(ins 1 0 0 4)"]),
    (["up", "(ins 0 0 0 1)", "down"], ["(ins 0 0 0 3)", "(ins 1 0 0 4)", "(rem 0 0 0)"]),
    (["(ins 0 0 0 1)", "(ins 1 0 0 2)", "down"], ["(ins 0 0 1 3)", "(rem 0 0 1)", "(ins 0 0 1 5)"]),
    (["(ins 1 0 0 1)", "(pol reject)", "sr"], ["(ins 1 0 0 3)", "(ins 0 0 0 4)", "(rem 1 0 0)"]),
    (["(ins 0 0 0 1)", "(ins 1 0 0 2)", "sr"], ["(pol tag)", "(ins 0 0 0 4)", "(pol none)"]),
]


EXH_MORE = [
    # (limit, writer 0, writer 1, subscriber): no-snapshot subscriber, BMP connection, prefix limit, unsubscribe
    (0, ["(ins 0 0 0 1)", "(ins 1 0 0 2)", "(rem 0 0 0)"], ["(ins 0 0 0 3)", "(ins 1 0 0 4)", "(rem 1 0 0)"], ["(sub f)"]),
    (0, ["up", "(ins 0 0 0 1)", "down"], ["(ins 1 2 0 4)"], ["bmp"]),
    (0, ["up", "(ins 0 0 0 1)", "down"], ["(pol tag)", "(sr 0)"], ["(watch t t)"]),
    (0, ["(ins 0 0 0 1)", "(ins 1 2 0 2)", "(rem 0 0 0)"], ["(ins 0 0 0 3)", "(ins 1 0 0 4)"], ["mrt"]),
    (0, ["up", "(ins 1 0 0 1)", "down"], ["(pol tag)"], ["(watch t f)"]),
    (1, ["(ins 0 0 0 1)", "(ins 1 0 0 2)", "(rem 0 0 0)"], ["(ins 0 1 0 3)", "(ins 1 0 0 4)", "(rem 0 1 0)"], ["(sub t)"]),
    (0, ["(ins 0 0 0 1)", "(ins 1 0 0 2)", "(rem 0 0 0)"], ["(ins 0 0 0 3)", "(rem 0 0 0)", "(ins 1 2 0 4)"], ["(sub t)", "unsub"]),
    (0, ["(ins 0 0 0 1)", "(pol reject)", "(rem 0 0 0)"], ["(sr 0)", "(ins 1 0 0 4)"], ["(sub t)"]),
]


def gen_exhaustive():
    out = []
    n = 2
    progs = [(0, w0, w1, ["(sub t)"]) for w0, w1 in EXH_PROGRAMS] + EXH_MORE
    for limit, w0, w1, sub in progs:
        threads = [("w", w0), ("w", w1), ("s", sub)]
        counts = [sum(segs_coarse(o, n) for o in ops) for _, ops in threads]
        for sch in interleavings(counts):
            out.append(case_str(n, 0, limit, threads, sch))
    # fine granularity, tiny programs: every 0/1 string long enough to finish both threads
    tiny = [
        (["(ins 0 0 0 1)"], ["(sub t)"]),
        (["(ins 1 0 0 1)", "(rem 1 0 0)"], ["(sub t)"]),
        (["(ins 0 0 0 1)", "down"], ["(sub t)"]),
        (["(pol reject)", "sr"], ["(sub t)"]),
    ]
    for w, s in tiny:
        for pre in ([], ["(ins 0 0 0 7)", "(ins 1 0 0 8)"]):
            L = 11
            for bits in range(1 << L):
                sch = [(bits >> i) & 1 for i in range(L)]
                out.append(case_str(n, 1, 0, [("w", pre + w), ("s", s)], sch))
    return out


def gen_malformed(r):
    base = gen_random(r)
    x = r.below(6)
    if x == 0:
        return base.replace("(cfg ", "(cfg 9 ", 1)
    if x == 1:
        return base.replace("(ins ", "(ins 7 ", 1)
    if x == 2:
        return base.replace("(threads (w", "(threads (s", 1)
    if x == 3:
        return base[:-2]
    if x == 4:
        return base.replace("(sched", "(sched x", 1)
    return "(case)"


def gen(seed, n, tier):
    r = Rng(seed * 1000003 + 18)
    out = []
    if tier == "thorough":
        out += gen_exhaustive()
    while len(out) < n:
        x = r.below(100)
        if x < 60:
            out.append(gen_random(r))
        elif x < 72:
            out.append(gen_softreset(r))
        elif x < 84:
            out.append(gen_peers(r))
        elif x < 88:
            out.append(gen_purge(r))
        elif x < 90:
            out.append(gen_purge_paths(r))
        elif x < 97:
            out += gen_sequential_points(r)
        else:
            out.append(gen_malformed(r))
    return out[:n] if tier != "thorough" else out
