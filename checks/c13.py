from common import Rng

CONFIG = dict(
    level_text="Kernel-checked Lean theorems about the model of the RTR client (packet RtrCodec::decode/Message::from_bytes and "
               "daemon RpkiClient::serve_inner with the table effects of rpki_reset/insert/withdraw/drop_all, all as repaired): for "
               "every PDU sequence and every fragmentation of its byte stream the VRPs installed for the cache at each End-of-Data "
               "equal the fold of the responses (full set after a reset query incl. after Cache Reset, plus announcements minus "
               "withdrawals after a serial update) (installed_eq_specFold), fragmentation is irrelevant (fragmentation_irrelevant), "
               "every well-formed PDU including router-key/unknown types is consumed whole and the session stays up "
               "(client_progress), a session never touches another cache's VRPs (caches_independent) and leaves none of its own "
               "when it ends by EOF, cancellation or a framing error (session_end_clears); plus the master theorem that the C13 "
               "reference checker accepts every model run.  The model is tied to the code by driving the REAL serve_inner over "
               "tokio::io::duplex with scripted byte streams in arbitrary fragments (several caches interleaved) and diffing the "
               "installed ROA table, RpkiState serial/session id, the queries written and session termination after every step "
               "group, with the reference checker as oracle on the real observations; try_connect's exit path is exercised over a "
               "loopback TCP socket.",
    level_note="Trusted: Lean kernel; axioms propext/Classical.choice/Quot.sound; hand-written model (checked only by the "
               "correspondence stream); harness glue (PDU encoder, polling the client future to quiescence with a flag waker). "
               "Modelled, not verified: tokio scheduling (the client is run until blocked after each fragment; the random branch "
               "order of select! when a soft-reset permit and buffered input are ready together is avoided by the generator), "
               "Framed's read buffering, the C12 table model underneath (verified separately by C12), TCP.",
    lean_modules=["Rbgp.Rtr.Props"],
    theorems=[
        "Rbgp.Rtr.Props.check_run_ok",
        "Rbgp.Rtr.Props.installed_eq_specFold",
        "Rbgp.Rtr.Props.fragmentation_irrelevant",
        "Rbgp.Rtr.Props.client_progress",
        "Rbgp.Rtr.Props.caches_independent",
        "Rbgp.Rtr.Props.session_end_clears",
        "Rbgp.Rtr.Props.decode_consumes_declared_length",
    ],
    harness=dict(kind="daemon", test="rpki::verif_rpki::verif_main"),
    profiles=["debug"],
    n_quick=2500, n_thorough=120000, shards=12,
    nontrivial_re=r"\(roas \(",
    rule="1-3 RTR sessions (caches 1-3; two sessions on ONE cache address either overlapping - hard reset, two caches on a "
         "host - or as a reconnect after the first ended; ROA rows are attributed to sessions by Arc pointer) interleaved step "
         "by step; each stream = reset response (Cache Response, IPv4/IPv6 announcements from a small colliding pool, End of Data) "
         "followed by 0-3 rounds: serial round (optional Serial Notify, Cache Response, announcements and withdrawals of known "
         "and unknown records, duplicates, End of Data), Cache Reset + full response, or a bare Serial Notify; Router Key (type 9), "
         "ASPA (11) and other unknown types with random bodies and Error Reports interleaved; protocol versions 0,1,2 (End of Data "
         "12 or 24 bytes, session id changing after a cache restart); responses abandoned half-way followed by Cache Reset; Router "
         "Key PDUs of realistic size (123 bytes), bodies of 200/5000/65527 bytes (the largest PDU the framing allows); prefix "
         "lengths 0,8,16,24,25,31,32 / 0,32,48,64,112,113,128 with distinct low-order bytes; up to 8 End of Data per stream; "
         "optional malformed tail (length < 8, wrong fixed length, length 65536, huge length, truncated PDU, garbage). Delivery: "
         "random fragment sizes 1..200 (often cut exactly at End-of-Data boundaries, followed by a snapshot; otherwise spanning "
         "them), soft resets after a completed round, session end by EOF or cancellation at any byte offset, bytes queued and the peer gone before the client ran, "
         "client writes made to fail from some point on, snapshots after every group and at the end; try_connect/serve over "
         "loopback TCP: cancel, and the hard-reset sequence of the gRPC handler (old session cancelled, rpki_drop_all with a fresh "
         "Arc, new client on the same address while the old socket is open).  non-trivial = some snapshot shows installed ROAs; distinct = distinct case line",
    expect_tokens=["(serial ", "reset reset", "(done 1", "(6 x", "(4 x", "(roas)", "(tcp cleared", "(tcp-reset ok", "(bad-case)"],
    trusted_base=["model Rbgp/Rtr/Model.lean of packet/src/rpki.rs (from_bytes, parse, RtrCodec::decode) and daemon/src/rpki.rs serve_inner",
                  "model Rbgp/Rpki/Model.lean of RpkiTable underneath (C12)",
                  "harness/daemon/rpki.rs: PDU encoder, duplex plumbing, polling to quiescence; try_connect over loopback TCP"],
    modelled_not_verified=["tokio select!/Notify scheduling (abstracted to run-until-blocked; ambiguous orders avoided)",
                           "tokio_util Framed buffering and decode_eof (EOF with or without residual bytes ends the session)",
                           "the reconnect loop of try_connect beyond its exit path (timers, 10 s back-off); a reconnect re-uses "
                           "RpkiState/Notify/CancellationToken whereas every script session starts from fresh ones",
                           "the gRPC/config triggers of a session end (remove_rpki_client, disable_rpki, reset_rpki): only their effect "
                           "(token cancelled; for the hard reset also rpki_drop_all(Arc::new(addr)) and a new try_connect) is reproduced",
                           "a blocked (as opposed to failing) write of the client"],
    assumptions=["a conforming cache answers a Reset Query with announcements only; streams with withdrawals in a reset response "
                 "or with known-type PDUs spelled as `raw` are compared model-vs-code but not judged by the oracle",
                 "after an Error Report PDU the client may keep or drop the session (RFC 8210 section 10); if it keeps it the "
                 "installed set is still judged"],
    oracle_stats=True,
    expect_judged=["judged-installed", "judged-installed-empty", "judged-kept", "judged-consumed", "judged-ended-cleared"],
    claimed=True,
)

POOL4 = [("0a000000", 8), ("0a010000", 16), ("0a010100", 24), ("0a010180", 25), ("c0a80000", 16), ("0a0101ff", 24),
         ("0a010101", 32), ("0a010102", 32), ("0a010100", 31), ("00000000", 0)]
POOL6 = [("20010db8000000000000000000000000", 32), ("20010db8000100000000000000000000", 48),
         ("20010db80001000000000000000000ff", 48), ("00000000000000000000000000000000", 0),
         ("20010db8000100020000000000000000", 64), ("20010db8000100030000000000000000", 64),
         ("20010db80001000200000000000000a1", 128), ("20010db80001000200000000000000a2", 128),
         ("20010db8000100020003000400050000", 112), ("20010db8000100020003000400058000", 113)]
ASNS = [65001, 65002, 0, 4200000001]


def plen(p):
    k = p[0]
    if k in ("cr", "creset"):
        return 8
    if k == "p4":
        return 20
    if k == "p6":
        return 32
    if k == "eod":
        return 24 if p[1] >= 1 else 12
    if k == "notify":
        return 12
    if k in ("err", "raw"):
        return 8 + len(p[-1]) // 2
    if k == "junk":
        return len(p[1]) // 2
    raise ValueError(k)


def pstr(p):
    k = p[0]
    if k in ("err", "raw", "junk"):
        return "(%s %s)" % (k, " ".join([str(x) for x in p[1:-1]] + ["x" + p[-1]]))
    if k in ("p4", "p6"):
        return "(%s %d %d %d %d x%s %d)" % (k, p[1], p[2], p[3], p[4], p[5], p[6])
    return "(%s %s)" % (k, " ".join(str(x) for x in p[1:]))


def rhex(r, n):
    return "".join("%02x" % r.below(256) for _ in range(n))


def prefix_pdu(r, v, announce, known=None):
    if known and r.chance(3, 4):
        k, a, l, ml, asn = r.pick(known)
    else:
        if r.chance(2, 3):
            a, l = r.pick(POOL4); k = "p4"
        else:
            a, l = r.pick(POOL6); k = "p6"
        ml = r.pick([l, l, min(255, l + 8), 32 if k == "p4" else 128])
        asn = r.pick(ASNS)
    flags = (1 if announce else 0) | (r.pick([0, 0, 0, 2, 254]) if r.chance(1, 10) else 0)
    return (k, v, flags, l, ml, a, asn), (k, a, l, ml, asn)


def big(r):
    """rarely a large body: PDUs well beyond any fixed-size one, up to the largest the framing allows"""
    return r.pick([200, 200, 5000, 65527]) if r.chance(1, 12) else None


def noise(r, v):
    k = r.below(6)
    if k == 0:   # Router Key: 8 header + 20 SKI + 4 ASN + ~91 SubjectPublicKeyInfo
        return ("raw", v, 9, r.below(65536), rhex(r, big(r) or r.pick([115, 115, 0, 4, 26, 100])))
    if k == 1:
        return ("raw", v, r.pick([5, 11, 12, 200, 255]), r.below(65536), rhex(r, big(r) or r.pick([0, 1, 8, 40])))
    if k == 2:   # Error Report: encapsulated PDU + text
        return ("err", v, r.pick([0, 1, 2, 3, 4, 5, 6, 7, 8]), rhex(r, big(r) or r.pick([0, 8, 16, 30, 120])))
    return None


def gen_stream(r):
    v = r.pick([1, 1, 1, 0, 2])
    sess = r.pick([7, 7, 42, 65535, 0])
    serial = r.pick([0, 5, 100, 4294967295])
    pdus = []
    eod_ends = []
    known = []
    def add(p):
        if p is not None:
            pdus.append(p)
    def round_reset(truncated=False):
        nonlocal serial, sess
        if r.chance(1, 6):
            sess = r.pick([7, 8, 42, 65535, 0])       # a restarted cache announces a new session id
        add(("cr", v, sess))
        known.clear()
        for _ in range(r.below(r.pick([2, 4, 7]))):
            p, key = prefix_pdu(r, v, True, known if r.chance(1, 5) else None)
            add(p); known.append(key)
            if r.chance(1, 6):
                add(noise(r, v))
        if r.chance(1, 120):     # non-conforming: a withdrawal inside a reset response
            p, key = prefix_pdu(r, v, False, known)
            add(p)
        if truncated:            # the cache abandons the response (a Cache Reset follows)
            return
        serial = (serial + r.pick([1, 1, 7])) % 4294967296
        add(("eod", v, sess, serial))
        eod_ends.append(sum(map(plen, pdus)))
    if r.chance(1, 12):
        round_reset(truncated=True)
        add(("creset", v))
    round_reset()
    for _ in range(r.pick([0, 1, 1, 2, 3, 6])):
        k = r.below(10)
        if k < 5:
            if r.chance(1, 2):
                add(("notify", v, sess, (serial + 1) % 4294967296))
            add(("cr", v, sess))
            for _ in range(r.below(5)):
                ann = r.chance(1, 2)
                p, key = prefix_pdu(r, v, ann, known if (not ann or r.chance(1, 3)) else None)
                add(p)
                if ann:
                    known.append(key)
                if r.chance(1, 6):
                    add(noise(r, v))
            serial = (serial + 1) % 4294967296
            add(("eod", v, sess, serial))
            eod_ends.append(sum(map(plen, pdus)))
        elif k < 8:
            if r.chance(1, 3):   # Cache Reset in the middle of a response
                if r.chance(1, 2):
                    round_reset(truncated=True)
                else:            # ... of a serial response
                    add(("cr", v, sess))
                    for _ in range(1 + r.below(3)):
                        ann = r.chance(1, 2)
                        p, key = prefix_pdu(r, v, ann, known if not ann else None)
                        add(p)
                        if ann:
                            known.append(key)
            add(("creset", v))
            if r.chance(9, 10):
                round_reset()
        elif k == 8:
            add(("notify", v, sess, r.pick([serial, serial + 1, 0])))
        else:
            add(noise(r, v))
    if r.chance(1, 8):
        k = r.below(7)
        if k == 0:
            add(("junk", "%02x02000000000000" % v))                     # declared length 0
        elif k == 1:
            add(("junk", "%02x0400000000000801020304" % v))              # IPv4 prefix PDU with length 8
        elif k == 2:
            add(("junk", "%02x090000ffffffff" % v + rhex(r, 12)))        # huge length
        elif k == 3:
            add(("junk", "%02x0700070000000c" % max(v, 1) + rhex(r, 4)))  # v1 End of Data with the v0 length
        elif k == 4:
            add(("junk", rhex(r, r.pick([1, 7, 8, 9, 30]))))
        elif k == 5 and r.chance(1, 2):
            add(("junk", "%02x0a000000010000" % v + rhex(r, 24)))        # declared length 65536: one too many
        elif k == 5:
            add(("junk", "%02x04000000000014" % v))                     # truncated IPv4 prefix PDU
        else:
            add(("junk", "%02x0300070000000900" % v))                    # Cache Response with length 9
        if r.chance(1, 2):
            p, _ = prefix_pdu(r, v, True); add(p)
            add(("eod", v, sess, serial + 1))
    return pdus, eod_ends


def gen_case(r):
    nsess = r.pick([1, 1, 2, 2, 3])
    streams, order = [], []
    sids = list(range(1, nsess + 1))
    if r.chance(1, 2):                      # streams listed in a non-ascending sid order
        for i in range(len(sids) - 1, 0, -1):
            j = r.below(i + 1); sids[i], sids[j] = sids[j], sids[i]
    for sid in sids:
        cache = sid if r.chance(2, 3) else r.pick([1, 2])
        pdus, ends = gen_stream(r)
        streams.append(dict(sid=sid, cache=cache, pdus=pdus, ends=ends, total=sum(map(plen, pdus)), pos=0,
                            started=False, ended=False))
    steps = []
    live_cache = {}
    budget = 60
    while budget > 0:
        budget -= 1
        cand = [s for s in streams if not s["ended"]]
        if not cand:
            break
        s = r.pick(cand)
        if not s["started"]:
            if live_cache.get(s["cache"]) and r.chance(1, 2):
                # reconnect: the earlier session on this address ends first (otherwise the two overlap,
                # as after a hard reset or with two caches on one host)
                o = live_cache[s["cache"]]
                if not o["ended"]:
                    steps.append("(end %d %s)" % (o["sid"], r.pick(["eof", "cancel"])))
                o["ended"] = True
                live_cache[s["cache"]] = None
                if r.chance(1, 2):
                    steps.append("(snap)")
            steps.append("(start %d)" % s["sid"])
            s["started"] = True
            live_cache[s["cache"]] = s
            if r.chance(1, 4):
                steps.append("(snap)")
            continue
        if s["pos"] >= s["total"]:
            k = r.below(4)
            if k == 0:
                steps.append("(end %d %s)" % (s["sid"], r.pick(["eof", "cancel"])))
                s["ended"] = True
                if live_cache.get(s["cache"]) is s:
                    live_cache[s["cache"]] = None
                steps.append("(snap)")
            elif k == 1 and s["ends"] and s["pos"] == s["ends"][-1]:
                steps.append("(soft %d)" % s["sid"]); steps.append("(snap)")
            elif all(x["pos"] >= x["total"] or not x["started"] for x in cand) and r.chance(1, 2):
                break
            continue
        if r.chance(1, 40):
            steps.append("(end %d %s)" % (s["sid"], r.pick(["eof", "cancel"])))
            s["ended"] = True
            if live_cache.get(s["cache"]) is s:
                live_cache[s["cache"]] = None
            steps.append("(snap)")
            continue
        if r.chance(1, 60):      # bytes queued, then the peer disappears before the client ran
            n = r.pick([8, 20, 52, 100, 1000])
            steps.append("(sendq %d %d)" % (s["sid"], n))
            steps.append("(end %d eof)" % s["sid"])
            s["pos"] = min(s["total"], s["pos"] + n); s["ended"] = True
            if live_cache.get(s["cache"]) is s:
                live_cache[s["cache"]] = None
            steps.append("(snap)")
            continue
        if r.chance(1, 50):      # from now on the client's writes fail
            steps.append("(wfail %d)" % s["sid"])
            continue
        n = r.pick([1, 3, 8, 12, 20, 24, 32, 50, 100, 200, 1000, 70000])
        if r.chance(1, 3):
            n = 1 + r.below(n)
        nxt = [e for e in s["ends"] if e > s["pos"]]
        cut = False
        if nxt and s["pos"] + n >= nxt[0] and r.chance(4, 5):
            n = nxt[0] - s["pos"]; cut = True
        steps.append("(send %d %d)" % (s["sid"], n))
        s["pos"] = min(s["total"], s["pos"] + n)
        if cut or r.chance(1, 6):
            steps.append("(snap)")
            if cut and r.chance(1, 5):
                steps.append("(soft %d)" % s["sid"]); steps.append("(snap)")
    steps.append("(snap)")
    ss = " ".join("(%d %d (%s))" % (s["sid"], s["cache"], " ".join(pstr(p) for p in s["pdus"])) for s in streams)
    return "(case (streams %s) (steps %s))" % (ss, " ".join(steps))


MALFORMED = [
    "(case (streams (1 1 ((cr 1 7)))) (steps (send 1 8)))",
    "(case (streams (1 1 ((cr 1 7))) (1 2 ())) (steps (start 1)))",
    "(case (streams (1 1 ((p4 1 1 8 8 x0a0000 1)))) (steps (start 1)))",
    "(case (streams (1 1 ((cr 1 7)))) (steps (start 1) (start 1)))",
    "(case (streams (1 1 ((cr 1 7)))) (steps (start 2)))",
    "(case (streams) (steps snap))",
    "(case (streams (1 1 ((cr 1 7)))) (steps (start 1) (sendq 1 8) (snap)))",
    "(case-tcp 65)",
    "case",
]


def gen(seed, n, tier):
    r = Rng(seed * 1000003 + 13)
    out = list(MALFORMED)
    out.append("(case-tcp %d)" % (6 if tier == "quick" else 24))
    out.append("(case-tcp-reset %d)" % (4 if tier == "quick" else 16))
    for _ in range(n):
        out.append(gen_case(r))
    return out
