from common import Rng

CONFIG = dict(
    level_text="Kernel-checked Lean theorems about the model of the RTR client (packet RtrCodec::decode/Message::from_bytes and "
               "daemon RpkiClient::serve_inner with the table effects of rpki_reset/insert/withdraw/drop_all, all as repaired): for "
               "every PDU sequence and every fragmentation of its byte stream the VRPs installed for the cache at each End-of-Data "
               "equal the fold of the responses (full set after a reset query incl. after Cache Reset, plus announcements minus "
               "withdrawals after a serial update) (installed_eq_specFold), fragmentation is irrelevant (fragmentation_irrelevant), "
               "every well-formed PDU including router-key/unknown types is consumed whole and the session stays up "
               "(client_progress), a session never touches another cache's VRPs (caches_independent) and leaves none of its own "
               "when it ends by EOF, cancellation or a framing error (session_end_clears); plus the master theorem that the C13 "
               "reference checker accepts every model run.  The model is tied to the code by driving the REAL serve_inner over "
               "tokio::io::duplex with scripted byte streams in arbitrary fragments (several caches interleaved) and diffing the "
               "installed ROA table, RpkiState serial/session id, the queries written and session termination after every step "
               "group, with the reference checker as oracle on the real observations; try_connect's exit path is exercised over a "
               "loopback TCP socket.",
    level_note="Trusted: Lean kernel; axioms propext/Classical.choice/Quot.sound; hand-written model (checked only by the "
               "correspondence stream); harness glue (PDU encoder, polling the client future to quiescence with a flag waker). "
               "Modelled, not verified: tokio scheduling (the client is run until blocked after each fragment; the random branch "
               "order of select! when a soft-reset permit and buffered input are ready together is avoided by the generator), "
               "Framed's read buffering, the C12 table model underneath (verified separately by C12), TCP.",
    lean_modules=["Rbgp.Rtr.Props"],
    theorems=[
        "Rbgp.Rtr.Props.check_run_ok",
        "Rbgp.Rtr.Props.installed_eq_specFold",
        "Rbgp.Rtr.Props.fragmentation_irrelevant",
        "Rbgp.Rtr.Props.client_progress",
        "Rbgp.Rtr.Props.caches_independent",
        "Rbgp.Rtr.Props.session_end_clears",
        "Rbgp.Rtr.Props.decode_consumes_declared_length",
    ],
    harness=dict(kind="daemon", test="rpki::verif_rpki::verif_main"),
    profiles=["debug"],
    n_quick=2500, n_thorough=120000, shards=12,
    nontrivial_re=r"\(roas \(",
    rule="1-3 RTR sessions (caches 1-3; two sessions on ONE cache address either overlapping - hard reset, two caches on a "
         "host - or as a reconnect after the first ended; ROA rows are attributed to sessions by Arc pointer) interleaved step "
         "by step; each stream = reset response (Cache Response, IPv4/IPv6 announcements from a small colliding pool, End of Data) "
         "followed by 0-3 rounds: serial round (optional Serial Notify, Cache Response, announcements and withdrawals of known "
         "and unknown records, duplicates, End of Data), Cache Reset + full response, or a bare Serial Notify; Router Key (type 9), "
         "ASPA (11) and other unknown types with random bodies and Error Reports interleaved; protocol versions 0,1,2 (End of Data "
         "12 or 24 bytes, session id changing after a cache restart); responses abandoned half-way followed by Cache Reset; Router "
         "Key PDUs of realistic size (123 bytes), bodies of 200/5000/65527 bytes (the largest PDU the framing allows); prefix "
         "lengths 0,8,16,24,25,31,32 / 0,32,48,64,112,113,128 with distinct low-order bytes; up to 8 End of Data per stream; "
         "optional malformed tail (length < 8, wrong fixed length, length 65536, huge length, truncated PDU, garbage); PLUS a "
         "deterministic boundary batch in every run (declared lengths 0/7/8/65535/65536, each fixed-size type one octet short and "
         "one long, header split 7+1, prefix length 0/1/7/8/9/max-1/max/max+1/255 x max-length below/at/above, flags 0..255, AS "
         "0/1/max-1/max, Serial Notify before and after End of Data with equal/other/0/max serial, soft reset before the first End "
         "of Data, empty responses, Cache Reset first/twice/in mid response, every Error Report code with and without body, serial "
         "wrap, versions 0/2/255 and a version change); input classes are counted in evidence.oracle_clause_counts (in-*). Delivery: "
         "random fragment sizes 1..200 (often cut exactly at End-of-Data boundaries, followed by a snapshot; otherwise spanning "
         "them), soft resets after a completed round, session end by EOF or cancellation at any byte offset, bytes queued and the peer gone before the client ran, "
         "client writes made to fail from some point on, snapshots after every group and at the end; try_connect/serve over "
         "loopback TCP: cancel, and the hard-reset sequence of the gRPC handler (old session cancelled, rpki_drop_all with a fresh "
         "Arc, new client on the same address while the old socket is open).  non-trivial = some snapshot shows installed ROAs; distinct = distinct case line",
    expect_tokens=["(serial ", "reset reset", "(done 1", "(6 x", "(4 x", "(roas)", "(tcp cleared", "(tcp-reset ok", "(tcp-reconnect ok", "(bad-case)"],
    trusted_base=["model Rbgp/Rtr/Model.lean of packet/src/rpki.rs (from_bytes, parse, RtrCodec::decode) and daemon/src/rpki.rs serve_inner",
                  "model Rbgp/Rpki/Model.lean of RpkiTable underneath (C12)",
                  "harness/daemon/rpki.rs: PDU encoder, duplex plumbing, polling to quiescence; try_connect over loopback TCP"],
    modelled_not_verified=["tokio select!/Notify scheduling (abstracted to run-until-blocked; ambiguous orders avoided)",
                           "tokio_util Framed buffering and decode_eof (EOF with or without residual bytes ends the session)",
                           "the reconnect loop of try_connect is executed for real (case-tcp-reconnect, paused tokio clock: connection "
                           "closed by the cache, 10 s back-off, reconnect with the same RpkiState and a Reset Query, connect failures, "
                           "cancellation) but modelled only as its expected outcome, not step by step",
                           "the gRPC/config triggers of a session end (remove_rpki_client, disable_rpki, reset_rpki): only their effect "
                           "(token cancelled; for the hard reset also rpki_drop_all(Arc::new(addr)) and a new try_connect) is reproduced",
                           "a blocked (as opposed to failing) write of the client"],
    assumptions=["a conforming cache answers a Reset Query with announcements only; streams with withdrawals in a reset response "
                 "or with known-type PDUs spelled as `raw` are compared model-vs-code but not judged by the oracle",
                 "the client may end the session on receiving a COMPLETE Error Report with a fatal code (any but 2, RFC 8210 section "
                 "10) - at that PDU only: once a snapshot has shown the session up with the report complete it excuses nothing; a "
                 "drop on code 2, on a partly received report or on a later PDU is session-dropped-on-well-formed-stream"],
    oracle_stats=True,
    expect_judged=["judged-installed", "judged-installed-empty", "judged-kept", "judged-consumed", "judged-ended-cleared",
                   # input classes (boundary buckets, counted per case) that every run must contain
                   "in-junk-length-below-8", "in-junk-length-above-65535", "in-junk-fixed-length-one-short",
                   "in-junk-fixed-length-one-long", "in-junk-truncated", "in-pdu-length-8", "in-pdu-length-65535", "in-pdu-longer-than-108",
                   "in-router-key", "in-unknown-type", "in-known-type-as-raw", "in-fragment-below-header-size",
                   "in-v4-plen-0", "in-v4-plen-max-1", "in-v4-plen-max", "in-v4-plen-over-max", "in-v6-plen-0", "in-v6-plen-max-1",
                   "in-v6-plen-max", "in-v6-plen-over-max", "in-maxlen-below-plen", "in-maxlen-eq-plen", "in-maxlen-255",
                   "in-as-0", "in-as-max", "in-flags-other-bits", "in-withdraw", "in-serial-0", "in-serial-max",
                   "in-session-id-0", "in-session-id-max", "in-version-0", "in-version-2", "in-version-3", "in-eod-12-bytes",
                   "in-notify-before-first-end-of-data", "in-notify-after-end-of-data", "in-cache-reset-before-any-data",
                   "in-cache-reset-in-mid-response", "in-empty-first-response", "in-empty-reset-response-after-data",
                   "in-empty-serial-response", "in-five-or-more-end-of-data", "in-two-sessions-one-address", "in-write-failure",
                   "in-soft-reset", "in-end-eof", "in-end-cancel", "in-tcp-reconnect-cycle"] + ["in-error-report-code-%d" % k for k in range(10)],
    claimed=True,
)

POOL4 = [("0a000000", 8), ("0a010000", 16), ("0a010100", 24), ("0a010180", 25), ("c0a80000", 16), ("0a0101ff", 24),
         ("0a010101", 32), ("0a010102", 32), ("0a010100", 31), ("00000000", 0)]
POOL6 = [("20010db8000000000000000000000000", 32), ("20010db8000100000000000000000000", 48),
         ("20010db80001000000000000000000ff", 48), ("00000000000000000000000000000000", 0),
         ("20010db8000100020000000000000000", 64), ("20010db8000100030000000000000000", 64),
         ("20010db80001000200000000000000a1", 128), ("20010db80001000200000000000000a2", 128),
         ("20010db8000100020003000400050000", 112), ("20010db8000100020003000400058000", 113)]
ASNS = [65001, 65002, 0, 4200000001]


def plen(p):
    k = p[0]
    if k in ("cr", "creset"):
        return 8
    if k == "p4":
        return 20
    if k == "p6":
        return 32
    if k == "eod":
        return 24 if p[1] >= 1 else 12
    if k == "notify":
        return 12
    if k in ("err", "raw"):
        return 8 + len(p[-1]) // 2
    if k == "junk":
        return len(p[1]) // 2
    raise ValueError(k)


def pstr(p):
    k = p[0]
    if k in ("err", "raw", "junk"):
        return "(%s %s)" % (k, " ".join([str(x) for x in p[1:-1]] + ["x" + p[-1]]))
    if k in ("p4", "p6"):
        return "(%s %d %d %d %d x%s %d)" % (k, p[1], p[2], p[3], p[4], p[5], p[6])
    return "(%s %s)" % (k, " ".join(str(x) for x in p[1:]))


def rhex(r, n):
    return "".join("%02x" % r.below(256) for _ in range(n))


def prefix_pdu(r, v, announce, known=None):
    if known and r.chance(3, 4):
        k, a, l, ml, asn = r.pick(known)
    else:
        if r.chance(2, 3):
            a, l = r.pick(POOL4); k = "p4"
        else:
            a, l = r.pick(POOL6); k = "p6"
        ml = r.pick([l, l, min(255, l + 8), 32 if k == "p4" else 128])
        asn = r.pick(ASNS)
    flags = (1 if announce else 0) | (r.pick([0, 0, 0, 2, 254]) if r.chance(1, 10) else 0)
    return (k, v, flags, l, ml, a, asn), (k, a, l, ml, asn)


def big(r):
    """rarely a large body: PDUs well beyond any fixed-size one, up to the largest the framing allows"""
    return r.pick([200, 200, 5000, 65527]) if r.chance(1, 12) else None


def noise(r, v):
    k = r.below(6)
    if k == 0:   # Router Key: 8 header + 20 SKI + 4 ASN + ~91 SubjectPublicKeyInfo
        return ("raw", v, 9, r.below(65536), rhex(r, big(r) or r.pick([115, 115, 0, 4, 26, 100])))
    if k == 1:
        return ("raw", v, r.pick([5, 11, 12, 200, 255]), r.below(65536), rhex(r, big(r) or r.pick([0, 1, 8, 40])))
    if k == 2:   # Error Report: encapsulated PDU + text
        return ("err", v, r.pick([0, 1, 2, 3, 4, 5, 6, 7, 8]), rhex(r, big(r) or r.pick([0, 8, 16, 30, 120])))
    return None


def gen_stream(r):
    v = r.pick([1, 1, 1, 0, 2])
    sess = r.pick([7, 7, 42, 65535, 0])
    serial = r.pick([0, 5, 100, 4294967295])
    pdus = []
    eod_ends = []
    known = []
    def add(p):
        if p is not None:
            pdus.append(p)
    def round_reset(truncated=False):
        nonlocal serial, sess
        if r.chance(1, 6):
            sess = r.pick([7, 8, 42, 65535, 0])       # a restarted cache announces a new session id
        add(("cr", v, sess))
        known.clear()
        for _ in range(r.below(r.pick([2, 4, 7]))):
            p, key = prefix_pdu(r, v, True, known if r.chance(1, 5) else None)
            add(p); known.append(key)
            if r.chance(1, 6):
                add(noise(r, v))
        if r.chance(1, 120):     # non-conforming: a withdrawal inside a reset response
            p, key = prefix_pdu(r, v, False, known)
            add(p)
        if truncated:            # the cache abandons the response (a Cache Reset follows)
            return
        serial = (serial + r.pick([1, 1, 7])) % 4294967296
        add(("eod", v, sess, serial))
        eod_ends.append(sum(map(plen, pdus)))
    if r.chance(1, 12):
        round_reset(truncated=True)
        add(("creset", v))
    round_reset()
    for _ in range(r.pick([0, 1, 1, 2, 3, 6])):
        k = r.below(10)
        if k < 5:
            if r.chance(1, 2):
                add(("notify", v, sess, (serial + 1) % 4294967296))
            add(("cr", v, sess))
            for _ in range(r.below(5)):
                ann = r.chance(1, 2)
                p, key = prefix_pdu(r, v, ann, known if (not ann or r.chance(1, 3)) else None)
                add(p)
                if ann:
                    known.append(key)
                if r.chance(1, 6):
                    add(noise(r, v))
            serial = (serial + 1) % 4294967296
            add(("eod", v, sess, serial))
            eod_ends.append(sum(map(plen, pdus)))
        elif k < 8:
            if r.chance(1, 3):   # Cache Reset in the middle of a response
                if r.chance(1, 2):
                    round_reset(truncated=True)
                else:            # ... of a serial response
                    add(("cr", v, sess))
                    for _ in range(1 + r.below(3)):
                        ann = r.chance(1, 2)
                        p, key = prefix_pdu(r, v, ann, known if not ann else None)
                        add(p)
                        if ann:
                            known.append(key)
            add(("creset", v))
            if r.chance(9, 10):
                round_reset()
        elif k == 8:
            add(("notify", v, sess, r.pick([serial, serial + 1, 0])))
        else:
            add(noise(r, v))
    if r.chance(1, 8):
        k = r.below(7)
        if k == 0:
            add(("junk", "%02x02000000000000" % v))                     # declared length 0
        elif k == 1:
            add(("junk", "%02x0400000000000801020304" % v))              # IPv4 prefix PDU with length 8
        elif k == 2:
            add(("junk", "%02x090000ffffffff" % v + rhex(r, 12)))        # huge length
        elif k == 3:
            add(("junk", "%02x0700070000000c" % max(v, 1) + rhex(r, 4)))  # v1 End of Data with the v0 length
        elif k == 4:
            add(("junk", rhex(r, r.pick([1, 7, 8, 9, 30]))))
        elif k == 5 and r.chance(1, 2):
            add(("junk", "%02x0a000000010000" % v + rhex(r, 24)))        # declared length 65536: one too many
        elif k == 5:
            add(("junk", "%02x04000000000014" % v))                     # truncated IPv4 prefix PDU
        else:
            add(("junk", "%02x0300070000000900" % v))                    # Cache Response with length 9
        if r.chance(1, 2):
            p, _ = prefix_pdu(r, v, True); add(p)
            add(("eod", v, sess, serial + 1))
    return pdus, eod_ends


def gen_case(r):
    nsess = r.pick([1, 1, 2, 2, 3])
    streams, order = [], []
    sids = list(range(1, nsess + 1))
    if r.chance(1, 2):                      # streams listed in a non-ascending sid order
        for i in range(len(sids) - 1, 0, -1):
            j = r.below(i + 1); sids[i], sids[j] = sids[j], sids[i]
    for sid in sids:
        cache = sid if r.chance(2, 3) else r.pick([1, 2])
        pdus, ends = gen_stream(r)
        streams.append(dict(sid=sid, cache=cache, pdus=pdus, ends=ends, total=sum(map(plen, pdus)), pos=0,
                            started=False, ended=False))
    steps = []
    live_cache = {}
    budget = 60
    while budget > 0:
        budget -= 1
        cand = [s for s in streams if not s["ended"]]
        if not cand:
            break
        s = r.pick(cand)
        if not s["started"]:
            if live_cache.get(s["cache"]) and r.chance(1, 2):
                # reconnect: the earlier session on this address ends first (otherwise the two overlap,
                # as after a hard reset or with two caches on one host)
                o = live_cache[s["cache"]]
                if not o["ended"]:
                    steps.append("(end %d %s)" % (o["sid"], r.pick(["eof", "cancel"])))
                o["ended"] = True
                live_cache[s["cache"]] = None
                if r.chance(1, 2):
                    steps.append("(snap)")
            steps.append("(start %d)" % s["sid"])
            s["started"] = True
            live_cache[s["cache"]] = s
            if r.chance(1, 4):
                steps.append("(snap)")
            continue
        if s["pos"] >= s["total"]:
            k = r.below(4)
            if k == 0:
                steps.append("(end %d %s)" % (s["sid"], r.pick(["eof", "cancel"])))
                s["ended"] = True
                if live_cache.get(s["cache"]) is s:
                    live_cache[s["cache"]] = None
                steps.append("(snap)")
            elif k == 1 and s["ends"] and s["pos"] == s["ends"][-1]:
                steps.append("(soft %d)" % s["sid"]); steps.append("(snap)")
            elif all(x["pos"] >= x["total"] or not x["started"] for x in cand) and r.chance(1, 2):
                break
            continue
        if r.chance(1, 40):
            steps.append("(end %d %s)" % (s["sid"], r.pick(["eof", "cancel"])))
            s["ended"] = True
            if live_cache.get(s["cache"]) is s:
                live_cache[s["cache"]] = None
            steps.append("(snap)")
            continue
        if r.chance(1, 60):      # bytes queued, then the peer disappears before the client ran
            n = r.pick([8, 20, 52, 100, 1000])
            steps.append("(sendq %d %d)" % (s["sid"], n))
            steps.append("(end %d eof)" % s["sid"])
            s["pos"] = min(s["total"], s["pos"] + n); s["ended"] = True
            if live_cache.get(s["cache"]) is s:
                live_cache[s["cache"]] = None
            steps.append("(snap)")
            continue
        if r.chance(1, 50):      # from now on the client's writes fail
            steps.append("(wfail %d)" % s["sid"])
            continue
        n = r.pick([1, 3, 8, 12, 20, 24, 32, 50, 100, 200, 1000, 70000])
        if r.chance(1, 3):
            n = 1 + r.below(n)
        nxt = [e for e in s["ends"] if e > s["pos"]]
        cut = False
        if nxt and s["pos"] + n >= nxt[0] and r.chance(4, 5):
            n = nxt[0] - s["pos"]; cut = True
        steps.append("(send %d %d)" % (s["sid"], n))
        s["pos"] = min(s["total"], s["pos"] + n)
        if cut or r.chance(1, 6):
            steps.append("(snap)")
            if cut and r.chance(1, 5):
                steps.append("(soft %d)" % s["sid"]); steps.append("(snap)")
    steps.append("(snap)")
    ss = " ".join("(%d %d (%s))" % (s["sid"], s["cache"], " ".join(pstr(p) for p in s["pdus"])) for s in streams)
    return "(case (streams %s) (steps %s))" % (ss, " ".join(steps))


MALFORMED = [
    "(case (streams (1 1 ((cr 1 7)))) (steps (send 1 8)))",
    "(case (streams (1 1 ((cr 1 7))) (1 2 ())) (steps (start 1)))",
    "(case (streams (1 1 ((p4 1 1 8 8 x0a0000 1)))) (steps (start 1)))",
    "(case (streams (1 1 ((cr 1 7)))) (steps (start 1) (start 1)))",
    "(case (streams (1 1 ((cr 1 7)))) (steps (start 2)))",
    "(case (streams) (steps snap))",
    "(case (streams (1 1 ((cr 1 7)))) (steps (start 1) (sendq 1 8) (snap)))",
    "(case-tcp 65)",
    "case",
]


# ---------------------------------------------------------------------------------------------------------
# deterministic boundary batch: every quick run hits each exact boundary of the framing, of the PDU fields and
# of the round structure (the random stream only reaches them now and then)

def one(pdus, steps=None, per_pdu=False):
    """a single-session case: everything in one piece then a snapshot, or PDU by PDU with a snapshot after each"""
    if steps is None:
        if per_pdu:
            steps = ["(start 1)"]
            for p in pdus:
                steps += ["(send 1 %d)" % plen(p), "(snap)"]
        else:
            steps = ["(start 1)", "(send 1 %d)" % (sum(map(plen, pdus)) + 1), "(snap)"]
        steps += ["(end 1 eof)", "(snap)"]
    return "(case (streams (1 1 (%s))) (steps %s))" % (" ".join(pstr(p) for p in pdus), " ".join(steps))


def hdr(v, ty, sess, length):
    return "%02x%02x%04x%08x" % (v, ty, sess, length)


def boundary_cases():
    out = []
    base = [("cr", 1, 7), ("p4", 1, 1, 8, 24, "0a000000", 65001), ("eod", 1, 7, 5)]
    tail = [("cr", 1, 7), ("p4", 1, 1, 16, 16, "0b000000", 65009), ("eod", 1, 7, 6)]
    # A. framing: declared lengths 0, 7, 8, 65535, 65536; every fixed-size type one short and one long
    for ln in (0, 7):
        out.append(one(base + [("junk", hdr(1, 2, 0, ln))] + tail, per_pdu=True))
    out.append(one(base + [("raw", 1, 9, 0, "")] + tail, per_pdu=True))                  # header-only unknown PDU
    out.append(one(base + [("raw", 1, 255, 65535, "ab" * 65527)] + tail))                 # length 65535
    out.append(one(base + [("junk", hdr(1, 9, 0, 65536) + "00" * 16)] + tail))            # length 65536
    for (ty, size) in ((0, 12), (1, 12), (2, 8), (3, 8), (8, 8), (4, 20), (6, 32), (7, 24)):
        for d in (-1, 1):
            ln = size + d
            out.append(one(base + [("junk", hdr(1, ty, 7, ln) + "00" * max(0, ln - 8))] + tail, per_pdu=True))
    out.append(one(base + [("junk", hdr(0, 7, 7, 24) + "00" * 16)] + tail))               # v0 End of Data with the v1 length
    out.append(one(base + [("junk", hdr(1, 7, 7, 12) + "00" * 4)] + tail))                # v1 End of Data with the v0 length
    out.append(one(base + [("raw", 1, 1, 7, "00000005"), ("raw", 1, 2, 0, "")] + tail))   # queries sent BY the cache
    out.append(one(base + tail, steps=["(start 1)", "(send 1 7)", "(snap)", "(send 1 1)", "(snap)", "(send 1 19)", "(send 1 1)",
                                        "(snap)", "(send 1 23)", "(snap)", "(send 1 1)", "(snap)", "(send 1 200)", "(snap)"]))
    # B. prefix PDU fields: flags, prefix length, max length, AS at 0 / 1 / max-1 / max / max+1 / 255
    for fam, w, addr in (("p4", 32, "c0a80101"), ("p6", 128, "20010db8000100020003000400050006")):
        for pl in (0, 1, 7, 8, 9, w - 1, w, w + 1, 255):
            for ml in sorted({0, max(0, pl - 1), pl, min(255, pl + 1), 255}):
                r1 = [("cr", 1, 7), (fam, 1, 1, pl, ml, addr, 65001), ("eod", 1, 7, 5)]
                r2 = [("cr", 1, 7), (fam, 1, 0, pl, ml, addr, 65001), (fam, 1, 1, pl, ml, addr, 65002), ("eod", 1, 7, 6)]
                out.append(one(r1 + r2, per_pdu=(ml == pl)))
        for flags in (0, 1, 2, 3, 254, 255):
            for asn in (0, 1, 4294967294, 4294967295):
                r1 = [("cr", 1, 7), (fam, 1, 1, 8, 8, addr, 7), ("eod", 1, 7, 5)]
                r2 = [("cr", 1, 7), (fam, 1, flags, 16, 24, addr, asn), (fam, 1, flags ^ 1, 8, 8, addr, 7), ("eod", 1, 7, 6)]
                out.append(one(r1 + r2))
    # C. Serial Notify: before the first End of Data; equal / different / 0 / max serial after it
    for serial in (5, 6, 4, 0, 4294967295):
        out.append(one([("notify", 1, 7, serial)] + base + [("notify", 1, 7, serial)] + tail, per_pdu=True))
    # D. a soft reset requested while the first response is still being received
    out.append(one(base + tail, steps=["(start 1)", "(send 1 8)", "(soft 1)", "(snap)", "(send 1 44)", "(snap)", "(soft 1)", "(snap)",
                                        "(send 1 52)", "(snap)"]))
    # E. round structure: empty responses, Cache Reset first / twice / in mid response, no Cache Response, session id change
    empty = [("cr", 1, 7), ("eod", 1, 7, 9)]
    out.append(one(empty + tail, per_pdu=True))
    out.append(one(base + [("creset", 1)] + empty, per_pdu=True))
    out.append(one([("creset", 1)] + base, per_pdu=True))
    out.append(one(base + [("creset", 1), ("creset", 1)] + tail, per_pdu=True))
    out.append(one(base + [("cr", 1, 7), ("p4", 1, 1, 24, 24, "0a010100", 3), ("creset", 1)] + tail, per_pdu=True))
    out.append(one([("cr", 1, 7), ("p4", 1, 1, 24, 24, "0a010100", 3), ("creset", 1)] + tail, per_pdu=True))
    out.append(one([("p4", 1, 1, 8, 24, "0a000000", 65001), ("eod", 1, 7, 5)] + tail[1:], per_pdu=True))
    out.append(one(base + [("cr", 1, 0)] + tail[1:] + [("cr", 1, 65535), ("eod", 1, 65535, 7)], per_pdu=True))
    out.append(one(base + base + [("cr", 1, 7), ("cr", 1, 8)] + tail[1:], per_pdu=True))
    # F. Error Report: every code, with and without body, in mid response and between responses
    for code in (0, 1, 2, 3, 4, 5, 6, 7, 8, 9, 65535):
        for body in ("", "00" * 120):
            out.append(one(base + [("err", 1, code, body)] + tail, per_pdu=True))
            out.append(one(base[:2] + [("err", 1, code, body)] + base[2:] + tail))
    # G. serial number wrap
    out.append(one([("cr", 1, 7), ("p4", 1, 1, 8, 24, "0a000000", 65001), ("eod", 1, 7, 4294967295), ("notify", 1, 7, 0)]
                   + [("cr", 1, 7), ("p4", 1, 1, 16, 16, "0b000000", 65009), ("eod", 1, 7, 0)], per_pdu=True))
    # H. protocol versions 0, 1, 2, 255 and a version change inside the session
    for v in (0, 2, 255):
        out.append(one([("cr", v, 7), ("p6", v, 1, 48, 48, "20010db8000100000000000000000000", 1), ("eod", v, 7, 5),
                        ("raw", v, 9, 0, "00" * 115), ("cr", v, 7), ("p4", v, 0, 8, 8, "0a000000", 1), ("eod", v, 7, 6)], per_pdu=True))
    out.append(one(base + [("cr", 0, 7), ("p4", 0, 1, 16, 16, "0b000000", 65009), ("eod", 0, 7, 6)], per_pdu=True))
    return out


def gen(seed, n, tier):
    r = Rng(seed * 1000003 + 13)
    out = list(MALFORMED)
    out += boundary_cases()
    out.append("(case-tcp %d)" % (6 if tier == "quick" else 24))
    out.append("(case-tcp-reset %d)" % (4 if tier == "quick" else 16))
    out.append("(case-tcp-reconnect %d)" % (6 if tier == "quick" else 32))
    for _ in range(n):
        out.append(gen_case(r))
    return out
