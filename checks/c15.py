import ribgen

CONFIG = dict(
    level_text="Kernel-checked Lean theorems about a model of table/src/lib.rs for ALL well-formed cases and ALL finite histories "
               "of the twelve Table operations in both build profiles: route_stats (received / accepted per peer and family) equal "
               "the recount of the RIB at every reachable state, Table::state equals the recount and no destination is empty, no "
               "statistics subtraction ever underflows (no panic in debug, no wrap in release); the per-session limit counter "
               "(repaired: kept per Source) equals the recount of the prefixes that session holds while the session is in "
               "progress, never wraps, and an accepted prefix that is new to the session never takes it above its maximum; for "
               "peers with a single session (Case.OneSession) the same holds per peer address and the partial master theorem says "
               "the C15 reference checker accepts every such model run; the full-strength statement C15_full is stated and REFUTED "
               "for the model by a concrete witness (the residual open finding: stale paths of a previous session are not counted "
               "against the restarted session's limit).  The model is tied to the real code by running the real Table and the "
               "model on the same generated histories (debug and release) and diffing complete observations; the reference "
               "checker is the oracle on the real observations.",
    level_note="Trusted: Lean kernel; axioms propext/Classical.choice/Quot.sound; the hand-written model (checked only by the "
               "correspondence stream); harness glue, in particular the emulation of the daemon's calling convention for purges "
               "(prefix_counter = None, transcribed from daemon/src/table_manager.rs) next to purges that hand the counter over. "
               "Interpretation: accepted = paths that passed import policy (the repository's documented Add-Path semantics), "
               "received = prefixes with >= 1 path of the peer, limit counter of a session = prefixes with >= 1 path of that "
               "session's Source, configured maximum judged per peer address. OPEN known finding (residual): during a GR/LLGR "
               "helper cycle the stale paths of the previous session are not counted against the restarted session's limit.",
    lean_modules=["Rbgp.Rib.PropsC15", "Rbgp.Rib.PropsCodec"],
    theorems=[
        "Rbgp.Rib.PropsCodec.c15_check_run_ok_partial_of_codec",
        "Rbgp.Rib.PropsC15.check_run_ok_partial",
        "Rbgp.Rib.PropsC15.not_C15_full",
        "Rbgp.Rib.PropsC15.inherited_stale_paths_witness",
        "Rbgp.Rib.PropsC15.stats_eq_recount",
        "Rbgp.Rib.PropsC15.stats_absent",
        "Rbgp.Rib.PropsC15.state_eq_recount",
        "Rbgp.Rib.PropsC15.no_panic",
        "Rbgp.Rib.PropsC15.no_underflow",
        "Rbgp.Rib.PropsC15.limit_counter_ge_recount",
        "Rbgp.Rib.PropsC15.limit_counter_eq_recount",
        "Rbgp.Rib.PropsC15.limit_enforced_session",
        "Rbgp.Rib.PropsC15.limit_signalled",
        "Rbgp.Rib.PropsC15.sessCount_eq_recvCount",
        "Rbgp.Rib.PropsC15.limit_enforced_partial",
    ],
    harness=dict(kind="pt", bin="c15"),
    profiles=["debug", "release"], profile_in_case=True,
    n_quick=1500, n_thorough=120000, shards=12,
    # non-trivial = a limit was signalled, a counter is in use, or a purge / removal touched the statistics
    nontrivial_re=r"limit|\(ctrs \(|\(stats \(\d+ \w+ 0 0\)",
    rule="histories over one Table: sessions with prefix limits 0..3 or none (several peers sharing prefixes, a restarted session "
         "of the same peer address), new / replacement / extra add-path inserts, filtered <-> unfiltered transitions, remove, "
         "drop peer, stale / LLGR marking and the three purges (with the daemon's counter = None convention or with the live "
         "session's counter), limit-exceeded inserts incl. of brand-new prefixes; plus structural mutations; distinct = distinct "
         "case line",
    expect_tokens=["limit", "(ctrs (", "(stats (", " 0 0)", "nochange", "(chs)", "(stale 0", "(llgr 0", "(state 0 0 0)",
                   "(bad-case)", "purge-hit", "restale-rebest", "id-ge-64"],
    trusted_base=["model Rbgp/Rib/Model.lean of table/src/lib.rs",
                  "harness/pt/src/rib.rs (shared with C02/C06): one AtomicU64 per (source, family) is handed to insert / remove "
                  "iff the source declares a limit; purges get the counter named by the case (or None, as the daemon does)"],
    modelled_not_verified=["hash-map iteration order", "u64 overflow of `+= 1` on the statistics (needs 2^64 operations)",
                           "AtomicU64 memory ordering (single-threaded harness)"],
    assumptions=["well-formed case (Case.WF): one family per Source, sources referred to by position",
                 "the limit counter of a session is judged from its first use until its peer is dropped, re-marked stale, or "
                 "purged without a counter (the daemon drops the counter with the session and only purges without a counter "
                 "when no session of the peer is counting)",
                 "one session of a peer is established at a time (C07): between two session ends of (address, family) only one "
                 "Source of that address announces or withdraws; a purge is handed a counter only of the purged peer's only "
                 "session (both codecs reject other cases as bad-case)",
                 "Case.Short (< 2^63 operations) for the counter theorems; Case.OneSession (a limited session is the only "
                 "source of its peer address) for the per-address limit clause and the partial master theorem"],
    claimed=True,
)


def gen(seed, n, tier):
    return ribgen.gen(seed, n, tier, "C15")
