CONFIG = dict(
    claimed=True,
    level_text="PRECISELY: the theorems prove framing, lengths, headers, address-family flags, the one-PDU-per-record "
               "splitting, table-dump counts / attribute lengths / peer indexes for every input of the domain; that an "
               "embedded BGP PDU 'parses back to the monitored prefixes / attributes / next hop' is NOT proved here: it is the "
               "hypothesis embOk of every round-trip theorem (C04's subject) and is checked only by the oracle on the REAL "
               "bytes with the REAL decoder. Kernel-checked Lean theorems about a byte-level model of the BMP and MRT encoders (BmpCodec::encode, "
               "PerPeerHeader, PeerDownReason, MrtCodec::encode, MpHeader, encode_table_dump incl. Attribute::encode and the "
               "prefix encoder): for EVERY input of the daemon's domain the reference checker - structural readers written "
               "from RFC 7854 / RFC 6396 / RFC 8050 / RFC 4271 - accepts the model's output (master theorem), i.e. common-header "
               "length = bytes that follow, V flag / AFI <=> width and content of the address fields, embedded PDU(s) complete "
               "BGP frames - one per Route Monitoring / BGP4MP record, also when the UPDATE had to be split (full-strength "
               "round-trip theorems since the S29 repair) - that the repository's decoder reads back as the monitored "
               "content, PEER_INDEX_TABLE count = "
               "entries, RIB entry count / attribute-length fields exactly cover well-formed TLVs, peer indexes in range. "
               "Daemon level: the converters of daemon/src/bmp.rs / mrt.rs (adj_rib_in/out_to_bmp_update, loc_rib_to_bmp, "
               "adj_rib_in_to_mrt, session_down_to_bmp, apply_snapshot+flush_peer_snapshot, dump_table) are modelled as event -> "
               "records maps; theorems: they emit exactly the wanted records, stay in the packet-level domain, and every peer "
               "index written by dump_table is in range and points at the path's own peer, no path is dropped (daemon-level "
               "master theorem). The model is tied to the code by running the REAL converters and codecs (rustybgpd test "
               "binary, hooks in main.rs/bmp.rs/mrt.rs) and the model on the same generated events and records (all kinds, "
               "several through one codec into one buffer; dump_table on a real TableManager) and diffing the bytes; the "
               "reference checker is the oracle on the REAL bytes, with the REAL decoder's reading of every embedded frame "
               "supplied per case.",
    level_note="Trusted: Lean kernel; axioms propext/Quot.sound; the hand-written model (checked only by the correspondence "
               "stream); harness glue (case decoding, stand-alone PeerCodec that produces the embedded bytes, parse_message + "
               "validate_message as the decoder table). The embedded BGP bytes are an opaque input of the model: that "
               "PeerCodec frames and round-trips them is C04's subject and a hypothesis (embOk) of the theorems, checked "
               "for real by the oracle. Modelled, not verified: MRT BGP4MP timestamps (SystemTime::now, zeroed by the "
               "harness); StatsReports/Termination/RouteMirroring bodies (never emitted by the daemon; only the common "
               "header is checked); NLRI families other than IPv4/IPv6 unicast+multicast are not generated; the daemon-side "
               "converters (adj_rib_in_to_bmp_update, loc_rib_to_bmp, flush_peer_snapshot, adj_rib_in_to_mrt, dump_table) "
               "are read, not run: the domain predicate Spec.inDomain transcribes what they can pass.",
    lean_modules=["Rbgp.Mon2.Props"],
    theorems=[
        "Rbgp.Mon2.Props.check_run_ok",
        "Rbgp.Mon2.Props.run_no_panic",
        "Rbgp.Mon2.Props.bmp_msg_len_exact",
        "Rbgp.Mon2.Props.bmp_len_exact",
        "Rbgp.Mon2.Props.bmp_vflag_iff_v6",
        "Rbgp.Mon2.Props.bmp_embedded_roundtrip_full",
        "Rbgp.Mon2.Props.bmp_embedded_roundtrip_single",
        "Rbgp.Mon2.Props.bmp_peer_up_ok",
        "Rbgp.Mon2.Props.bmp_peer_down_ok",
        "Rbgp.Mon2.Props.mrt_record_len_exact",
        "Rbgp.Mon2.Props.mrt_len_exact",
        "Rbgp.Mon2.Props.mrt_afi_matches_addrs",
        "Rbgp.Mon2.Props.mrt_embedded_roundtrip",
        "Rbgp.Mon2.Props.mrt_embedded_roundtrip_full",
        "Rbgp.Mon2.Props.tabledump_counts_consistent",
        "Rbgp.Mon2.Props.peer_index_count",
        "Rbgp.Mon2.Props.rib_entry_attr_length",
        "Rbgp.Mon2.Props.converters_emit_wanted",
        "Rbgp.Mon2.Props.daemon_check_run_ok",
        "Rbgp.Mon2.Props.dump_peer_index_consistent",
        "Rbgp.Mon2.Props.dump_entry_count_consistent",
    ],
    # the oracle is vacuous outside Spec.inDomain / DSpec.inDomain: the driver's `stats` mode counts judged vs
    # out-of-domain cases (and the record kind that causes it) into evidence.coverage.oracle_clause_counts;
    # `judged` must be non-zero (expect_judged) and the out-of-domain share is meant to stay below the bound
    # (generator: ~8-12 %; check reads only expect_judged, the bound is for the reader of the evidence)
    oracle_stats=True, expect_judged=["judged"], max_out_of_domain_share=0.15,
    harness=dict(kind="daemon", test="event::verif_event::c19::verif_main"),
    profiles=["debug"],
    n_quick=3000, n_thorough=12000, shards=12,
    nontrivial_re=r"bmp-rm|bmp-up|bmp-down|bmp-init|mrt-mp|td-rib|td-peers|ev-",
    rule="harness-side generator (needs the real BGP encoder/decoder and a real TableManager): cases of 1-4 items pushed through ONE "
         "BmpCodec / MrtCodec / encode_table_dump into ONE buffer; ~half of the items are daemon events converted by the REAL "
         "daemon code (live Adj-RIB-In pre/post and Adj-RIB-Out pre/post route monitoring, Loc-RIB, MRT update, peer down "
         "for all 7 SessionDownReason shapes, snapshot flush of 0..6 announce/withdraw changes of colliding prefixes from the "
         "flushed and from foreign peers, the Loc-RIB Peer Up (loc_rib_peer_up), dump_table of 0..4 peers (sometimes two sessions sharing an address) x 0..3 IPv4 + 0..3 IPv6 prefixes x 1..3 paths, and of 256..305 peers), and END-TO-END sessions: a real PeerSession (accept_connection, run_select, on_established, "
         "finish_session over loopback TCP, rig.rs) on a real TableManager observed by the REAL BmpClient::serve (policy "
         "all) connected before and/or while the session is up and by the REAL MrtDumper::serve (update dump to a file), with and without ADD-PATH, 0..6 announce/withdraw UPDATEs; "
         "the rest packet-level records (also VPNv4, labeled IPv4, flowspec IPv4 and EVPN NLRI built by the real decoder): all BMP kinds (route monitoring reach/unreach/EoR, peer up with "
         "arbitrary capability sets incl. >255 bytes, peer down with all 5 reasons, initiation TLVs, stats/termination/"
         "mirroring), BGP4MP with and without add-path, TABLE_DUMP_V2 dumps (0..300 peers, 0..15 entries, attribute blocks "
         "0..65536 bytes); IPv4 and IPv6 peers, local addresses and next hops incl. mixed and link-local pairs; Loc-RIB and "
         "post-policy / Adj-RIB-Out headers; NLRI counts 0,1..4,20 and around/beyond one 4096-byte frame; attribute sets up "
         "to >4096 bytes; values from small colliding pools and field maxima; ~8% of the cases lie outside the daemon's "
         "domain (V bit passed by the caller, 2-byte-AS MRT header, mixed-family MRT addresses, masks >32/128, peer index out "
         "of range, lengths that overflow their field) to pin the model there too; non-trivial = any record with a body; "
         "distinct = distinct case line; corpus/C19/seed-boundaries.case pins, in every run, the exact boundaries of every numeric "
         "field and length form (AS 0/65535/65536/max, distinguisher and timestamp maxima, TLV 0/255/256/65535/65536, prefix "
         "lengths 0/1/7/8/9/31/32/33 and 0/1/63/64/65/127/128/129, attribute values of 255/256 bytes with and without the stored "
         "extended-length bit, attribute blocks of 65535/65536 bytes, 65535/65536 peers and entries, a non-UPDATE message in a "
         "route-monitoring item)",
    expect_tokens=["bmp-rm", "bmp-up", "bmp-down", "bmp-init", "bmp-stats", "bmp-term", "bmp-mirror", "mrt-mp", "td-peers",
                   "td-rib", "peer-v4", "peer-v6", "loc-rib", "flags-0", "flags-64", "flags-16", "flags-80", "flags-128",
                   "ap-on", "ap-off", "reach", "unreach", "eor", "multi-frame", "local-v4", "local-v6",
                   "reason-1", "reason-2", "reason-3", "reason-4", "reason-5", "tlvs-0", "tlvs-3", "afi-v4", "afi-v6",
                   "mixed-local", "asn2", "peers-0", "peers-few", "peers-many", "ents-0", "ents-few", "ents-many",
                   "rib4", "rib6", "attrlen-0", "attrlen-some", "attrlen-max", "attrlen-over", "(panic)",
                   "ev-rm", "ev-out", "ev-loc", "ev-mrt", "ev-down", "ev-locup", "ev-flush", "ev-dump", "dpeers-256+",
                   "ev-live", "early-serve", "late-serve", "lacts-0", "lacts-3",
                   # exact boundaries (corpus/C19/seed-boundaries.case guarantees them in every run)
                   "asn-0", "asn-65535", "asn-65536", "asn-max", "dist-max", "ts-max",
                   "tlv-0", "tlv-255", "tlv-256", "tlv-65535", "tlv-over",
                   "mask-0", "mask-part", "mask-octet", "mask-full", "adata-255", "adata-256",
                   "peers-65535+", "ents-65535+", "pre", "post",
                   "sess-none", "sess-hold", "sess-fsm", "sess-admin", "sess-io", "sess-remote", "sess-local",
                   "fmsgs-0", "fmsgs-2", "fmsgs-4", "dpeers-0", "dpeers-1", "dpeers-2", "dpeers-4", "dchg4-0", "dchg4-3",
                   "dchg6-0", "dchg6-3"],
    trusted_base=["model Rbgp/Mon2/Model.lean of packet/src/bmp.rs (BmpCodec::encode, PerPeerHeader::encode, "
                  "PeerDownReason::encode), packet/src/mrt.rs (MrtCodec::encode, MpHeader::encode, encode_table_dump, "
                  "write_mrt_record, write_rib_entries, encode_nexthop_attr, encode_mrt_mp_reach_ipv6) and packet/src/bgp.rs "
                  "(Attribute::encode, Ipv4Net/Ipv6Net::encode)",
                  "model Rbgp/Mon2/DModel.lean of the converters in daemon/src/bmp.rs (adj_rib_in_to_bmp_update, "
                  "adj_rib_out_to_bmp_update, loc_rib_to_bmp, session_down_to_bmp, apply_snapshot, flush_peer_snapshot) and "
                  "daemon/src/mrt.rs (adj_rib_in_to_mrt, dump_table)",
                  "harness/daemon/c19.rs (included under the event/mod.rs hook; + c19_bmp.rs, c19_mrt.rs inside the modules; "
                  "rig.rs for sessions): ev-live items EXECUTE on_established -> TableManager -> every arm of BmpClient::serve "
                  "(Initiation messages are removed after a sanity check, wall-clock timestamps and TCP ports zeroed, the "
                  "embedded PDUs of the model are read off the real stream: their content is judged by the oracle only); for "
                  "the single-event items (ev-rm/out/down/flush) the PerPeerHeader::new calls of the serve loop are transcribed; flush_peer_snapshot's messages are sorted by (family, NLRI, path "
                  "id) after checking that every route precedes every End-of-RIB; dump_table runs on a TableManager(2 shards) "
                  "filled by insert_route, its wall-clock timestamps are zeroed by a 30-line TABLE_DUMP_V2 walker",
                  "harness/common/c19_core.rs: the embedded BGP bytes of a case are produced by a stand-alone PeerCodec::new() "
                  "configured like the one inside BmpCodec/MrtCodec (set_family(addpath_tx)); the decoder table of a case is "
                  "PeerCodec::parse_message + validate_message on every frame with the record's add-path setting; `run` "
                  "re-derives both and answers (bad-case) if the case line disagrees",
                  "RFC numbers used by the spec from memory (no network): BMP v3 message types and 42-byte per-peer header "
                  "(RFC 7854), MRT types 13/16, BGP4MP subtypes 1/4 (RFC 6396) and 8/9 (RFC 8050), TABLE_DUMP_V2 subtypes 1/2/4"],
    modelled_not_verified=["the embedded BGP messages (opaque bytes; C04)", "MRT BGP4MP timestamp (wall clock, zeroed)",
                           "bodies of StatsReports / Termination / RouteMirroring (the encoder writes none; the daemon never sends them)",
                           "Attribute::encode for numeric attributes whose stored flags carry the extended-length bit (put_fixed_len): "
                           "modelled, but not reachable through the public constructors used by the harness",
                           "hash order of flush_peer_snapshot and table order of collect_loc_rib_paths (see level_note)",
                           "MrtDumper::run_loop is run (ev-live: update dump, one file) but not its timer-driven file rotation nor serve_table; BmpClient::serve is run only with policy `all` and one IPv4 eBGP peer; its Loc-RIB snapshot loop never meets a destination without best path"],
    assumptions=["a monitored UPDATE has at least one NLRI and (unicast/multicast) a next hop; its attributes are in the "
                 "image of Attribute::decode", "peer and local address of a session are of one family (one TCP socket)",
                 "the caller never sets the V bit in PerPeerHeader.flags (daemon: 0, L, O, L|O)",
                 "MpHeader.is_asn4 = true (adj_rib_in_to_mrt)"],
)
