CONFIG = dict(
    level_text="Kernel-checked Lean theorems about the model of the UPDATE arm of parse_message (shared with C03) and of "
               "validate_message/validate_update, for every byte string, codec, profile and peer kind: whatever UPDATE the "
               "parser returns, validate_update produces a Message list accepted by the parsed-level reference checker "
               "written from the property text (treat-as-withdraw whenever the TYPE of a reported attribute is not "
               "discardable, an unrecognised well-known attribute or a mandatory attribute is missing: no route announced and "
               "every announced prefix withdrawn; withdrawals always passed on; a reported attribute never attached to an "
               "announced route; LOCAL_PREF/ORIGINATOR_ID/CLUSTER_LIST never attached for an external peer); complete finite "
               "classification tables (all type codes x all flag octets); a reset only from the section lengths, a repeated MP "
               "attribute or the NLRI. Byte level (check_run_ok_full): for EVERY codec, profile, peer kind, valid UPDATE and "
               "RFC 7606 corruption list of the case language (USpec.wfCase; decidable, non-vacuous: nonvacuous_full) the "
               "byte-level reference checker (valid UPDATE + corruption list -> allowed outcomes) accepts what the model makes of "
               "the rendered bytes: never a panic or a stall, withdrawals kept, a reset only for a case whose damage touches the "
               "block framing / NLRI location, treat-as-withdraw whenever a class demands it, a discardable malformed attribute "
               "never on an announced route, the second copy of a duplicated attribute never believed, a reset only with an UPDATE "
               "Message Error code; in the cases whose framing is damaged (a reset is acceptable there) an attribute IN FRONT of "
               "the damage that demands treat-as-withdraw still forbids announcing the route (weak_prefix clause). The "
               "property's attribute classes are proved equal, row by row, to a table taken from the documents that define each "
               "type (classification_table_rfc). The same checker is the "
               "oracle on the real code for every generated case, and model and real code are diffed on the rendered bytes and "
               "the full Message list. END-TO-END half (check_e2e_ok): the same classification read off the Adj-RIB-In after the "
               "real receive path: a live session of harness/daemon/rig.rs (eBGP / iBGP / confederation member, 2- or 4-octet "
               "AS, ADD-PATH receive), OLD routes installed for the withdrawn (and optionally the announced) prefixes, the "
               "rendered UPDATE written on the socket, run_select -> try_parse -> validate_message -> is_as_loop -> rx_msg -> "
               "rx_update -> TableManager insert/remove; observation = reset (NOTIFICATION code) or the peer's Adj-RIB-In; "
               "model = packet-level model + the inserts / removals of rx_update (with the LOCAL_PREF injected for internal "
               "peers); a route that is not an OLD one = announced with these attributes, a prefix not in the table = "
               "withdrawn; proved for all cases and diffed / judged on the real daemon.",
    level_note="Trusted: Lean kernel; axioms propext/Classical.choice/Quot.sound; hand-written model (checked only by the "
               "correspondence stream); the two renderers (Lean `render`, Rust harness) that turn (valid UPDATE, corruptions) "
               "into bytes - they are diffed byte for byte on every case; the byte-level oracle's own RFC tables (attribute "
               "classes, value syntax) and its well-formedness predicate wfCase, which includes by-construction facts of the "
               "rendered item list (structOk: octet ranges, first occurrence, dup right after its first copy, MP values as "
               "rendered; among generated cases it rejects only a repeated unrecognised type, 22 of 20000). Out of scope: "
               "end-to-end RIB effect (PeerSession::rx_msg / Table), attribute bodies of PREFIX_SID / TUNNEL_ENCAP / BGP-LS "
               "(opaque at this layer), families other than IPv4/IPv6 unicast+multicast.",
    lean_modules=["Rbgp.Wire.UpdateProps"],
    theorems=[
        "Rbgp.Wire.UProps.update_validated_ok",
        "Rbgp.Wire.UProps.validate_check_ok",
        "Rbgp.Wire.UProps.check_run_ok_full",
        "Rbgp.Wire.UProps.nonvacuous_full",
        "Rbgp.Wire.UProps.nonvacuous_weak_prefix",
        "Rbgp.Wire.UProps.check_e2e_ok",
        "Rbgp.Wire.UProps.nonvacuous_e2e",
        "Rbgp.Wire.UProps.taw_no_reach",
        "Rbgp.Wire.UProps.must_taw_is_taw",
        "Rbgp.Wire.UProps.withdrawals_preserved",
        "Rbgp.Wire.UProps.discard_removes_attr",
        "Rbgp.Wire.UProps.discard_removes_attr_parsed",
        "Rbgp.Wire.UProps.reach_attrs",
        "Rbgp.Wire.UProps.ebgp_filters_ibgp_attrs",
        "Rbgp.Wire.UProps.classification_table_types",
        "Rbgp.Wire.UProps.classification_table_flags",
        "Rbgp.Wire.UProps.classification_table",
        "Rbgp.Wire.UProps.classification_table_rfc",
        "Rbgp.Wire.UProps.reset_only_if_nlri_unlocatable",
        "Rbgp.Wire.UProps.attr_loop_reset_only_duplicate_mp",
        "Rbgp.Wire.UProps.nonvacuous_discard",
    ],
    harness=dict(kind="pt", bin="c05"),
    # (e2e ..) case lines go to the daemon-side stream (harness/daemon/c05.rs over rig.rs), everything else to the pt binary
    harnesses=[dict(match=r"^\(e2e ", kind="daemon", test="event::verif_event::c05::verif_main"),
               dict(match=".", kind="pt", bin="c05")],
    profiles=["debug", "release"],
    profile_in_case=True,
    n_quick=6000, n_thorough=300000, shards=12,
    nontrivial_re=r"\(reset |\(unreach |\(reach ",
    rule="case = (codec, eBGP?, valid UPDATE u, corruption list c): u = legacy withdrawn / legacy NLRI / MP_REACH (IPv6 with 16- "
         "or 32-byte next hop, or IPv4-in-MP) / MP_UNREACH over small colliding prefix pools, with ORIGIN, AS_PATH (2- or "
         "4-octet per session), NEXT_HOP and a random subset of MED, LOCAL_PREF, ATOMIC_AGGREGATE, AGGREGATOR (6/8), COMMUNITIES, "
         "ORIGINATOR_ID, CLUSTER_LIST, EXT/LARGE COMMUNITIES, AIGP, AS4_PATH, AS4_AGGREGATOR, PREFIX_SID; c = 0-3 of: flags "
         "(each Optional/Transitive conflict, partial, extended-length), value replaced by a type-specific malformed value "
         "(bad length, ORIGIN > 2, bad segment type / count, AIGP TLV length, ...), length field only, duplicate (same / "
         "different value), omission, attribute-block truncation by 0-8 bytes, appended unrecognised attribute of each flag "
         "class, bad legacy NLRI prefix length; codec = IPv4/IPv6 unicast with AddPath, extended message, 2-octet AS; both sides "
         "render the bytes themselves. Also: TUNNEL_ENCAP (23) and BGP-LS (29, sometimes > 255 bytes with extended length), a "
         "260-byte COMMUNITIES value, MP families IPv4/IPv6 multicast besides unicast; the harness negotiates ADD-PATH so that "
         "the send direction differs from the receive direction in about half of the codecs. END-TO-END stream ((e2e ..) lines, "
         "daemon harness): ~260 systematic cases (one UPDATE with 12 attribute types; each attribute x {3 flag conflicts, "
         "partial bit, omitted, value one byte too long, duplicate}; NEXT_HOP omitted + a malformed optional non-transitive "
         "attribute; truncation; unknown attributes; with and without a second family in MP_REACH; eBGP / iBGP / confederation "
         "peers, announced prefixes installed beforehand or not) + 160 random cases of the packet-level generator wrapped "
         "with a peer kind. non-trivial = the outcome is a reset or contains a reach/unreach message; distinct = "
         "distinct case line",
    expect_tokens=["(reset 3 1 ", "(reset 3 9 ", "(reach 65537 ", "(reach 131073 ", "(unreach 65537 ", "(unreach 131073 ",
                   "(ok)", " opq ", " val ", "(eor "],
    trusted_base=["end-to-end stream: harness/daemon/c05.rs + rig.rs (remote speaker: OPEN with the codec's capabilities, the UPDATE "
                  "installing the OLD routes, clean-up withdrawals between cases that share a session; listing through "
                  "TableManager::collect_paths(AdjIn)); model lean/Rbgp/Wire/E2E.lean of rx_update's table updates",
                  "model lean/Rbgp/Wire/{Model,Update}.lean of packet/src/bgp.rs parse_message UPDATE arm + validate_update",
                  "the two renderers of (valid UPDATE, corruptions): lean/Rbgp/Wire/Update.lean `render` and harness/pt/src/bin/"
                  "c05.rs `render` (diffed byte for byte on every case)",
                  "the byte-level reference checker lean/Rbgp/Wire/UpdateSpec.lean `check` (oracle on the real code; its agreement "
                  "with the model is theorem check_run_ok_full)"],
    modelled_not_verified=["end-to-end stream: the AS-loop filter and the ORIGINATOR_ID / CLUSTER_LIST loop check of rx_update run "
                           "but never fire (local AS / router id chosen outside the generated attribute pools); the best-path "
                           "/ Loc-RIB side of TableManager is not observed (Adj-RIB-In only); next hops are not in the listing; "
                           "rig.rs transcribes session_loop's preamble and tail; cases whose legacy withdrawal is re-announced in "
                           "MP_REACH of the same UPDATE, duplicates of LOCAL_PREF on internal sessions and (in cases with damaged "
                           "framing) the fate of the withdrawals are not judged by the end-to-end checker",
                           "judged by the model/implementation diff only, not by the oracle: a duplicated AS_PATH / AGGREGATOR / "
                           "AS4_* (stored re-encoded) or NEXT_HOP (not in the attribute vector); an `(ok)` without any message "
                           "when nothing demands treat-as-withdraw (a silently dropped valid UPDATE)",
                           "is_as_loop filtering between validate_message and rx_msg",
                           "attribute bodies of PREFIX_SID, TUNNEL_ENCAP, BGP-LS (not parsed at this layer)"],
    assumptions=["received bytes are octets (< 256)", "families in a codec are distinct"],
    oracle_stats=True,
    expect_judged=["e2e-judged", "e2e-kind:ebgp", "e2e-kind:ibgp", "e2e-kind:confed", "e2e-pre:true", "e2e-pre:false",
                   "e2e-class:must-taw", "e2e-class:weak", "e2e-class:other", "e2e-outcome:fresh-route",
                   "e2e-outcome:no-fresh-route", "e2e-outcome:reset",
                   "judged", "judged-clean", "judged-must-taw", "judged-discard-class-withdrawn", "judged-dup",
                   "judged-weak-only", "judged-weak-prefix-taw", "outcome-reset", "outcome-announced", "outcome-withdrawn",
                   "has-taw-or-reset"],
    claimed=True,
)
