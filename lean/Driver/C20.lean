import Rbgp.Drv
import Rbgp.C20.Driver
def main (args : List String) : IO UInt32 := Rbgp.Drv.mainWith Rbgp.C20.handler args
