import Rbgp.Drv
import Rbgp.C13.Driver
def main (args : List String) : IO UInt32 := Rbgp.Drv.mainWith Rbgp.C13.handler args
