import Rbgp.Drv
import Rbgp.C10.Driver
def main (args : List String) : IO UInt32 := Rbgp.Drv.mainWith Rbgp.C10.handler args
