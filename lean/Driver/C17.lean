import Rbgp.Drv
import Rbgp.C17.Driver
def main (args : List String) : IO UInt32 := Rbgp.Drv.mainWith Rbgp.C17.handler args
