import Rbgp.Drv
import Rbgp.C18.Driver
def main (args : List String) : IO UInt32 := Rbgp.Drv.mainWith Rbgp.C18.handler args
