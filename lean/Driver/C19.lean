import Rbgp.Drv
import Rbgp.C19.Driver
def main (args : List String) : IO UInt32 := Rbgp.Drv.mainWith Rbgp.C19.handler args
