import Rbgp.Drv
import Rbgp.C12.Driver
def main (args : List String) : IO UInt32 := Rbgp.Drv.mainWith Rbgp.C12.handler args
