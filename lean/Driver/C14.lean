import Rbgp.Drv
import Rbgp.C14.Driver
def main (args : List String) : IO UInt32 := Rbgp.Drv.mainWith Rbgp.C14.handler args
