import Rbgp.Drv
import Rbgp.C06.Driver
def main (args : List String) : IO UInt32 := Rbgp.Drv.mainWith Rbgp.C06.handler args
