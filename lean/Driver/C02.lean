import Rbgp.Drv
import Rbgp.C02.Driver
def main (args : List String) : IO UInt32 := Rbgp.Drv.mainWith Rbgp.C02.handler args
