import Rbgp.Drv
import Rbgp.C15.Driver
def main (args : List String) : IO UInt32 := Rbgp.Drv.mainWith Rbgp.C15.handler args
