import Rbgp.Drv
import Rbgp.C04.Driver
def main (args : List String) : IO UInt32 := Rbgp.Drv.mainWith Rbgp.C04.handler args
