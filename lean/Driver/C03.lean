import Rbgp.Drv
import Rbgp.C03.Driver
def main (args : List String) : IO UInt32 := Rbgp.Drv.mainWith Rbgp.C03.handler args
