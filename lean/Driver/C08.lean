import Rbgp.Drv
import Rbgp.C08.Driver
def main (args : List String) : IO UInt32 := Rbgp.Drv.mainWith Rbgp.C08.handler args
