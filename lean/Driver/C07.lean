import Rbgp.Drv
import Rbgp.C07.Driver
def main (args : List String) : IO UInt32 := Rbgp.Drv.mainWith Rbgp.C07.handler args
