import Rbgp.Drv
import Rbgp.C01.Driver
def main (args : List String) : IO UInt32 := Rbgp.Drv.mainWith Rbgp.C01.handler args
