import Rbgp.Drv
import Rbgp.C09.Driver
def main (args : List String) : IO UInt32 := Rbgp.Drv.mainWith Rbgp.C09.handler args
