import Rbgp.Drv
import Rbgp.C16.Driver
def main (args : List String) : IO UInt32 := Rbgp.Drv.mainWith Rbgp.C16.handler args
