import Rbgp.Drv
import Rbgp.C11.Driver
def main (args : List String) : IO UInt32 := Rbgp.Drv.mainWith Rbgp.C11.handler args
