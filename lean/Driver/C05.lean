import Rbgp.Drv
import Rbgp.C05.Driver
def main (args : List String) : IO UInt32 := Rbgp.Drv.mainWith Rbgp.C05.handler args
