import Rbgp.C07.Driver
import Rbgp.C08.Driver

/-- property id ↦ handler (mode, line) ↦ output line -/
def handlers : List (String × (String → String → String)) :=
  [ ("C07", Rbgp.C07.handler),
    ("C08", Rbgp.C08.handler) ]

partial def loop (h : IO.FS.Stream) (out : IO.FS.Stream) (f : String → String) : IO Unit := do
  let line ← h.getLine
  if line.isEmpty then return ()
  let l := (line.dropEndWhile (fun c => c == '\n' || c == '\r')).toString
  out.putStrLn (f l)
  loop h out f

def main (args : List String) : IO UInt32 := do
  match args with
  | [prop, mode] =>
      match handlers.lookup prop with
      | some f =>
          let stdin ← IO.getStdin
          let stdout ← IO.getStdout
          loop stdin stdout (f mode)
          stdout.flush
          return 0
      | none => IO.eprintln s!"unknown property {prop}"; return 2
  | _ => IO.eprintln "usage: driver <property> <model|oracle>"; return 2
