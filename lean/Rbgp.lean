-- This module serves as the root of the `Rbgp` library.
-- Import modules here that should be built as part of the library.
import Rbgp.Basic
