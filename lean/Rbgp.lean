-- Root of the `Rbgp` library: the line protocol; property modules are built by name
-- (`lake build Rbgp.Cxx.Props drv_cxx`), see /verif/check.
import Rbgp.Term
import Rbgp.Drv
