/-
  Rbgp.Monitor.Consumer — C18: the consumer tasks (`BmpClient::serve`, gRPC `watch_event`,
  `MrtDumper`) as transition systems over the event stream they receive; pure lemmas (for EVERY
  input stream, hence for every interleaving):

  * peer-down is written out only for a peer whose peer-up was written out (`wireCtl_ok`,
    `watchCtl_ok`);
  * refinement: what the consumer's station holds = the fold (`view`) of the events the task lets
    through (`held_consHist`), and the per-key state machine `cvStep` computes it (`held_watchHist`,
    `held_wireHist`);
  * the station holds either what a channel subscriber would hold, or nothing (`good_fold`).
-/
import Rbgp.Monitor.ProofsRun
namespace Rbgp.Monitor
open Rbgp.Monitor.Spec
set_option linter.unusedSimpArgs false

/-! ## Peer-down only after peer-up -/

theorem mem_trackPeerUp {sent : List Nat} {p x : Nat} : x ∈ trackPeerUp sent p ↔ x ∈ sent ∨ x = p := by
  unfold trackPeerUp
  by_cases h : p ∈ sent
  · simp only [h, if_true]
    constructor
    · exact Or.inl
    · rintro (h' | rfl)
      · exact h'
      · exact h
  · simp only [h, if_false, List.mem_cons]
    constructor
    · rintro (rfl | h')
      · exact Or.inr rfl
      · exact Or.inl h'
    · rintro (h' | rfl)
      · exact Or.inr h'
      · exact Or.inl rfl

theorem mem_filter_ne {sent : List Nat} {p x : Nat} : x ∈ sent.filter (· != p) ↔ x ∈ sent ∧ x ≠ p := by
  simp

/-- the peer events about `p` that `forward` lets out never contain a PeerDown(p) that does not
    follow a PeerUp(p) -/
theorem fwd_ctl_ok (p : Nat) : ∀ (evs : List Ev) (sent ups : List Nat), (p ∈ sent → p ∈ ups) →
    downsFollowUps ((forward evs sent).filter fun e => e = .up p || e = .down p) ups = true := by
  intro evs
  induction evs with
  | nil => intro _ _ _; rfl
  | cons e r ih =>
    intro sent ups hsub
    cases e with
    | up p' =>
      simp only [forward]
      by_cases h : p' = p
      · subst h
        simp only [List.filter_cons, decide_true, Bool.true_or, if_true, downsFollowUps]
        exact ih _ _ (fun _ => by simp)
      · have h1 : (decide (Ev.up p' = Ev.up p) || decide (Ev.up p' = Ev.down p)) = false := by simp [h]
        simp only [List.filter_cons, h1, Bool.false_eq_true, if_false]
        apply ih
        intro hm
        rcases mem_trackPeerUp.mp hm with hm | hm
        · exact hsub hm
        · exact absurd hm.symm h
    | down p' =>
      simp only [forward, trackPeerDown]
      by_cases hp : p' ∈ sent
      · simp only [hp, decide_true, if_true]
        by_cases h : p' = p
        · subst h
          simp only [List.filter_cons, decide_true, Bool.or_true, if_true, downsFollowUps, Bool.and_eq_true,
            decide_eq_true_eq]
          refine ⟨hsub hp, ih _ _ ?_⟩
          intro hm; simp at hm
        · have h1 : (decide (Ev.down p' = Ev.up p) || decide (Ev.down p' = Ev.down p)) = false := by simp [h]
          simp only [List.filter_cons, h1, Bool.false_eq_true, if_false]
          apply ih
          intro hm
          exact hsub (mem_filter_ne.mp hm).1
      · simp only [hp, decide_false, Bool.false_eq_true, if_false]
        apply ih
        intro hm
        exact hsub (mem_filter_ne.mp hm).1
    | pre k v => simp only [forward]; exact ih _ _ hsub
    | post k v => simp only [forward]; exact ih _ _ hsub
    | eos => simp only [forward]; exact ih _ _ hsub

theorem ctl_prefix_ok (p : Nat) (evs : List Ev) (e0 : List Nat) :
    downsFollowUps ((if p ∈ e0 then [Ev.up p] else []) ++
      (forward evs e0).filter fun e => e = .up p || e = .down p) [] = true := by
  by_cases h : p ∈ e0
  · simp only [h, if_true, List.singleton_append, downsFollowUps]
    exact fwd_ctl_ok p _ _ _ (fun _ => by simp)
  · simp only [h, if_false, List.nil_append]
    exact fwd_ctl_ok p _ _ _ (fun hm => absurd hm h)

/-- "Peer-down is reported only for peers whose peer-up was reported" on a BMP connection: for
    every input stream and every set of peers found established at EndOfSnapshot. -/
theorem wireCtl_ok (p : Nat) (q : List Ev) (e0 : List Nat) : downsFollowUps (wireCtl p q e0) [] = true :=
  ctl_prefix_ok p _ e0

/-- the same on a gRPC watch stream -/
theorem watchCtl_ok (p : Nat) (q : List Ev) (e0 : List Nat) : downsFollowUps (watchCtl p q e0) [] = true :=
  ctl_prefix_ok p _ e0

/-- the peer events of the output stream of the transition system are what `forward` lets out -/
theorem forward_eq_ctl : ∀ (q : List Ev) (sent : List Nat),
    forward q sent = (consRun q sent).filter fun e => match e with | .up _ => true | .down _ => true | _ => false := by
  intro q
  induction q with
  | nil => intro _; rfl
  | cons e r ih =>
    intro sent
    cases e with
    | up p => simp [forward, consRun, consStep, ih]
    | down p =>
      by_cases hp : p ∈ sent
      · simp [forward, consRun, consStep, trackPeerDown, hp, ih]
      · simp [forward, consRun, consStep, trackPeerDown, hp, ih]
    | pre k v =>
      by_cases hp : k.peer ∈ sent
      · simp [forward, consRun, consStep, hp, ih]
      · simp [forward, consRun, consStep, hp, ih]
    | post k v =>
      by_cases hp : k.peer ∈ sent
      · simp [forward, consRun, consStep, hp, ih]
      · simp [forward, consRun, consStep, hp, ih]
    | eos => simp [forward, consRun, consStep, ih]

/-! ## Refinement: the station's view is the fold of the events let through -/

/-- what the station holds for (map, key) = `view` of the output stream of the task -/
theorem held_consHist (m : Bool) (key : Key) (q : List Ev) (sent : List Nat) (acc : Option Nat) :
    (consHist m key q sent).foldl apply1 acc = (consRun q sent).foldl (stepView m key) acc := by
  cases m
  · simp only [consHist, Bool.false_eq_true, if_false]; exact held_histPre key _ acc
  · simp only [consHist, if_true]; exact held_histPost key _ acc

/-! ## The per-key state machine of a consumer -/

/-- State of a consumer as far as one (map, key) is concerned: forwarding already (`live`; a BMP
    connection first drains its channel up to EndOfSnapshot), the peers announced, and what the
    station holds for the key (in the drain phase: what the snapshot map holds). -/
structure CSt where
  live : Bool
  sent : List Nat
  w : Option Nat

/-- one received event -/
def cvStep (m : Bool) (key : Key) (e0 : List Nat) (c : CSt) (e : Ev) : CSt :=
  if c.live then
    match e with
    | .pre k _ => if k.peer ∈ c.sent then { c with w := stepView m key c.w e } else c
    | .post k _ => if k.peer ∈ c.sent then { c with w := stepView m key c.w e } else c
    | .up p => { c with sent := trackPeerUp c.sent p }
    | .down p =>
        if p ∈ c.sent then { c with sent := c.sent.filter (· != p), w := stepView m key c.w e }
        else { c with sent := c.sent.filter (· != p) }
    | .eos => c
  else
    match e with
    | .eos => ⟨true, e0, if key.peer ∈ e0 then c.w else none⟩
    | _ => { c with w := stepView m key c.w e }

/-- the consumer's state after the input stream `q`; `b0 = false` for a BMP connection (drain
    phase first), `true` for a watch stream.  `e0` = the peers found in the peer table. -/
def cvFold (m : Bool) (key : Key) (e0 : List Nat) (b0 : Bool) (q : List Ev) : CSt :=
  q.foldl (cvStep m key e0) ⟨b0, e0, none⟩

/-- the peers announced (in the drain phase: the peers that will be, at EndOfSnapshot) -/
def ann (e0 : List Nat) (c : CSt) : List Nat := if c.live then c.sent else e0

theorem cvFold_append (m key e0 b0 q evs) :
    cvFold m key e0 b0 (q ++ evs) = evs.foldl (cvStep m key e0) (cvFold m key e0 b0 q) := by
  simp [cvFold, List.foldl_append]

theorem stepView_hit {m key acc e x} (h : proj m e = some (key, x)) : stepView m key acc e = x := by
  simp [stepView, h]

theorem stepView_miss {m key acc e} (h : ∀ x, proj m e ≠ some (key, x)) (hd : e ≠ .down key.peer) :
    stepView m key acc e = acc := by
  unfold stepView
  cases hp : proj m e with
  | some kv =>
    obtain ⟨k, v⟩ := kv
    by_cases hk : k = key
    · exact absurd (hk ▸ hp) (h v)
    · simp [hk]
  | none =>
    cases e <;> simp
    case down p => intro hpp; exact absurd (by rw [hpp]) hd

theorem proj_route_peer {m e key x} (h : proj m e = some (key, x)) :
    (∃ v, e = .pre key v) ∨ (∃ v, e = .post key v) := by
  cases m <;> cases e <;> simp [proj] at h
  · exact Or.inl ⟨_, by rw [h.1]⟩
  · exact Or.inr ⟨_, by rw [h.1]⟩

/-- what always holds between the consumer's state and what a channel subscriber holds (`v`):
    in the drain phase they agree; once forwarding, the station holds nothing about an unannounced
    peer, and otherwise either the same or nothing -/
def Good (key : Key) (c : CSt) (v : Option Nat) : Prop :=
  if c.live then (key.peer ∉ c.sent → c.w = none) ∧ (c.w = v ∨ c.w = none) else c.w = v

/-- the station agrees with the channel subscriber whenever the key's peer is announced -/
def Sync (key : Key) (e0 : List Nat) (c : CSt) (v : Option Nat) : Prop := key.peer ∈ ann e0 c → c.w = v

theorem good_step (m key e0) (c : CSt) (v : Option Nat) (e : Ev) (h : Good key c v) :
    Good key (cvStep m key e0 c e) (stepView m key v e) := by
  unfold Good at h ⊢
  unfold cvStep
  cases hl : c.live with
  | false =>
    simp only [hl, Bool.false_eq_true, if_false] at h ⊢
    cases e with
    | eos =>
      simp only [if_true]
      have hv : stepView m key v Ev.eos = v := by cases m <;> simp [stepView, proj]
      rw [hv]
      by_cases hp : key.peer ∈ e0
      · simp [hp, h]
      · simp [hp]
    | pre k x => simp only [hl, Bool.false_eq_true, if_false, h]
    | post k x => simp only [hl, Bool.false_eq_true, if_false, h]
    | up p => simp only [hl, Bool.false_eq_true, if_false, h]
    | down p => simp only [hl, Bool.false_eq_true, if_false, h]
  | true =>
    simp only [hl, if_true] at h ⊢
    obtain ⟨h1, h2⟩ := h
    cases e with
    | eos =>
      have hv : stepView m key v Ev.eos = v := by cases m <;> simp [stepView, proj]
      simp only [hl, if_true, hv]; exact ⟨h1, h2⟩
    | up p =>
      have hv : stepView m key v (Ev.up p) = v := by cases m <;> simp [stepView, proj]
      simp only [hl, if_true, hv]
      refine ⟨fun hn => h1 (fun hm => hn (mem_trackPeerUp.mpr (Or.inl hm))), h2⟩
    | down p =>
      by_cases hp : p ∈ c.sent
      · simp only [hp, if_true, hl]
        by_cases hk : p = key.peer
        · have e1 : ∀ a, stepView m key a (Ev.down p) = none := by
            intro a; cases m <;> simp [stepView, proj, hk]
          simp [e1]
        · have e1 : ∀ a, stepView m key a (Ev.down p) = a := by
            intro a; cases m <;> simp [stepView, proj, hk]
          simp only [e1]
          refine ⟨fun hn => h1 (fun hm => hn (mem_filter_ne.mpr ⟨hm, fun e => hk e.symm⟩)), h2⟩
      · simp only [hp, if_false, hl, if_true]
        by_cases hk : p = key.peer
        · have hw : c.w = none := h1 (hk ▸ hp)
          exact ⟨fun _ => hw, Or.inr hw⟩
        · have e1 : ∀ a, stepView m key a (Ev.down p) = a := by
            intro a; cases m <;> simp [stepView, proj, hk]
          rw [e1]
          refine ⟨fun hn => h1 (fun hm => hn (mem_filter_ne.mpr ⟨hm, fun e => hk e.symm⟩)), h2⟩
    | pre k x =>
      by_cases hp : k.peer ∈ c.sent
      · simp only [hp, if_true, hl]
        by_cases hk : k = key
        · cases m
          · simp only [stepView, proj, hk, if_true]
            exact ⟨fun hn => absurd (hk ▸ hp) hn, Or.inl trivial⟩
          · simp only [stepView, proj]; subst hk; exact ⟨fun hn => absurd hp hn, h2⟩
        · have e1 : ∀ a, stepView m key a (Ev.pre k x) = a := by
            intro a; cases m <;> simp [stepView, proj, hk]
          simp only [e1]; exact ⟨h1, h2⟩
      · simp only [hp, if_false, hl, if_true]
        by_cases hk : k = key
        · subst hk
          have hw := h1 hp
          exact ⟨fun _ => hw, Or.inr hw⟩
        · have e1 : ∀ a, stepView m key a (Ev.pre k x) = a := by
            intro a; cases m <;> simp [stepView, proj, hk]
          rw [e1]; exact ⟨h1, h2⟩
    | post k x =>
      by_cases hp : k.peer ∈ c.sent
      · simp only [hp, if_true, hl]
        by_cases hk : k = key
        · cases m
          · simp only [stepView, proj]; subst hk; exact ⟨fun hn => absurd hp hn, h2⟩
          · simp only [stepView, proj, hk, if_true]
            exact ⟨fun hn => absurd (hk ▸ hp) hn, Or.inl trivial⟩
        · have e1 : ∀ a, stepView m key a (Ev.post k x) = a := by
            intro a; cases m <;> simp [stepView, proj, hk]
          simp only [e1]; exact ⟨h1, h2⟩
      · simp only [hp, if_false, hl, if_true]
        by_cases hk : k = key
        · subst hk
          have hw := h1 hp
          exact ⟨fun _ => hw, Or.inr hw⟩
        · have e1 : ∀ a, stepView m key a (Ev.post k x) = a := by
            intro a; cases m <;> simp [stepView, proj, hk]
          rw [e1]; exact ⟨h1, h2⟩

theorem good_foldl (m key e0) : ∀ (evs : List Ev) (c : CSt) (v : Option Nat), Good key c v →
    Good key (evs.foldl (cvStep m key e0) c) (evs.foldl (stepView m key) v) := by
  intro evs
  induction evs with
  | nil => intro c v h; exact h
  | cons e r ih => intro c v h; exact ih _ _ (good_step m key e0 c v e h)

/-- for every input stream: the station holds what a channel subscriber holds, or nothing; and
    nothing about a peer that is not announced -/
theorem good_fold (m key e0 b0) (q : List Ev) : Good key (cvFold m key e0 b0 q) (view m key q) := by
  apply good_foldl
  unfold Good
  cases b0 <;> simp

/-! ## When the station agrees with a channel subscriber -/

theorem stepView_down_self (m key acc) : stepView m key acc (Ev.down key.peer) = none := by
  cases m <;> simp [stepView, proj]

theorem stepView_up (m key acc p) : stepView m key acc (Ev.up p) = acc := by
  cases m <;> simp [stepView, proj]

theorem stepView_eos (m key acc) : stepView m key acc Ev.eos = acc := by
  cases m <;> simp [stepView, proj]

/-- a route event of the key itself: afterwards the station agrees (if the peer is announced the
    event passed; if not, nothing is claimed) -/
theorem sync_touch (m key e0) (c : CSt) (v : Option Nat) (e : Ev) (x : Option Nat)
    (h : proj m e = some (key, x)) : Sync key e0 (cvStep m key e0 c e) (stepView m key v e) := by
  rw [stepView_hit h]
  unfold Sync ann cvStep
  cases hl : c.live with
  | false =>
    rcases proj_route_peer h with ⟨v', rfl⟩ | ⟨v', rfl⟩ <;> simp [hl, stepView_hit h]
  | true =>
    rcases proj_route_peer h with ⟨v', rfl⟩ | ⟨v', rfl⟩
    · by_cases hp : key.peer ∈ c.sent
      · simp [hl, hp, stepView_hit h]
      · simp [hl, hp]
    · by_cases hp : key.peer ∈ c.sent
      · simp [hl, hp, stepView_hit h]
      · simp [hl, hp]

/-- a PeerDown of the key's peer: afterwards both hold nothing, or the peer is not announced -/
theorem sync_down (m key e0) (c : CSt) (v : Option Nat) :
    Sync key e0 (cvStep m key e0 c (Ev.down key.peer)) (stepView m key v (Ev.down key.peer)) := by
  rw [stepView_down_self]
  unfold Sync ann cvStep
  cases hl : c.live with
  | false => simp [hl, stepView_down_self]
  | true =>
    by_cases hp : key.peer ∈ c.sent
    · simp [hl, hp, stepView_down_self]
    · simp [hl, hp]

/-- any other event except a PeerUp of the key's peer keeps the agreement -/
theorem sync_other (m key e0) (c : CSt) (v : Option Nat) (e : Ev)
    (hmiss : ∀ x, proj m e ≠ some (key, x)) (hu : e ≠ .up key.peer) (hd : e ≠ .down key.peer)
    (h : Sync key e0 c v) : Sync key e0 (cvStep m key e0 c e) (stepView m key v e) := by
  rw [stepView_miss hmiss hd]
  unfold Sync ann at h ⊢
  unfold cvStep
  cases hl : c.live with
  | false =>
    simp only [hl, Bool.false_eq_true, if_false] at h ⊢
    cases e with
    | eos =>
      simp only [if_true]
      intro hp; simp only [hp, if_true]; exact h hp
    | pre k x => simp only [hl, Bool.false_eq_true, if_false]; rw [stepView_miss hmiss hd]; exact h
    | post k x => simp only [hl, Bool.false_eq_true, if_false]; rw [stepView_miss hmiss hd]; exact h
    | up p => simp only [hl, Bool.false_eq_true, if_false]; rw [stepView_miss hmiss hd]; exact h
    | down p => simp only [hl, Bool.false_eq_true, if_false]; rw [stepView_miss hmiss hd]; exact h
  | true =>
    simp only [hl, if_true] at h ⊢
    cases e with
    | eos => simp only [hl, if_true]; exact h
    | up p =>
      simp only [hl, if_true]
      intro hm
      rcases mem_trackPeerUp.mp hm with hm | hm
      · exact h hm
      · exact absurd (by rw [hm]) hu
    | down p =>
      have hne : p ≠ key.peer := fun e => hd (by rw [e])
      by_cases hp : p ∈ c.sent
      · simp only [hp, if_true, hl]
        rw [stepView_miss hmiss hd]
        intro hm; exact h (mem_filter_ne.mp hm).1
      · simp only [hp, if_false, hl, if_true]
        intro hm; exact h (mem_filter_ne.mp hm).1
    | pre k x =>
      by_cases hp : k.peer ∈ c.sent
      · simp only [hp, if_true, hl]; rw [stepView_miss hmiss hd]; exact h
      · simp only [hp, if_false, hl, if_true]; exact h
    | post k x =>
      by_cases hp : k.peer ∈ c.sent
      · simp only [hp, if_true, hl]; rw [stepView_miss hmiss hd]; exact h
      · simp only [hp, if_false, hl, if_true]; exact h

/-- a PeerUp changes neither what the station holds nor what a channel subscriber holds -/
theorem cvStep_up_w (m key e0) (c : CSt) (p : Nat) : (cvStep m key e0 c (Ev.up p)).w = c.w := by
  unfold cvStep
  cases hl : c.live <;> simp [stepView_up]

/-- membership in the announced set changes only by a PeerUp / PeerDown of that peer -/
theorem mem_ann_step (m key e0) (c : CSt) (e : Ev) (p : Nat) (hu : e ≠ .up p) (hd : e ≠ .down p) :
    p ∈ ann e0 (cvStep m key e0 c e) ↔ p ∈ ann e0 c := by
  unfold ann cvStep
  cases hl : c.live with
  | false => cases e <;> simp [hl]
  | true =>
    cases e with
    | eos => simp [hl]
    | up p' =>
      simp only [hl, if_true]
      rw [mem_trackPeerUp]
      constructor
      · rintro (h | h)
        · exact h
        · exact absurd (by rw [h]) hu
      · exact Or.inl
    | down p' =>
      have hne : p ≠ p' := fun e => hd (by rw [e])
      by_cases hp : p' ∈ c.sent <;> simp [hl, hp, hne]
    | pre k x => by_cases hp : k.peer ∈ c.sent <;> simp [hl, hp]
    | post k x => by_cases hp : k.peer ∈ c.sent <;> simp [hl, hp]

/-- a PeerUp announces the peer (in the drain phase: the announced set is `e0` throughout) -/
theorem mem_ann_up (m key e0) (c : CSt) (p : Nat) (h : c.live = true ∨ p ∈ e0) :
    p ∈ ann e0 (cvStep m key e0 c (Ev.up p)) := by
  unfold ann cvStep
  cases hl : c.live with
  | false =>
    rcases h with h | h
    · rw [hl] at h; cases h
    · simpa [hl] using h
  | true => simp [hl, mem_trackPeerUp]

theorem live_step (m key e0) (c : CSt) (e : Ev) (h : c.live = true) : (cvStep m key e0 c e).live = true := by
  unfold cvStep
  cases e <;> simp [h] <;> split <;> simp [h]

theorem live_foldl (m key e0) : ∀ (evs : List Ev) (c : CSt), c.live = true →
    (evs.foldl (cvStep m key e0) c).live = true := by
  intro evs
  induction evs with
  | nil => intro c h; exact h
  | cons e r ih => intro c h; exact ih _ (live_step m key e0 c e h)

/-- once EndOfSnapshot was received the task forwards -/
theorem live_of_eos (m key e0) : ∀ (q : List Ev) (c : CSt), Ev.eos ∈ q → (q.foldl (cvStep m key e0) c).live = true := by
  intro q
  induction q with
  | nil => intro c h; cases h
  | cons e r ih =>
    intro c h
    simp only [List.foldl_cons]
    by_cases hl : c.live = true
    · exact live_foldl m key e0 r _ (live_step m key e0 c e hl)
    · rcases List.mem_cons.mp h with h | h
      · subst h
        apply live_foldl
        simp at hl
        simp [cvStep, hl]
      · exact ih _ h

/-- no PeerUp / PeerDown in a batch of events -/
def noCtl (evs : List Ev) : Prop := ∀ e ∈ evs, ∀ p, e ≠ .up p ∧ e ≠ .down p

theorem noCtl_cons {e : Ev} {r : List Ev} (h : noCtl (e :: r)) : (∀ p, e ≠ .up p ∧ e ≠ .down p) ∧ noCtl r :=
  ⟨h e List.mem_cons_self, fun e' he' => h e' (List.mem_cons_of_mem _ he')⟩

theorem mem_ann_batch (m key e0) (p : Nat) : ∀ (evs : List Ev) (c : CSt), noCtl evs →
    (p ∈ ann e0 (evs.foldl (cvStep m key e0) c) ↔ p ∈ ann e0 c) := by
  intro evs
  induction evs with
  | nil => intro c _; rfl
  | cons e r ih =>
    intro c h
    obtain ⟨h1, h2⟩ := noCtl_cons h
    simp only [List.foldl_cons]
    rw [ih _ h2]
    exact mem_ann_step m key e0 c e p (h1 p).1 (h1 p).2

theorem sync_batch_untouched (m key e0) : ∀ (evs : List Ev) (c : CSt) (v : Option Nat), noCtl evs →
    ¬ touched m key evs → Sync key e0 c v →
    Sync key e0 (evs.foldl (cvStep m key e0) c) (evs.foldl (stepView m key) v) := by
  intro evs
  induction evs with
  | nil => intro c v _ _ h; exact h
  | cons e r ih =>
    intro c v hn ht h
    obtain ⟨h1, h2⟩ := noCtl_cons hn
    rw [touched_cons] at ht
    simp only [List.foldl_cons]
    apply ih _ _ h2 (fun h' => ht (Or.inr h'))
    exact sync_other m key e0 c v e (fun x hx => ht (Or.inl ⟨x, hx⟩)) (h1 _).1 (h1 _).2 h

/-- a batch of route events that mentions the key: afterwards the station agrees -/
theorem sync_batch_touched (m key e0) : ∀ (evs : List Ev) (c : CSt) (v : Option Nat), noCtl evs →
    touched m key evs → Sync key e0 (evs.foldl (cvStep m key e0) c) (evs.foldl (stepView m key) v) := by
  intro evs
  induction evs with
  | nil => intro c v _ ht; exact absurd ht (touched_nil m key)
  | cons e r ih =>
    intro c v hn ht
    obtain ⟨h1, h2⟩ := noCtl_cons hn
    simp only [List.foldl_cons]
    by_cases hr : touched m key r
    · exact ih _ _ h2 hr
    · rw [touched_cons] at ht
      rcases ht with ⟨x, hx⟩ | ht
      · exact sync_batch_untouched m key e0 r _ _ h2 hr (sync_touch m key e0 c v e x hx)
      · exact absurd ht hr

/-! ## The state machine computes what the tasks write -/

theorem consRun_fold (m key e0) : ∀ (q : List Ev) (sent : List Nat) (w : Option Nat),
    (consRun q sent).foldl (stepView m key) w = (q.foldl (cvStep m key e0) ⟨true, sent, w⟩).w := by
  intro q
  induction q with
  | nil => intro _ _; rfl
  | cons e r ih =>
    intro sent w
    cases e with
    | eos => simpa [consRun, consStep, cvStep] using ih sent w
    | up p => simpa [consRun, consStep, cvStep, stepView_up] using ih (trackPeerUp sent p) w
    | down p =>
      by_cases hp : p ∈ sent
      · simpa [consRun, consStep, cvStep, trackPeerDown, hp] using ih _ _
      · simpa [consRun, consStep, cvStep, trackPeerDown, hp] using ih _ _
    | pre k x =>
      by_cases hp : k.peer ∈ sent
      · simpa [consRun, consStep, cvStep, hp] using ih _ _
      · simpa [consRun, consStep, cvStep, hp] using ih _ _
    | post k x =>
      by_cases hp : k.peer ∈ sent
      · simpa [consRun, consStep, cvStep, hp] using ih _ _
      · simpa [consRun, consStep, cvStep, hp] using ih _ _

/-- a gRPC watch stream: what the client holds for (map, key) is the `w` of the state machine -/
theorem held_watchHist (m key) (q : List Ev) (e0 : List Nat) :
    held (watchHist m key q e0) = (cvFold m key e0 true q).w := by
  unfold held watchHist cvFold
  rw [held_consHist]
  exact consRun_fold m key e0 q e0 none

theorem foldSnap_cons (m key) (e : Ev) (r : List Ev) (acc : Option Nat) (h : e ≠ .eos) :
    foldSnap m key (e :: r) acc = foldSnap m key r (stepView m key acc e) := by
  cases e with
  | eos => exact absurd rfl h
  | down p => cases m <;> simp [foldSnap, stepView, proj]
  | up p => cases m <;> simp [foldSnap, stepView, proj]
  | pre k x => cases m <;> simp [foldSnap, stepView, proj]
  | post k x => cases m <;> simp [foldSnap, stepView, proj]

/-- the drain phase of `BmpClient::serve` followed by the flush at EndOfSnapshot -/
theorem drain_fold (m key e0) : ∀ (q : List Ev) (c : CSt), c.live = false → Ev.eos ∈ q →
    q.foldl (cvStep m key e0) c =
      (afterEos q).foldl (cvStep m key e0) ⟨true, e0, if key.peer ∈ e0 then foldSnap m key q c.w else none⟩ := by
  intro q
  induction q with
  | nil => intro c _ h; cases h
  | cons e r ih =>
    intro c hl h
    by_cases he : e = .eos
    · subst he
      simp [cvStep, hl, afterEos, foldSnap]
    · have hr : Ev.eos ∈ r := by
        rcases List.mem_cons.mp h with h | h
        · exact absurd h.symm he
        · exact h
      have hstep : cvStep m key e0 c e = { c with w := stepView m key c.w e } := by
        unfold cvStep; cases e <;> simp [hl] at he ⊢
      have haf : afterEos (e :: r) = afterEos r := by cases e <;> simp [afterEos] at he ⊢
      simp only [List.foldl_cons, hstep, haf]
      rw [ih { c with w := stepView m key c.w e } hl hr, foldSnap_cons m key e r c.w he]

theorem snapGet_nil (key : Key) : SnapMap.get ([] : SnapMap) key = none := by simp [SnapMap.get]

/-- a BMP connection whose snapshot is complete: what the station holds for (map, key) is the `w`
    of the state machine -/
theorem held_wireHist (m key) (q : List Ev) (e0 : List Nat) (heos : Ev.eos ∈ q) :
    held (wireHist m key q e0) = (cvFold m key e0 false q).w := by
  unfold cvFold
  rw [drain_fold m key e0 q _ rfl heos, ← consRun_fold]
  have hd := drain_get key q [] []
  simp only [snapGet_nil] at hd
  unfold held wireHist wireLive
  cases hdr : drainSnapshot q ([], []) with
  | mk sp spo =>
    rw [hdr] at hd
    simp only at hd
    simp only [List.foldl_append, held_consHist]
    congr 1
    by_cases hp : key.peer ∈ e0
    · simp only [hp, if_true]
      cases m
      · simp only [Bool.false_eq_true, if_false, hd.1]
        cases foldSnap false key q none <;> simp [apply1]
      · simp only [if_true, hd.2]
        cases foldSnap true key q none <;> simp [apply1]
    · simp [hp]

/-- an MRT updates dump has one record per pre-policy event and none for a session end -/
theorem mrtHist_eq (key : Key) : ∀ (q : List Ev), (∀ e ∈ q, e ≠ .down key.peer) → mrtHist key q = histPre key q := by
  intro q
  induction q with
  | nil => intro _; rfl
  | cons e r ih =>
    intro h
    have hr := ih (fun e' he' => h e' (List.mem_cons_of_mem _ he'))
    cases e with
    | down p =>
      have : p ≠ key.peer := fun e => h _ List.mem_cons_self (by rw [e])
      simp [mrtHist, histPre, this, hr]
    | pre k x => simp [mrtHist, histPre, hr]
    | post k x => simp [mrtHist, histPre, hr]
    | up p => simp [mrtHist, histPre, hr]
    | eos => simp [mrtHist, histPre, hr]

end Rbgp.Monitor
