/-
  Rbgp.Monitor.ConsumerRun — C18: the consumer tasks inside the transition system: invariants of
  every reachable state (any interleaving) that tie what a BMP connection / a watch stream / an MRT
  dump has been sent to the session phases of the peers, and the lifting of the channel-subscriber
  theorems (`reconstruct`, `last_current`) to what the consumers write out.
-/
import Rbgp.Monitor.Consumer
namespace Rbgp.Monitor
open Rbgp.Monitor.Spec
set_option linter.unusedSimpArgs false

/-! ## Effects of one atomic step (one sweep over the instructions each) -/

def phAfter (ins : Instr) (ph : Nat) : Nat :=
  match ins with
  | .setEst b => if b then 1 else 3
  | .sendUp => 2
  | .sendDown => 0
  | .sendDownGr => 0
  | _ => ph

def estAfter (ins : Instr) (me : Nat) (E : List Nat) : List Nat :=
  match ins with
  | .setEst b => if b then E.filter (· != me) ++ [me] else E.filter (· != me)
  | _ => E

/-- phase ghost, `established`, and the stale marks after a step -/
theorem step_ph {st st' : St} {me : Nat} {ins : Instr} {rest : List Instr}
    (hp : (st.threads me).pgm = ins :: rest) (hs : step me st = some st') :
    (st'.threads me).ph = phAfter ins (st.threads me).ph ∧
    st'.established = estAfter ins me st.established ∧
    (∀ x, x ∈ st.staleGens → x ∈ st'.staleGens) ∧
    (∀ x, x ∈ st'.staleGens → x ∈ st.staleGens ∨ (∃ k, ins = .commitStale k ∧ x ∈ gensIn st me k)) := by
  cases ins <;> simp only [step, hp] at hs
  case yld y => injection hs with hs; subst hs; cases y <;> simp [phAfter, estAfter]
  case acquire k =>
    split at hs
    · injection hs with hs; subst hs; simp [phAfter, estAfter]
    · cases hs
  case commitIns key a => split at hs <;> (injection hs with hs; subst hs; simp [phAfter, estAfter])
  case commitRem key => split at hs <;> (injection hs with hs; subst hs; simp [phAfter, estAfter])
  case snap k => split at hs <;> (injection hs with hs; subst hs; simp [phAfter, estAfter])
  case sentinel => split at hs <;> (injection hs with hs; subst hs; simp [phAfter, estAfter])
  case unsubscribe => split at hs <;> (injection hs with hs; subst hs; simp [phAfter, estAfter])
  case commitStale k =>
    injection hs with hs; subst hs
    refine ⟨by simp [phAfter], by simp [estAfter], fun x hx => by simp [hx], fun x hx => ?_⟩
    simp only [List.mem_append] at hx
    rcases hx with hx | hx
    · exact Or.inl hx
    · exact Or.inr ⟨k, rfl, hx⟩
  case setEst b => injection hs with hs; subst hs; cases b <;> simp [phAfter, estAfter]
  all_goals (injection hs with hs; subst hs; simp [phAfter, estAfter, purgeStep])

/-- what a step appends to the channels -/
theorem step_queues {st st' : St} {me : Nat} {ins : Instr} {rest : List Instr}
    (hp : (st.threads me).pgm = ins :: rest) (hs : step me st = some st') :
    (∃ subs evs, st'.queues = send st.queues subs evs ∧ noCtl evs) ∨
    (ins = .sendUp ∧ st'.queues = send st.queues st.subscribers [.up me]) ∨
    ((ins = .sendDown ∨ ins = .sendDownGr) ∧ st'.queues = send st.queues st.subscribers [.down me]) := by
  have quiet : ∀ (q : Nat → List Ev), ∃ subs evs, q = send q subs evs ∧ noCtl evs :=
    fun q => ⟨[], [], by funext s; simp [send], fun e he => by cases he⟩
  cases ins <;> simp only [step, hp] at hs
  case yld y => injection hs with hs; subst hs; exact Or.inl (quiet _)
  case acquire k =>
    split at hs
    · injection hs with hs; subst hs; exact Or.inl (quiet _)
    · cases hs
  case commitIns key a =>
    split at hs
    · injection hs with hs; subst hs; exact Or.inl (quiet _)
    · injection hs with hs; subst hs
      refine Or.inl ⟨_, _, rfl, ?_⟩
      intro e he p; simp at he; rcases he with rfl | rfl <;> simp
  case commitRem key =>
    have hn : noCtl [Ev.pre key none, Ev.post key none] := by
      intro e he p; simp at he; rcases he with rfl | rfl <;> simp
    split at hs <;> (injection hs with hs; subst hs; exact Or.inl ⟨_, _, rfl, hn⟩)
  case commitSr k p =>
    injection hs with hs; subst hs
    refine Or.inl ⟨_, _, rfl, ?_⟩
    intro e he q; simp at he; obtain ⟨key, _, rfl⟩ := he; simp
  case commitDropQuiet k =>
    injection hs with hs; subst hs
    refine Or.inl ⟨_, _, rfl, ?_⟩
    intro e he q; simp at he; obtain ⟨key, _, he⟩ := he; rcases he with rfl | rfl <;> simp
  case commitPurge k =>
    injection hs with hs; subst hs
    refine Or.inl ⟨_, _, rfl, ?_⟩
    intro e he q; simp at he; obtain ⟨key, _, he⟩ := he; rcases he with rfl | rfl <;> simp
  case commitLpurge k =>
    injection hs with hs; subst hs
    refine Or.inl ⟨_, _, rfl, ?_⟩
    intro e he q; simp at he; obtain ⟨key, _, he⟩ := he; rcases he with rfl | rfl <;> simp
  case snap k =>
    split at hs
    · injection hs with hs; subst hs
      refine Or.inl ⟨_, _, rfl, ?_⟩
      intro e he q
      exact ⟨fun h => by rw [h] at he; simp [snapEvents] at he, snap_no_down st k e he q⟩
    · injection hs with hs; subst hs; exact Or.inl (quiet _)
  case sentinel =>
    split at hs
    · injection hs with hs; subst hs
      refine Or.inl ⟨_, _, rfl, ?_⟩
      intro e he q; simp at he; subst he; simp
    · injection hs with hs; subst hs; exact Or.inl (quiet _)
  case unsubscribe => split at hs <;> (injection hs with hs; subst hs; exact Or.inl (quiet _))
  case sendUp => injection hs with hs; subst hs; exact Or.inr (Or.inl ⟨rfl, rfl⟩)
  case sendDown => injection hs with hs; subst hs; exact Or.inr (Or.inr ⟨Or.inl rfl, rfl⟩)
  case sendDownGr => injection hs with hs; subst hs; exact Or.inr (Or.inr ⟨Or.inr rfl, rfl⟩)
  all_goals (injection hs with hs; subst hs; exact Or.inl (quiet _))

/-- subscriptions and subscription records after a step -/
theorem step_subs {st st' : St} {me : Nat} {ins : Instr} {rest : List Instr}
    (hp : (st.threads me).pgm = ins :: rest) (hs : step me st = some st') :
    (∃ w k, ins = .register w k ∧ st'.subscribers = st.subscribers ++ [st.nextSub] ∧ st'.nextSub = st.nextSub + 1 ∧
        (st'.threads me).mysubs = (st.threads me).mysubs ++ [⟨st.nextSub, w, true, k, [], false⟩]) ∨
    (ins = .captureE0 ∧ st'.subscribers = st.subscribers ∧ st'.nextSub = st.nextSub ∧
        (st'.threads me).mysubs = setLast (st.threads me).mysubs fun r => { r with e0 := st.established, cap := true }) ∨
    (∃ s ms, ins = .unsubscribe ∧ markDead (st.threads me).mysubs = some (s, ms) ∧ st'.nextSub = st.nextSub ∧
        st'.subscribers = st.subscribers.filter (· != s) ∧ (st'.threads me).mysubs = ms) ∨
    ((∀ w k, ins ≠ .register w k) ∧ ins ≠ .captureE0 ∧
      st'.subscribers = st.subscribers ∧ st'.nextSub = st.nextSub ∧ (st'.threads me).mysubs = (st.threads me).mysubs) := by
  cases ins <;> simp only [step, hp] at hs
  case yld y => injection hs with hs; subst hs; cases y <;> simp
  case acquire k =>
    split at hs
    · injection hs with hs; subst hs; simp
    · cases hs
  case commitIns key a => split at hs <;> (injection hs with hs; subst hs; simp)
  case commitRem key => split at hs <;> (injection hs with hs; subst hs; simp)
  case snap k => split at hs <;> (injection hs with hs; subst hs; simp)
  case sentinel => split at hs <;> (injection hs with hs; subst hs; simp)
  case unsubscribe =>
    split at hs
    · rename_i s ms hm
      injection hs with hs; subst hs
      exact Or.inr (Or.inr (Or.inl ⟨s, ms, rfl, hm, rfl, rfl, by simp⟩))
    · injection hs with hs; subst hs; simp
  case register w k => injection hs with hs; subst hs; exact Or.inl ⟨w, k, rfl, rfl, rfl, by simp⟩
  case captureE0 => injection hs with hs; subst hs; exact Or.inr (Or.inl ⟨rfl, rfl, rfl, by simp⟩)
  all_goals (injection hs with hs; subst hs; simp [purgeStep])

/-- the table after a step: an entry is an old entry of the same session, or the one `commitIns`
    has just written -/
theorem step_rib {st st' : St} {me : Nat} {ins : Instr} {rest : List Instr}
    (hp : (st.threads me).pgm = ins :: rest) (hs : step me st = some st') (key : Key) (e' : Entry)
    (h : st'.rib key = some e') :
    (∃ e, st.rib key = some e ∧ e.gen = e'.gen) ∨ (∃ a, ins = .commitIns key a) := by
  have same : st.rib key = some e' → (∃ e, st.rib key = some e ∧ e.gen = e'.gen) ∨ (∃ a, ins = .commitIns key a) :=
    fun h => Or.inl ⟨e', h, rfl⟩
  cases ins <;> simp only [step, hp] at hs
  case yld y => injection hs with hs; subst hs; exact same h
  case acquire k =>
    split at hs
    · injection hs with hs; subst hs; exact same h
    · cases hs
  case commitIns key0 a =>
    split at hs
    · injection hs with hs; subst hs; exact same h
    · injection hs with hs; subst hs
      simp only [updRib] at h
      by_cases hk : key = key0
      · subst hk; exact Or.inr ⟨a, rfl⟩
      · simp only [hk, if_false] at h; exact same h
  case commitRem key0 =>
    split at hs
    · injection hs with hs; subst hs
      simp only [updRib] at h
      by_cases hk : key = key0
      · simp [hk] at h
      · simp only [hk, if_false] at h; exact same h
    · injection hs with hs; subst hs; exact same h
  case commitSr k p =>
    injection hs with hs; subst hs
    simp only at h
    split at h
    · cases hr : st.rib key with
      | none => simp [hr] at h
      | some e =>
        simp only [hr, Option.map_some, Option.some.injEq] at h
        refine Or.inl ⟨e, rfl, ?_⟩
        rw [← h]; split <;> rfl
    · exact same h
  case commitDrop k =>
    injection hs with hs; subst hs
    simp only at h
    split at h
    · cases h
    · exact same h
  case commitDropQuiet k =>
    injection hs with hs; subst hs
    simp only [purgeStep] at h
    split at h
    · cases hr : st.rib key with
      | none => simp [hr] at h
      | some e => simp only [hr, Option.bind_some] at h; split at h <;> simp at h; subst h; exact Or.inl ⟨e, rfl, rfl⟩
    · exact same h
  case commitPurge k =>
    injection hs with hs; subst hs
    simp only [purgeStep] at h
    split at h
    · cases hr : st.rib key with
      | none => simp [hr] at h
      | some e => simp only [hr, Option.bind_some] at h; split at h <;> simp at h; subst h; exact Or.inl ⟨e, rfl, rfl⟩
    · exact same h
  case commitLpurge k =>
    injection hs with hs; subst hs
    simp only [purgeStep] at h
    split at h
    · cases hr : st.rib key with
      | none => simp [hr] at h
      | some e => simp only [hr, Option.bind_some] at h; split at h <;> simp at h; subst h; exact Or.inl ⟨e, rfl, rfl⟩
    · exact same h
  case snap k => split at hs <;> (injection hs with hs; subst hs; exact same h)
  case sentinel => split at hs <;> (injection hs with hs; subst hs; exact same h)
  case unsubscribe => split at hs <;> (injection hs with hs; subst hs; exact same h)
  all_goals (injection hs with hs; subst hs; exact same h)

/-! ## The station agrees with the channel view, or the key is on its way out -/

/-- Per subscriber, (map, key) and whatever peers the task finds established (`e0`) and whichever
    kind it is (`b0`): if the key's peer is announced, the station holds what a channel subscriber
    holds — unless the peer's teardown has dropped that shard (PeerDown is still to come) or the
    table holds the key only as a GR-retained stale route. -/
def CI (st : St) : Prop :=
  ∀ s ∈ st.subscribers, ∀ m key e0 b0,
    Sync key e0 (cvFold m key e0 b0 (st.queues s)) (view m key (st.queues s)) ∨ droppedShard st key ∨ staleKey st key

theorem sync_untouched (m key e0 b0) (q : List Ev) (h : ¬ touched m key q) :
    Sync key e0 (cvFold m key e0 b0 q) (view m key q) := by
  have hg := good_fold m key e0 b0 q
  have hv := view_untouched m key q h
  intro _
  unfold Good at hg
  rw [hv] at hg ⊢
  split at hg
  · rcases hg.2 with h | h <;> exact h
  · exact hg

theorem droppedShard_congr {st st' : St} (h : ∀ i, (st'.threads i).drop = (st.threads i).drop) (key : Key) :
    droppedShard st' key ↔ droppedShard st key := by simp [droppedShard, h]

theorem ci_quiet {st st' : St} (hq : st'.queues = st.queues)
    (hsub : ∀ s ∈ st'.subscribers, s ∈ st.subscribers ∨ st.queues s = [])
    (hesc : ∀ key, droppedShard st key ∨ staleKey st key → droppedShard st' key ∨ staleKey st' key)
    (h : CI st) : CI st' := by
  intro s hs m key e0 b0
  rw [hq]
  rcases hsub s hs with hs' | hs'
  · rcases h s hs' m key e0 b0 with h | h
    · exact Or.inl h
    · exact Or.inr (hesc key h)
  · rw [hs']; left; intro _; rfl

/-- a batch of route events (or EndOfSnapshot) sent under a shard lock -/
theorem ci_route {st st' : St} {subs : List Nat} {evs : List Ev}
    (hq : st'.queues = send st.queues subs evs) (hn : noCtl evs)
    (hsub : st'.subscribers = st.subscribers)
    (hdrop : ∀ key, droppedShard st key → droppedShard st' key)
    (hst : ∀ key, staleKey st key → staleKey st' key ∨
      (touched false key evs ∧ touched true key evs ∧
        ∀ s ∈ st.subscribers, s ∉ subs → ∀ m, ¬ touched m key (st.queues s)))
    (h : CI st) : CI st' := by
  intro s hs m key e0 b0
  rw [hsub] at hs
  rw [hq]
  by_cases hin : s ∈ subs
  · rw [send_in hin, cvFold_append, view_append]
    by_cases ht : touched m key evs
    · exact Or.inl (sync_batch_touched m key e0 evs _ _ hn ht)
    · rcases h s hs m key e0 b0 with h | h | h
      · exact Or.inl (sync_batch_untouched m key e0 evs _ _ hn ht h)
      · exact Or.inr (Or.inl (hdrop key h))
      · rcases hst key h with h' | ⟨h1, h2, _⟩
        · exact Or.inr (Or.inr h')
        · cases m
          · exact absurd h1 ht
          · exact absurd h2 ht
  · rw [send_out hin]
    rcases h s hs m key e0 b0 with h | h | h
    · exact Or.inl h
    · exact Or.inr (Or.inl (hdrop key h))
    · rcases hst key h with h' | ⟨_, _, h3⟩
      · exact Or.inr (Or.inr h')
      · exact Or.inl (sync_untouched m key e0 b0 _ (h3 s hs hin m))

theorem ribV_none {st : St} {key : Key} (m : Bool) (h : st.rib key = none) : ribV m st key = none := by
  cases m <;> simp [ribV, preOf, postOf, h]

/-- `peer_up`: the PeerUp of a session none of whose routes is in the table yet (the ones the
    table holds for the peer are retained stale routes of an earlier session) -/
theorem ci_up {st st' : St} {me : Nat} (hI : Inv st)
    (hq : st'.queues = send st.queues st.subscribers [.up me]) (hsub : st'.subscribers = st.subscribers)
    (hdrop : ∀ key, droppedShard st key → droppedShard st' key)
    (hst : ∀ key, staleKey st key → staleKey st' key)
    (hph : ∀ key e, key.peer = me → st.rib key = some e → staleKey st key)
    (hnd : ∀ key, key.peer = me → ¬ droppedShard st key)
    (h : CI st) : CI st' := by
  intro s hs m key e0 b0
  rw [hsub] at hs
  rw [hq, send_in hs, cvFold_append, view_append]
  simp only [List.foldl_cons, List.foldl_nil]
  by_cases hk : key.peer = me
  · cases hr : st.rib key with
    | some e => exact Or.inr (Or.inr (hst key (hph key e hk hr)))
    | none =>
      left
      have hv : view m key (st.queues s) = none := by
        by_cases hpre : touched m key (st.queues s) ∨ key.shard ∈ st.done s
        · rcases hI.viewI s hs m key hpre with h' | h' | h'
          · rw [h', ribV_none m hr]
          · exact absurd h' (hnd key hk)
          · obtain ⟨e, he, _⟩ := h'; rw [hr] at he; cases he
        · exact view_untouched m key _ (fun h' => hpre (Or.inl h'))
      have hg := good_fold m key e0 b0 (st.queues s)
      intro _
      rw [cvStep_up_w, stepView_up, hv]
      unfold Good at hg
      rw [hv] at hg
      split at hg
      · rcases hg.2 with h' | h' <;> exact h'
      · exact hg
  · rcases h s hs m key e0 b0 with h | h | h
    · left
      apply sync_other m key e0 _ _ _ _ _ _ h
      · intro x; cases m <;> simp [proj]
      · intro e; injection e with e; exact hk e.symm
      · intro e; cases e
    · exact Or.inr (Or.inl (hdrop key h))
    · exact Or.inr (Or.inr (hst key h))

/-- `peer_down` -/
theorem ci_down {st st' : St} {me : Nat}
    (hq : st'.queues = send st.queues st.subscribers [.down me]) (hsub : st'.subscribers = st.subscribers)
    (hdrop : ∀ key, key.peer ≠ me → droppedShard st key → droppedShard st' key)
    (hst : ∀ key, staleKey st key → staleKey st' key)
    (h : CI st) : CI st' := by
  intro s hs m key e0 b0
  rw [hsub] at hs
  rw [hq, send_in hs, cvFold_append, view_append]
  simp only [List.foldl_cons, List.foldl_nil]
  by_cases hk : key.peer = me
  · left; rw [← hk]; exact sync_down m key e0 _ _
  · rcases h s hs m key e0 b0 with h | h | h
    · left
      apply sync_other m key e0 _ _ _ _ _ _ h
      · intro x; cases m <;> simp [proj]
      · intro e; cases e
      · intro e; injection e with e; exact hk e.symm
    · exact Or.inr (Or.inl (hdrop key hk h))
    · exact Or.inr (Or.inr (hst key h))

/-! ## Session phases -/

/-- Type-state of the remaining program of a thread: the phase ghost `ph` (0 idle, 1 establishing,
    2 up, 3 teardown) follows `session_addrs` store / `peer_up` / `peer_down` in the order
    `apply_outputs` and `finish_session` run them, routes are announced only by an established
    session, and a consumer task reads the peer table once, after it has subscribed (a BMP
    connection always asks for the snapshot). -/
def cOk : List Instr → Nat → Bool → Bool
  | [], ph, pd => (ph == 0 || ph == 2) && !pd
  | .setEst b :: r, ph, pd => (if b then ph == 0 else ph == 2) && cOk r (if b then 1 else 3) pd
  | .sendUp :: r, ph, pd => ph == 1 && cOk r 2 pd
  | .sendDown :: r, ph, pd => ph == 3 && cOk r 0 pd
  | .sendDownGr :: r, ph, pd => ph == 3 && cOk r 0 pd
  | .commitIns _ _ :: r, ph, pd => ph == 2 && cOk r ph pd
  | .register w k :: r, ph, pd => !pd && (k != 1 || w) && cOk r ph (k != 0 && k != 2)
  | .captureE0 :: r, ph, pd => pd && cOk r ph false
  | _ :: r, ph, pd => cOk r ph pd

/-- the last subscription record of the thread is a consumer (BMP connection or watch stream; an
    MRT dump does not look at the peer table) that has not read the peer table yet -/
def pendingOf (t : Thread) : Bool :=
  match t.mysubs.getLast? with
  | some r => r.kind != 0 && r.kind != 2 && !r.cap
  | none => false

def COK (st : St) : Prop := ∀ i, cOk (st.threads i).pgm (st.threads i).ph (pendingOf (st.threads i)) = true

/-- a peer that is not in a session (idle, or establishing: PeerUp not yet published) has only
    GR-retained stale routes in the table -/
def PHI (st : St) : Prop :=
  ∀ key e, st.rib key = some e → ((st.threads key.peer).ph = 0 ∨ (st.threads key.peer).ph = 1) →
    (key.peer, e.gen) ∈ st.staleGens

theorem drop_updT {st : St} {me : Nat} {t' : Thread} (h : t'.drop = (st.threads me).drop) (i : Nat) :
    (updT st.threads me t' i).drop = (st.threads i).drop := by
  by_cases hi : i = me
  · subst hi; simp [h]
  · simp [updT_ne _ _ hi]

theorem dropped_grow {st st' : St} {me k : Nat} {t' : Thread} (hth : st'.threads = updT st.threads me t')
    (hd : t'.drop = some (k :: (st.threads me).drop.getD [])) (key : Key) (h : droppedShard st key) :
    droppedShard st' key := by
  obtain ⟨l, hl, hm⟩ := h
  unfold droppedShard
  rw [hth]
  by_cases hk : key.peer = me
  · refine ⟨k :: l, ?_, List.mem_cons_of_mem _ hm⟩
    rw [hk] at hl ⊢
    simp [hd, hl]
  · exact ⟨l, by rw [updT_ne _ _ hk]; exact hl, hm⟩

theorem dropped_new {st st' : St} {me k : Nat} {t' : Thread} (hth : st'.threads = updT st.threads me t')
    (hd : t'.drop = some (k :: (st.threads me).drop.getD [])) (key : Key) (hp : key.peer = me) (hk : key.shard = k) :
    droppedShard st' key := by
  unfold droppedShard
  rw [hth, hp]
  exact ⟨k :: (st.threads me).drop.getD [], by simp [hd], by simp [hk]⟩

theorem wdBatch_noCtl (ks : List Key) : noCtl (wdBatch ks) := by
  intro e he p
  simp [wdBatch] at he
  obtain ⟨key, _, he⟩ := he
  rcases he with rfl | rfl <;> simp

/-- `purge_notifying` -/
theorem ci_purge {st : St} {me k : Nat} {t' : Thread} (gone : Entry → Bool) (hI : Inv st)
    (hheld : (st.threads me).held = some k) (hfresh : (st.threads me).fresh = true)
    (hsu : t'.subs = (st.threads me).subs) (hd : t'.drop = (st.threads me).drop)
    (h : CI st) : CI (purgeStep st me t' k gone) := by
  unfold purgeStep
  refine ci_route (subs := t'.subs) (evs := wdBatch ((peerKeysIn st me k).filter fun key => match st.rib key with
    | some e => gone e
    | none => false)) rfl (wdBatch_noCtl _) rfl ?_ ?_ h
  · intro key hk; exact (droppedShard_congr (drop_updT hd) key).mpr hk
  · intro key hst
    obtain ⟨e, he, hg⟩ := hst
    by_cases hc : key.peer = me ∧ key.shard = k
    · by_cases hgo : gone e = true
      · right
        have hin : key ∈ (peerKeysIn st me k).filter fun key => match st.rib key with
            | some e => gone e
            | none => false := by
          simp only [List.mem_filter, mem_peerKeysIn]
          exact ⟨⟨(hI.sup key e he).1, hc.1, hc.2, by simp [he]⟩, by simp [he, hgo]⟩
        refine ⟨touched_wdBatch.mpr hin, touched_wdBatch.mpr hin, ?_⟩
        intro s hs hns m
        rw [hsu] at hns
        exact (hI.blind me s k hheld hfresh hs hns).2 m key hc.2
      · left
        exact ⟨e, by simp [hc, he, hgo], hg⟩
    · left
      exact ⟨e, by simp [hc, he], hg⟩

/-- `CI` is preserved by every atomic step -/
theorem step_ci {st st' : St} {me : Nat} {ins : Instr} {rest : List Instr} (hI : Inv st) (hphi : PHI st)
    (hup : ins = .sendUp → (st.threads me).ph = 1)
    (hp : (st.threads me).pgm = ins :: rest) (hs : step me st = some st') (h : CI st) : CI st' := by
  have hw := hI.wf me
  unfold TWF at hw; rw [hp] at hw
  have quiet : ∀ (st1 : St) (t' : Thread), st1.queues = st.queues → st1.subscribers = st.subscribers →
      st1.rib = st.rib → (∀ x ∈ st.staleGens, x ∈ st1.staleGens) → st1.threads = updT st.threads me t' →
      t'.drop = (st.threads me).drop → CI st1 := by
    intro st1 t' h1 h2 h3 h4 h5 h6
    refine ci_quiet h1 (fun s hs => Or.inl (h2 ▸ hs)) ?_ h
    intro key hk
    rcases hk with hk | hk
    · exact Or.inl ((droppedShard_congr (fun i => by rw [h5]; exact drop_updT h6 i) key).mpr hk)
    · obtain ⟨e, he, hg⟩ := hk
      exact Or.inr ⟨e, by rw [h3]; exact he, h4 _ hg⟩
  have hdr : ∀ (st1 : St) (t' : Thread), st1.threads = updT st.threads me t' → t'.drop = (st.threads me).drop →
      ∀ key, droppedShard st key → droppedShard st1 key := by
    intro st1 t' h5 h6 key hk
    exact (droppedShard_congr (fun i => by rw [h5]; exact drop_updT h6 i) key).mpr hk
  cases ins <;> simp only [step, hp] at hs
  case yld y => injection hs with hs; subst hs; cases y <;> exact quiet _ _ rfl rfl rfl (fun _ h => h) rfl rfl
  case acquire k =>
    split at hs
    · injection hs with hs; subst hs; exact quiet _ _ rfl rfl rfl (fun _ h => h) rfl rfl
    · cases hs
  case commitIns key a =>
    simp only [wfp, Bool.and_eq_true, decide_eq_true_eq, Option.isNone_iff_eq_none] at hw
    obtain ⟨⟨⟨⟨⟨hheld, hfresh⟩, _⟩, _⟩, _⟩, _⟩ := hw
    split at hs
    · injection hs with hs; subst hs; exact quiet _ _ rfl rfl rfl (fun _ h => h) rfl rfl
    · injection hs with hs; subst hs
      refine ci_route (st := st) (subs := (st.threads me).subs) rfl ?_ rfl ?_ ?_ h
      · intro e he p; simp at he; rcases he with rfl | rfl <;> simp
      · intro key' hk; exact hdr _ _ rfl (by rfl) key' hk
      · intro key' hst
        by_cases hk : key' = key
        · right
          subst hk
          refine ⟨⟨_, List.mem_cons_self, _, rfl⟩, ⟨_, List.mem_cons_of_mem _ List.mem_cons_self, _, rfl⟩, ?_⟩
          intro s hs hns m
          exact (hI.blind me s _ hheld hfresh hs hns).2 m key' rfl
        · left
          obtain ⟨e, he, hg⟩ := hst
          exact ⟨e, by simp [updRib, hk, he], hg⟩
  case commitRem key =>
    simp only [wfp, Bool.and_eq_true, decide_eq_true_eq, Option.isNone_iff_eq_none] at hw
    obtain ⟨⟨⟨⟨⟨hheld, hfresh⟩, _⟩, _⟩, _⟩, _⟩ := hw
    have hn : noCtl [Ev.pre key none, Ev.post key none] := by
      intro e he p; simp at he; rcases he with rfl | rfl <;> simp
    split at hs
    · injection hs with hs; subst hs
      refine ci_route (st := st) (subs := (st.threads me).subs) rfl hn rfl ?_ ?_ h
      · intro key' hk; exact hdr _ _ rfl (by rfl) key' hk
      · intro key' hst
        by_cases hk : key' = key
        · right
          subst hk
          refine ⟨⟨_, List.mem_cons_self, _, rfl⟩, ⟨_, List.mem_cons_of_mem _ List.mem_cons_self, _, rfl⟩, ?_⟩
          intro s hs hns m
          exact (hI.blind me s _ hheld hfresh hs hns).2 m key' rfl
        · left
          obtain ⟨e, he, hg⟩ := hst
          exact ⟨e, by simp [updRib, hk, he], hg⟩
    · injection hs with hs; subst hs
      refine ci_route (st := st) (subs := (st.threads me).subs) rfl hn rfl ?_ (fun key' hst => Or.inl hst) h
      intro key' hk; exact hdr _ _ rfl (by rfl) key' hk
  case commitSr k p =>
    injection hs with hs; subst hs
    refine ci_route (st := st) (subs := (st.threads me).subs) rfl ?_ rfl ?_ ?_ h
    · intro e he q; simp at he; obtain ⟨key, _, rfl⟩ := he; simp
    · intro key' hk; exact hdr _ _ rfl (by rfl) key' hk
    · intro key' hst
      left
      obtain ⟨e, he, hg⟩ := hst
      by_cases hc : key'.peer = p ∧ key'.shard = k
      · refine ⟨if isStale st p e then e else { e with post := applyImport (st.threads me).pol e.pre }, by simp [hc, he], ?_⟩
        split <;> exact hg
      · exact ⟨e, by simp [hc, he], hg⟩
  case commitDrop k =>
    simp only [wfp, Bool.and_eq_true, decide_eq_true_eq] at hw
    injection hs with hs; subst hs
    refine ci_quiet (st := st) rfl (fun s hs => Or.inl hs) ?_ h
    intro key hk
    rcases hk with hk | hk
    · exact Or.inl (dropped_grow (st := st) (k := k) rfl (by rfl) key hk)
    · by_cases hc : key.peer = me ∧ key.shard = k
      · exact Or.inl (dropped_new (st := st) (k := k) rfl (by rfl) key hc.1 hc.2)
      · obtain ⟨e, he, hg⟩ := hk
        exact Or.inr ⟨e, by simp [hc, he], hg⟩
  case commitStale k =>
    injection hs with hs; subst hs
    refine ci_quiet (st := st) rfl (fun s hs => Or.inl hs) ?_ h
    intro key hk
    rcases hk with hk | hk
    · exact Or.inl (dropped_grow (st := st) (k := k) rfl (by rfl) key hk)
    · obtain ⟨e, he, hg⟩ := hk
      exact Or.inr ⟨e, he, List.mem_append_left _ hg⟩
  case commitDropQuiet k =>
    obtain ⟨h1, h2, _, _⟩ := wf_purge hI hp (Or.inr (Or.inl rfl))
    injection hs with hs; subst hs
    exact ci_purge _ hI h1 h2 rfl rfl h
  case commitPurge k =>
    obtain ⟨h1, h2, _, _⟩ := wf_purge hI hp (Or.inl rfl)
    injection hs with hs; subst hs
    exact ci_purge _ hI h1 h2 rfl rfl h
  case commitLpurge k =>
    obtain ⟨h1, h2, _, _⟩ := wf_purge hI hp (Or.inr (Or.inr rfl))
    injection hs with hs; subst hs
    exact ci_purge _ hI h1 h2 rfl rfl h
  case sendUp =>
    simp only [wfp, Bool.and_eq_true, Option.isNone_iff_eq_none] at hw
    injection hs with hs; subst hs
    refine ci_up (st := st) hI rfl rfl ?_ (fun key hst => hst) ?_ ?_ h
    · intro key hk; exact hdr _ _ rfl (by rfl) key hk
    · intro key e hk hr
      exact ⟨e, hr, hphi key e hr (Or.inr (by rw [hk]; exact hup rfl))⟩
    · intro key hk hd
      obtain ⟨l, hl, _⟩ := hd
      rw [hk, hw.1.2] at hl; cases hl
  case sendDown =>
    injection hs with hs; subst hs
    refine ci_down (st := st) rfl rfl ?_ (fun key hst => hst) h
    intro key hk hd
    obtain ⟨l, hl, hm⟩ := hd
    exact ⟨l, by simp only [updT_ne _ _ hk]; exact hl, hm⟩
  case sendDownGr =>
    injection hs with hs; subst hs
    refine ci_down (st := st) rfl rfl ?_ (fun key hst => hst) h
    intro key hk hd
    obtain ⟨l, hl, hm⟩ := hd
    exact ⟨l, by simp only [updT_ne _ _ hk]; exact hl, hm⟩
  case register w k =>
    injection hs with hs; subst hs
    refine ci_quiet (st := st) rfl ?_ ?_ h
    · intro s hs
      simp only [List.mem_append, List.mem_singleton] at hs
      rcases hs with hs | hs
      · exact Or.inl hs
      · exact Or.inr (hI.idsQ s (by omega)).1
    · intro key hk
      exact hk.imp (fun hk => hdr _ _ rfl (by rfl) key hk) id
  case snap k =>
    split at hs
    · injection hs with hs; subst hs
      refine ci_route (st := st) rfl ?_ rfl ?_ (fun key' hst => Or.inl hst) h
      · intro e he q
        exact ⟨fun h => by rw [h] at he; simp [snapEvents] at he, snap_no_down st k e he q⟩
      · intro key' hk; exact hdr _ _ rfl (by rfl) key' hk
    · injection hs with hs; subst hs; exact quiet _ _ rfl rfl rfl (fun _ h => h) rfl rfl
  case sentinel =>
    split at hs
    · injection hs with hs; subst hs
      refine ci_route (st := st) rfl ?_ rfl ?_ (fun key' hst => Or.inl hst) h
      · intro e he q; simp at he; subst he; simp
      · intro key' hk; exact hdr _ _ rfl (by rfl) key' hk
    · injection hs with hs; subst hs; exact quiet _ _ rfl rfl rfl (fun _ h => h) rfl rfl
  case unsubscribe =>
    split at hs
    · injection hs with hs; subst hs
      refine ci_quiet (st := st) rfl (fun s hs => Or.inl (List.mem_filter.mp hs).1) ?_ h
      intro key hk
      exact hk.imp (fun hk => hdr _ _ rfl (by rfl) key hk) id
    · injection hs with hs; subst hs; exact quiet _ _ rfl rfl rfl (fun _ h => h) rfl rfl
  all_goals (injection hs with hs; subst hs; exact quiet _ _ rfl rfl rfl (fun _ h => h) rfl rfl)

/-! ## Book-keeping of the subscription records -/

theorem markDead_shape : ∀ (l : List SubRec) {s l'}, markDead l = some (s, l') →
    ∃ a r b, l = a ++ r :: b ∧ l' = a ++ { r with live := false } :: b ∧ r.kind = 0 ∧ r.sid = s := by
  intro l
  induction l with
  | nil => intro s l' h; simp [markDead] at h
  | cons x rest ih =>
    intro s l' h
    simp only [markDead] at h
    cases hm : markDead rest with
    | some p =>
      obtain ⟨s1, rest'⟩ := p
      simp [hm] at h
      obtain ⟨rfl, rfl⟩ := h
      obtain ⟨a, r, b, h1, h2, h3, h4⟩ := ih hm
      exact ⟨x :: a, r, b, by simp [h1], by simp [h2], h3, h4⟩
    | none =>
      simp [hm] at h
      obtain ⟨⟨_, hk⟩, rfl, rfl⟩ := h
      exact ⟨[], x, rest, rfl, rfl, hk, rfl⟩

theorem setLast_eq (l : List SubRec) (f : SubRec → SubRec) :
    (l = [] ∧ setLast l f = []) ∨ (∃ a x, l = a ++ [x] ∧ setLast l f = a ++ [f x]) := by
  unfold setLast
  cases hl : l.reverse with
  | nil => left; exact ⟨List.reverse_eq_nil_iff.mp hl, rfl⟩
  | cons x rest =>
    right
    refine ⟨rest.reverse, x, ?_, by simp⟩
    have := congrArg List.reverse hl
    simpa using this

theorem getLast?_concat' {α} (a : List α) (x : α) : (a ++ [x]).getLast? = some x := by simp

theorem mem_split_last {α} (l : List α) (r : α) (h : r ∈ l) : r ∈ l.dropLast ∨ l.getLast? = some r := by
  rcases List.eq_nil_or_concat l with rfl | ⟨a, x, rfl⟩
  · cases h
  · simp at h ⊢
    rcases h with h | h
    · exact Or.inl h
    · exact Or.inr h.symm

theorem dropLast_mid {α} (a : List α) (r : α) (b : List α) :
    (a ++ r :: b).dropLast = if b = [] then a else a ++ r :: b.dropLast := by
  cases b with
  | nil => simp
  | cons y b' =>
    simp only [reduceCtorEq, if_false]
    rw [List.dropLast_append_of_ne_nil (by simp), List.dropLast_cons_of_ne_nil (by simp)]

theorem getLast?_mid {α} (a : List α) (r : α) (b : List α) :
    (a ++ r :: b).getLast? = if b = [] then some r else b.getLast? := by
  cases b with
  | nil => simp
  | cons y b' =>
    simp only [reduceCtorEq, if_false, List.getLast?_append, List.getLast?_cons_cons]
    cases h : (y :: b').getLast? with
    | none => simp at h
    | some z => simp

/-- the channels only grow -/
theorem step_queue_mono {st st' : St} {me : Nat} {ins : Instr} {rest : List Instr}
    (hp : (st.threads me).pgm = ins :: rest) (hs : step me st = some st') (s : Nat) (e : Ev)
    (h : e ∈ st.queues s) : e ∈ st'.queues s := by
  rcases step_queues hp hs with ⟨subs, evs, hq, _⟩ | ⟨_, hq⟩ | ⟨_, hq⟩ <;> (rw [hq]; exact send_mono h)

theorem step_cok {st st' : St} {me : Nat} {ins : Instr} {rest : List Instr} (h : COK st)
    (hp : (st.threads me).pgm = ins :: rest) (hs : step me st = some st') : COK st' := by
  obtain ⟨_, h2, h3⟩ := step_frame hp hs
  intro i
  by_cases hi : i = me
  · subst hi
    have hok := h i
    rw [hp] at hok
    rw [h2, (step_ph hp hs).1]
    rcases step_subs hp hs with ⟨w, k, rfl, _, _, hm⟩ | ⟨rfl, _, _, hm⟩ | ⟨s, ms, rfl, hmd, _, _, hm⟩ | ⟨hn1, hn2, _, _, hm⟩
    · have hpd : pendingOf (st'.threads i) = (k != 0 && k != 2) := by simp [pendingOf, hm]
      rw [hpd]
      simp only [cOk, phAfter, Bool.and_eq_true] at hok ⊢
      exact hok.2
    · have hpd : pendingOf (st'.threads i) = false := by
        unfold pendingOf
        rw [hm]
        rcases setLast_eq (st.threads i).mysubs (fun r => { r with e0 := st.established, cap := true }) with ⟨_, h0⟩ | ⟨a, x, _, h0⟩
        · rw [h0]; rfl
        · rw [h0]; simp
      rw [hpd]
      simp only [cOk, phAfter, Bool.and_eq_true] at hok ⊢
      exact hok.2
    · have hpd : pendingOf (st'.threads i) = pendingOf (st.threads i) := by
        obtain ⟨a, r, b, h1, h2', _, _⟩ := markDead_shape _ hmd
        unfold pendingOf
        rw [hm, h1, h2', getLast?_mid, getLast?_mid]
        by_cases hb : b = [] <;> simp [hb]
      rw [hpd]
      simpa [cOk, phAfter] using hok
    · have hpd : pendingOf (st'.threads i) = pendingOf (st.threads i) := by simp [pendingOf, hm]
      rw [hpd]
      cases ins <;> simp only [cOk, phAfter, Bool.and_eq_true] at hok ⊢
      case setEst b => cases b <;> simp at hok ⊢ <;> exact hok.2
      case register w k => exact absurd rfl (hn1 w k)
      case captureE0 => exact absurd rfl hn2
      all_goals first | exact hok | exact hok.2
  · rw [h3 i hi]; exact h i

theorem step_phi {st st' : St} {me : Nat} {ins : Instr} {rest : List Instr} (hI : Inv st) (hok : COK st)
    (h : PHI st) (hp : (st.threads me).pgm = ins :: rest) (hs : step me st = some st') : PHI st' := by
  obtain ⟨-, -, h3⟩ := step_frame hp hs
  obtain ⟨hph, -, hmono, -⟩ := step_ph hp hs
  have hokme := hok me
  rw [hp] at hokme
  have hw := hI.wf me
  unfold TWF at hw; rw [hp] at hw
  intro key e' hr' hph'
  rcases step_rib hp hs key e' hr' with ⟨e, he, hg⟩ | ⟨a, rfl⟩
  · rw [← hg]
    apply hmono
    by_cases hk : key.peer = me
    · rw [hk] at hph' ⊢
      rw [hph] at hph'
      by_cases hold : (st.threads me).ph = 0 ∨ (st.threads me).ph = 1
      · exact hk ▸ h key e he (hk ▸ hold)
      · have hdown : ins = .sendDown ∨ ins = .sendDownGr := by
          cases ins <;> simp only [phAfter] at hph' <;> try exact absurd hph' hold
          case setEst b =>
            cases b
            · simp at hph'
            · simp only [cOk, Bool.and_eq_true, if_true, beq_iff_eq] at hokme
              exact absurd (Or.inl hokme.1) hold
          case sendUp => simp at hph'
          case sendDown => exact Or.inl rfl
          case sendDownGr => exact Or.inr rfl
        have hcov : cover st.n ((st.threads me).drop.getD []) = true := by
          rcases hdown with rfl | rfl <;> (simp only [wfp, Bool.and_eq_true] at hw; exact hw.1.2)
        have hsh := cover_mem hcov (hI.sup key e he).2
        have hds : droppedShard st key := by
          cases hd : (st.threads me).drop with
          | none => rw [hd] at hsh; simp at hsh
          | some l => rw [hd] at hsh; exact ⟨l, by rw [hk]; exact hd, by simpa using hsh⟩
        rcases hI.dropped key hds with h0 | ⟨e2, he2, hg2⟩
        · rw [he] at h0; cases h0
        · rw [he] at he2; injection he2 with he2; subst he2; exact hk ▸ hg2
    · rw [h3 _ hk] at hph'
      exact h key e he hph'
  · -- the entry `commitIns` has just written: the session is up
    simp only [wfp, Bool.and_eq_true, decide_eq_true_eq] at hw
    have hk : key.peer = me := hw.1.2
    simp only [cOk, Bool.and_eq_true, beq_iff_eq] at hokme
    rw [hk, hph] at hph'
    simp only [phAfter] at hph'
    rw [hokme.1] at hph'
    rcases hph' with h' | h' <;> cases h'

/-- every subscription record after a step: an old one (possibly just captured / marked
    unsubscribed), or the one `register` has just created -/
theorem recs_after {st st' : St} {me : Nat} {ins : Instr} {rest : List Instr}
    (hp : (st.threads me).pgm = ins :: rest) (hs : step me st = some st') (j : Nat) :
    ∀ r' ∈ (st'.threads j).mysubs,
      (∃ r ∈ (st.threads j).mysubs, r'.sid = r.sid ∧ r'.kind = r.kind ∧ r'.want = r.want ∧
        ((r'.cap = r.cap ∧ r'.e0 = r.e0) ∨ (ins = .captureE0 ∧ j = me ∧ r'.cap = true ∧ r'.e0 = st.established))) ∨
      (∃ w k, ins = .register w k ∧ j = me ∧ r' = ⟨st.nextSub, w, true, k, [], false⟩ ∧
        st'.nextSub = st.nextSub + 1 ∧ st'.subscribers = st.subscribers ++ [st.nextSub]) := by
  obtain ⟨-, -, h3⟩ := step_frame hp hs
  intro r' hr'
  by_cases hj : j = me
  · subst hj
    rcases step_subs hp hs with ⟨w, k, rfl, h1, h2, hm⟩ | ⟨rfl, _, _, hm⟩ | ⟨s, ms, rfl, hmd, _, _, hm⟩ | ⟨_, _, _, _, hm⟩
    · rw [hm] at hr'
      simp only [List.mem_append, List.mem_singleton] at hr'
      rcases hr' with hr' | rfl
      · exact Or.inl ⟨r', hr', rfl, rfl, rfl, Or.inl ⟨rfl, rfl⟩⟩
      · exact Or.inr ⟨w, k, rfl, rfl, rfl, h2, h1⟩
    · rw [hm] at hr'
      obtain ⟨r0, hr0, hrr⟩ := mem_setLast hr'
      rcases hrr with rfl | rfl
      · exact Or.inl ⟨r', hr0, rfl, rfl, rfl, Or.inl ⟨rfl, rfl⟩⟩
      · exact Or.inl ⟨r0, hr0, rfl, rfl, rfl, Or.inr ⟨rfl, rfl, rfl, rfl⟩⟩
    · rw [hm] at hr'
      obtain ⟨a, r, b, h1, h2, _, _⟩ := markDead_shape _ hmd
      rw [h2] at hr'
      simp only [List.mem_append, List.mem_cons] at hr'
      rcases hr' with hr' | rfl | hr'
      · exact Or.inl ⟨r', by rw [h1]; simp [hr'], rfl, rfl, rfl, Or.inl ⟨rfl, rfl⟩⟩
      · exact Or.inl ⟨r, by rw [h1]; simp, rfl, rfl, rfl, Or.inl ⟨rfl, rfl⟩⟩
      · exact Or.inl ⟨r', by rw [h1]; simp [hr'], rfl, rfl, rfl, Or.inl ⟨rfl, rfl⟩⟩
    · rw [hm] at hr'
      exact Or.inl ⟨r', hr', rfl, rfl, rfl, Or.inl ⟨rfl, rfl⟩⟩
  · rw [h3 j hj] at hr'
    exact Or.inl ⟨r', hr', rfl, rfl, rfl, Or.inl ⟨rfl, rfl⟩⟩

theorem nextSub_mono {st st' : St} {me : Nat} {ins : Instr} {rest : List Instr}
    (hp : (st.threads me).pgm = ins :: rest) (hs : step me st = some st') : st.nextSub ≤ st'.nextSub := by
  rcases step_subs hp hs with ⟨_, _, _, _, h, _⟩ | ⟨_, _, h, _⟩ | ⟨_, _, _, _, h, _⟩ | ⟨_, _, _, h, _⟩ <;> omega

/-- a subscription disappears only by `unsubscribe`, which takes a channel subscription of the
    thread -/
theorem subs_after {st st' : St} {me : Nat} {ins : Instr} {rest : List Instr}
    (hp : (st.threads me).pgm = ins :: rest) (hs : step me st = some st') (x : Nat) (hx : x ∈ st.subscribers) :
    x ∈ st'.subscribers ∨ ∃ r ∈ (st.threads me).mysubs, r.kind = 0 ∧ r.sid = x := by
  rcases step_subs hp hs with ⟨_, _, _, h, _⟩ | ⟨_, h, _⟩ | ⟨s, ms, _, hmd, _, h, _⟩ | ⟨_, _, h, _⟩
  · left; rw [h]; simp [hx]
  · left; rw [h]; exact hx
  · by_cases hxs : x = s
    · right
      obtain ⟨a, r, b, h1, _, h3, h4⟩ := markDead_shape _ hmd
      exact ⟨r, by rw [h1]; simp, h3, by rw [h4, hxs]⟩
    · left; rw [h]; simp [hx, hxs]
  · left; rw [h]; exact hx

/-- Book-keeping: the phase ghost and `established` agree; subscription ids are unique per kind;
    a BMP connection always asks for the snapshot; consumers stay subscribed; every consumer
    record but possibly the thread's last has read the peer table; a BMP connection reads it only
    after EndOfSnapshot. -/
structure CB (st : St) : Prop where
  pest : ∀ p, p ∈ st.established ↔ ((st.threads p).ph = 1 ∨ (st.threads p).ph = 2)
  ids : ∀ i, ∀ r ∈ (st.threads i).mysubs, r.sid < st.nextSub
  kinds : ∀ i j, ∀ r ∈ (st.threads i).mysubs, ∀ r' ∈ (st.threads j).mysubs, r.sid = r'.sid → r.kind = r'.kind
  kw : ∀ i, ∀ r ∈ (st.threads i).mysubs, r.kind = 1 → r.want = true
  cs : ∀ i, ∀ r ∈ (st.threads i).mysubs, r.kind ≠ 0 → r.sid ∈ st.subscribers
  capd : ∀ i, ∀ r ∈ (st.threads i).mysubs.dropLast, r.kind ≠ 0 → r.kind ≠ 2 → r.cap = true
  cc : ∀ i, ∀ r ∈ (st.threads i).mysubs, r.kind = 1 → r.cap = true → Ev.eos ∈ st.queues r.sid

theorem step_cb {st st' : St} {me : Nat} {ins : Instr} {rest : List Instr} (hI : Inv st) (hok : COK st)
    (h : CB st) (hp : (st.threads me).pgm = ins :: rest) (hs : step me st = some st') : CB st' := by
  obtain ⟨-, -, h3⟩ := step_frame hp hs
  obtain ⟨hph, hest, -, -⟩ := step_ph hp hs
  have hokme := hok me
  rw [hp] at hokme
  have hw := hI.wf me
  unfold TWF at hw; rw [hp] at hw
  constructor
  · -- pest
    intro p
    by_cases hpm : p = me
    · subst hpm
      rw [hph, hest]
      have hold := h.pest p
      cases ins <;> simp only [phAfter, estAfter] <;> try exact hold
      case setEst b =>
        cases b
        · simp
        · simp
      case sendUp =>
        simp only [cOk, Bool.and_eq_true, beq_iff_eq] at hokme
        rw [hold, hokme.1]; simp
      case sendDown =>
        simp only [cOk, Bool.and_eq_true, beq_iff_eq] at hokme
        rw [hold, hokme.1]; simp
      case sendDownGr =>
        simp only [cOk, Bool.and_eq_true, beq_iff_eq] at hokme
        rw [hold, hokme.1]; simp
    · rw [h3 p hpm, hest, ← h.pest p]
      cases ins <;> simp only [estAfter]
      case setEst b => cases b <;> simp [hpm]
  · -- ids
    intro i r' hr'
    have hmono := nextSub_mono hp hs
    rcases recs_after hp hs i r' hr' with ⟨r, hr, h1, _⟩ | ⟨w, k, _, _, rfl, h2, _⟩
    · rw [h1]; have := h.ids i r hr; omega
    · simp only; omega
  · -- kinds
    intro i j r1' hr1' r2' hr2' hsid
    rcases recs_after hp hs i r1' hr1' with ⟨r1, hr1, a1, b1, _⟩ | ⟨w1, k1, hi1, _, e1, _, _⟩ <;>
      rcases recs_after hp hs j r2' hr2' with ⟨r2, hr2, a2, b2, _⟩ | ⟨w2, k2, hi2, _, e2, _, _⟩
    · rw [b1, b2]; exact h.kinds i j r1 hr1 r2 hr2 (by rw [← a1, ← a2]; exact hsid)
    · have := h.ids i r1 hr1
      rw [a1, e2] at hsid; simp only at hsid; omega
    · have := h.ids j r2 hr2
      rw [a2, e1] at hsid; simp only at hsid; omega
    · have hk : k1 = k2 := by rw [hi1] at hi2; injection hi2
      rw [e1, e2, hk]
  · -- kw
    intro i r' hr' hk
    rcases recs_after hp hs i r' hr' with ⟨r, hr, _, b1, c1, _⟩ | ⟨w, k, rfl, _, rfl, _, _⟩
    · rw [c1]; exact h.kw i r hr (b1 ▸ hk)
    · simp only at hk ⊢
      simp only [cOk, Bool.and_eq_true, Bool.or_eq_true, bne_iff_ne] at hokme
      rcases hokme.1.2 with h' | h'
      · exact absurd hk h'
      · exact h'
  · -- cs
    intro i r' hr' hk
    rcases recs_after hp hs i r' hr' with ⟨r, hr, a1, b1, _⟩ | ⟨w, k, _, _, rfl, _, hsu⟩
    · have hold := h.cs i r hr (b1 ▸ hk)
      rcases subs_after hp hs _ hold with h' | ⟨r0, hr0, hk0, hs0⟩
      · rw [a1]; exact h'
      · have := h.kinds me i r0 hr0 r hr hs0
        rw [hk0] at this
        exact absurd (b1.trans this.symm) hk
    · rw [hsu]; simp
  · -- capd
    intro i r' hr' hk hk2
    by_cases hi : i = me
    · subst hi
      rcases step_subs hp hs with ⟨w, k, rfl, _, _, hm⟩ | ⟨rfl, _, _, hm⟩ | ⟨s, ms, rfl, hmd, _, _, hm⟩ | ⟨_, _, _, _, hm⟩
      · rw [hm, List.dropLast_concat] at hr'
        rcases mem_split_last _ _ hr' with h' | h'
        · exact h.capd i r' h' hk hk2
        · simp only [cOk, Bool.and_eq_true, Bool.not_eq_true'] at hokme
          have hpd := hokme.1.1
          unfold pendingOf at hpd
          rw [h'] at hpd
          simp only [Bool.and_eq_false_iff, bne_eq_false_iff_eq, Bool.not_eq_false'] at hpd
          rcases hpd with (h'' | h'') | h''
          · exact absurd h'' hk
          · exact absurd h'' hk2
          · exact h''
      · rw [hm] at hr'
        rcases setLast_eq (st.threads i).mysubs (fun r => { r with e0 := st.established, cap := true }) with ⟨_, h0⟩ | ⟨a, x, hl, h0⟩
        · rw [h0] at hr'; cases hr'
        · rw [h0, List.dropLast_concat] at hr'
          exact h.capd i r' (by rw [hl, List.dropLast_concat]; exact hr') hk hk2
      · obtain ⟨a, r, b, h1, h2, hk0, _⟩ := markDead_shape _ hmd
        rw [hm, h2, dropLast_mid] at hr'
        have hold : ∀ x ∈ (a ++ r :: b).dropLast, x.kind ≠ 0 → x.kind ≠ 2 → x.cap = true := by
          intro x hx; exact h.capd i x (by rw [h1]; exact hx)
        rw [dropLast_mid] at hold
        by_cases hb : b = []
        · simp only [hb, if_true] at hr' hold; exact hold r' hr' hk hk2
        · simp only [hb, if_false] at hr' hold
          simp only [List.mem_append, List.mem_cons] at hr'
          rcases hr' with hr' | rfl | hr'
          · exact hold r' (by simp [hr']) hk hk2
          · exact absurd hk0 hk
          · exact hold r' (by simp [hr']) hk hk2
      · rw [hm] at hr'; exact h.capd i r' hr' hk hk2
    · rw [h3 i hi] at hr'; exact h.capd i r' hr' hk hk2
  · -- cc
    intro i r' hr' hk hcap
    rcases recs_after hp hs i r' hr' with ⟨r, hr, a1, b1, c1, d1⟩ | ⟨w, k, _, _, rfl, _, _⟩
    · rw [a1]
      apply step_queue_mono hp hs
      rcases d1 with ⟨d1, _⟩ | ⟨rfl, rfl, _, _⟩
      · exact h.cc i r hr (b1 ▸ hk) (d1 ▸ hcap)
      · -- the peer table is read after EndOfSnapshot
        simp only [wfp, Bool.and_eq_true, Option.isNone_iff_eq_none, Option.map_eq_none_iff] at hw
        have hwant := h.kw i r hr (b1 ▸ hk)
        rcases hI.recs i r hr hwant with h' | ⟨l, hl⟩
        · exact hI.eosI _ h'
        · rw [hw.1] at hl; cases hl
    · simp at hcap

/-! ## A peer in session is announced on every consumer's connection -/

theorem ph2_after {st st' : St} {me : Nat} {ins : Instr} {rest : List Instr}
    (hp : (st.threads me).pgm = ins :: rest) (hs : step me st = some st') (p : Nat)
    (h : (st'.threads p).ph = 2) :
    ((st.threads p).ph = 2 ∧ ¬ (p = me ∧ (ins = .sendDown ∨ ins = .sendDownGr)) ∧ ¬ (p = me ∧ ins = .sendUp)) ∨
    (p = me ∧ ins = .sendUp) := by
  obtain ⟨-, -, h3⟩ := step_frame hp hs
  by_cases hpm : p = me
  · subst hpm
    rw [(step_ph hp hs).1] at h
    cases ins <;> simp only [phAfter] at h <;> try (left; exact ⟨h, by simp, by simp⟩)
    case setEst b => cases b <;> simp at h
    case sendUp => right; exact ⟨rfl, rfl⟩
    case sendDown => cases h
    case sendDownGr => cases h
  · rw [h3 p hpm] at h
    left; exact ⟨h, fun h' => hpm h'.1, fun h' => hpm h'.1⟩

/-- an announced peer stays announced unless its own PeerDown is published -/
theorem ann_keep {st st' : St} {me : Nat} {ins : Instr} {rest : List Instr}
    (hp : (st.threads me).pgm = ins :: rest) (hs : step me st = some st') (s : Nat) (hsub : s ∈ st.subscribers)
    (p : Nat) (hnd : ¬ (p = me ∧ (ins = .sendDown ∨ ins = .sendDownGr))) (m key e0 b0)
    (h : p ∈ ann e0 (cvFold m key e0 b0 (st.queues s))) : p ∈ ann e0 (cvFold m key e0 b0 (st'.queues s)) := by
  rcases step_queues hp hs with ⟨subs, evs, hq, hn⟩ | ⟨_, hq⟩ | ⟨hi, hq⟩
  · rw [hq]
    by_cases hin : s ∈ subs
    · rw [send_in hin, cvFold_append]; exact (mem_ann_batch m key e0 p evs _ hn).mpr h
    · rw [send_out hin]; exact h
  · rw [hq, send_in hsub, cvFold_append]
    simp only [List.foldl_cons, List.foldl_nil]
    by_cases hpm : p = me
    · subst hpm
      apply mem_ann_up
      unfold ann at h
      by_cases hl : (cvFold m key e0 b0 (st.queues s)).live = true
      · exact Or.inl hl
      · simp only [hl, Bool.false_eq_true, if_false] at h; exact Or.inr h
    · exact (mem_ann_step m key e0 _ _ p (fun e => by injection e with e; exact hpm e.symm) (fun e => by cases e)).mpr h
  · rw [hq, send_in hsub, cvFold_append]
    simp only [List.foldl_cons, List.foldl_nil]
    have hpm : p ≠ me := fun e => hnd ⟨e, hi⟩
    exact (mem_ann_step m key e0 _ _ p (fun e => by cases e) (fun e => by injection e with e; exact hpm e.symm)).mpr h

/-- `peer_up` announces the peer on every connection that forwards already (or will find it in
    the peer table) -/
theorem ann_up {st st' : St} {me : Nat} {rest : List Instr}
    (hp : (st.threads me).pgm = .sendUp :: rest) (hs : step me st = some st') (s : Nat) (hsub : s ∈ st.subscribers)
    (m key e0 b0) (h : (cvFold m key e0 b0 (st.queues s)).live = true ∨ me ∈ e0) :
    me ∈ ann e0 (cvFold m key e0 b0 (st'.queues s)) := by
  rcases step_queues hp hs with ⟨subs, evs, hq, hn⟩ | ⟨_, hq⟩ | ⟨hi, hq⟩
  · simp only [step, hp] at hs
    injection hs with hs; subst hs
    simp only [send_in hsub, cvFold_append, List.foldl_cons, List.foldl_nil]
    exact mem_ann_up m key e0 _ me h
  · rw [hq, send_in hsub, cvFold_append]
    simp only [List.foldl_cons, List.foldl_nil]
    exact mem_ann_up m key e0 _ me h
  · rcases hi with hi | hi <;> cases hi

/-- a peer in session (PeerUp published, `session_addrs` still set) is announced on every
    connection that found it in the peer table … -/
def PU1 (st : St) : Prop :=
  ∀ s ∈ st.subscribers, ∀ p, (st.threads p).ph = 2 → ∀ m key e0 b0, p ∈ e0 →
    p ∈ ann e0 (cvFold m key e0 b0 (st.queues s))

/-- … and on every consumer connection that has read the peer table -/
def PU2 (st : St) : Prop :=
  ∀ i, ∀ r ∈ (st.threads i).mysubs, r.kind ≠ 0 → r.cap = true → ∀ p, (st.threads p).ph = 2 → ∀ m key,
    p ∈ ann r.e0 (cvFold m key r.e0 (r.kind != 1) (st.queues r.sid))

theorem step_pu1 {st st' : St} {me : Nat} {ins : Instr} {rest : List Instr} (hI : Inv st) (h : PU1 st)
    (hp : (st.threads me).pgm = ins :: rest) (hs : step me st = some st') : PU1 st' := by
  intro s hs' p hph m key e0 b0 he0
  have hold : s ∈ st.subscribers ∨ (st'.queues s = [] ) := by
    rcases step_subs hp hs with ⟨w, k, hi, h1, _, _⟩ | ⟨_, h1, _⟩ | ⟨_, _, _, _, _, h1, _⟩ | ⟨_, _, h1, _⟩
    · rw [h1] at hs'
      simp only [List.mem_append, List.mem_singleton] at hs'
      rcases hs' with hs' | hs'
      · exact Or.inl hs'
      · right
        subst hi
        simp only [step, hp] at hs
        injection hs with hs; subst hs
        exact (hI.idsQ s (by omega)).1
    · rw [h1] at hs'; exact Or.inl hs'
    · rw [h1] at hs'; exact Or.inl (List.mem_filter.mp hs').1
    · rw [h1] at hs'; exact Or.inl hs'
  rcases hold with hold | hold
  · rcases ph2_after hp hs p hph with ⟨h2, hnd, _⟩ | ⟨rfl, rfl⟩
    · exact ann_keep hp hs s hold p hnd m key e0 b0 (h s hold p h2 m key e0 b0 he0)
    · exact ann_up hp hs s hold m key e0 b0 (Or.inr he0)
  · rw [hold]
    unfold ann cvFold
    cases b0 <;> simpa using he0

theorem live_of_rec {st : St} (hcb : CB st) {i : Nat} {r : SubRec} (hr : r ∈ (st.threads i).mysubs)
    (hcap : r.cap = true) (m key e0) : (cvFold m key e0 (r.kind != 1) (st.queues r.sid)).live = true := by
  by_cases hk : r.kind = 1
  · exact live_of_eos m key e0 _ _ (hcb.cc i r hr hk hcap)
  · apply live_foldl
    simp [hk]

theorem step_pu2 {st st' : St} {me : Nat} {ins : Instr} {rest : List Instr} (hcb : CB st)
    (h1 : PU1 st) (h : PU2 st)
    (hp : (st.threads me).pgm = ins :: rest) (hs : step me st = some st') : PU2 st' := by
  intro j r' hr' hk hcap p hph m key
  rcases recs_after hp hs j r' hr' with ⟨r, hr, a1, b1, _, d1⟩ | ⟨w, k, _, _, rfl, _, _⟩
  · have hsub : r.sid ∈ st.subscribers := hcb.cs j r hr (b1 ▸ hk)
    rw [a1, b1]
    rcases d1 with ⟨d1, d2⟩ | ⟨hi, _, _, d2⟩
    · rw [d2]
      rcases ph2_after hp hs p hph with ⟨h2, hnd, _⟩ | ⟨rfl, rfl⟩
      · exact ann_keep hp hs _ hsub p hnd m key _ _ (h j r hr (b1 ▸ hk) (d1 ▸ hcap) p h2 m key)
      · exact ann_up hp hs _ hsub m key _ _ (Or.inl (live_of_rec hcb hr (d1 ▸ hcap) m key _))
    · rw [d2]
      rcases ph2_after hp hs p hph with ⟨h2, hnd, _⟩ | ⟨_, hi'⟩
      · have hest : p ∈ st.established := (hcb.pest p).mpr (Or.inr h2)
        exact ann_keep hp hs _ hsub p hnd m key _ _ (h1 _ hsub p h2 m key _ _ hest)
      · rw [hi] at hi'; cases hi'
  · simp at hcap

/-! ## Facts that need no assumption on the case -/

/-- subscription ids are unique per kind and consumers stay subscribed (no assumption on the
    order of the operations) -/
structure CB0 (st : St) : Prop where
  ids : ∀ i, ∀ r ∈ (st.threads i).mysubs, r.sid < st.nextSub
  kinds : ∀ i j, ∀ r ∈ (st.threads i).mysubs, ∀ r' ∈ (st.threads j).mysubs, r.sid = r'.sid → r.kind = r'.kind
  cs : ∀ i, ∀ r ∈ (st.threads i).mysubs, r.kind ≠ 0 → r.sid ∈ st.subscribers

theorem step_cb0 {st st' : St} {me : Nat} {ins : Instr} {rest : List Instr}
    (h : CB0 st) (hp : (st.threads me).pgm = ins :: rest) (hs : step me st = some st') : CB0 st' := by
  constructor
  · intro i r' hr'
    have hmono := nextSub_mono hp hs
    rcases recs_after hp hs i r' hr' with ⟨r, hr, h1, _⟩ | ⟨w, k, _, _, rfl, h2, _⟩
    · rw [h1]; have := h.ids i r hr; omega
    · simp only; omega
  · intro i j r1' hr1' r2' hr2' hsid
    rcases recs_after hp hs i r1' hr1' with ⟨r1, hr1, a1, b1, _⟩ | ⟨w1, k1, hi1, _, e1, _, _⟩ <;>
      rcases recs_after hp hs j r2' hr2' with ⟨r2, hr2, a2, b2, _⟩ | ⟨w2, k2, hi2, _, e2, _, _⟩
    · rw [b1, b2]; exact h.kinds i j r1 hr1 r2 hr2 (by rw [← a1, ← a2]; exact hsid)
    · have := h.ids i r1 hr1
      rw [a1, e2] at hsid; simp only at hsid; omega
    · have := h.ids j r2 hr2
      rw [a2, e1] at hsid; simp only at hsid; omega
    · have hk : k1 = k2 := by rw [hi1] at hi2; injection hi2
      rw [e1, e2, hk]
  · intro i r' hr' hk
    rcases recs_after hp hs i r' hr' with ⟨r, hr, a1, b1, _⟩ | ⟨w, k, _, _, rfl, _, hsu⟩
    · have hold := h.cs i r hr (b1 ▸ hk)
      rcases subs_after hp hs _ hold with h' | ⟨r0, hr0, hk0, hs0⟩
      · rw [a1]; exact h'
      · have := h.kinds me i r0 hr0 r hr hs0
        rw [hk0] at this
        exact absurd (b1.trans this.symm) hk
    · rw [hsu]; simp

/-- A peer whose session task never ends a session and never purges: no PeerDown of it is ever
    published and none of its routes is ever marked stale. -/
def NE (c : Case) (st : St) : Prop :=
  ∀ p, peerEnds c p = false →
    (∀ ins ∈ (st.threads p).pgm, ins ≠ .sendDown ∧ ins ≠ .sendDownGr ∧ ∀ k, ins ≠ .commitStale k) ∧
    (∀ s, Ev.down p ∉ st.queues s) ∧ (∀ g, (p, g) ∉ st.staleGens)

theorem mem_send {q : Nat → List Ev} {subs : List Nat} {evs : List Ev} {s : Nat} {e : Ev}
    (h : e ∈ send q subs evs s) : e ∈ q s ∨ e ∈ evs := by
  unfold send at h
  split at h
  · exact List.mem_append.mp h
  · exact Or.inl h

theorem step_ne {c : Case} {st st' : St} {me : Nat} {ins : Instr} {rest : List Instr} (h : NE c st)
    (hp : (st.threads me).pgm = ins :: rest) (hs : step me st = some st') : NE c st' := by
  obtain ⟨-, h2, h3⟩ := step_frame hp hs
  intro p hpe
  obtain ⟨a, b, d⟩ := h p hpe
  have hins : p = me → ins ≠ .sendDown ∧ ins ≠ .sendDownGr ∧ ∀ k, ins ≠ .commitStale k := by
    intro e; subst e; exact a ins (by rw [hp]; exact List.mem_cons_self)
  refine ⟨?_, ?_, ?_⟩
  · intro i hi
    by_cases hpm : p = me
    · subst hpm; rw [h2] at hi; exact a i (by rw [hp]; exact List.mem_cons_of_mem _ hi)
    · rw [h3 p hpm] at hi; exact a i hi
  · intro s hm
    rcases step_queues hp hs with ⟨subs, evs, hq, hn⟩ | ⟨_, hq⟩ | ⟨hi, hq⟩
    · rw [hq] at hm
      rcases mem_send hm with hm | hm
      · exact b s hm
      · exact (hn _ hm p).2 rfl
    · rw [hq] at hm
      rcases mem_send hm with hm | hm
      · exact b s hm
      · simp at hm
    · rw [hq] at hm
      rcases mem_send hm with hm | hm
      · exact b s hm
      · simp only [List.mem_singleton] at hm
        injection hm with hm
        have := hins hm
        rcases hi with hi | hi
        · exact this.1 hi
        · exact this.2.1 hi
  · intro g hm
    rcases (step_ph hp hs).2.2.2 _ hm with hm | ⟨k, hi, hm⟩
    · exact d g hm
    · simp only [gensIn, List.mem_filterMap] at hm
      obtain ⟨key, _, hm⟩ := hm
      cases hr : st.rib key with
      | none => simp [hr] at hm
      | some e =>
        simp only [hr, Option.map_some, Option.some.injEq, Prod.mk.injEq] at hm
        exact (hins hm.1.symm).2.2 k hi

/-- does the session task of this peer ever end a session with GR retention? -/
def peerRetains (c : Case) (p : Nat) : Bool :=
  match c.threads[p]? with
  | some (_, ops) => ops.any fun o => o == .gdown
  | none => false

/-- a peer whose session task never ends a session with GR retention has no stale mark -/
def NG (c : Case) (st : St) : Prop :=
  ∀ p, peerRetains c p = false →
    (∀ ins ∈ (st.threads p).pgm, ∀ k, ins ≠ .commitStale k) ∧ (∀ g, (p, g) ∉ st.staleGens)

theorem step_ng {c : Case} {st st' : St} {me : Nat} {ins : Instr} {rest : List Instr} (h : NG c st)
    (hp : (st.threads me).pgm = ins :: rest) (hs : step me st = some st') : NG c st' := by
  obtain ⟨-, h2, h3⟩ := step_frame hp hs
  intro p hpe
  obtain ⟨a, d⟩ := h p hpe
  refine ⟨?_, ?_⟩
  · intro i hi
    by_cases hpm : p = me
    · subst hpm; rw [h2] at hi; exact a i (by rw [hp]; exact List.mem_cons_of_mem _ hi)
    · rw [h3 p hpm] at hi; exact a i hi
  · intro g hm
    rcases (step_ph hp hs).2.2.2 _ hm with hm | ⟨k, hi, hm⟩
    · exact d g hm
    · simp only [gensIn, List.mem_filterMap] at hm
      obtain ⟨key, _, hm⟩ := hm
      cases hr : st.rib key with
      | none => simp [hr] at hm
      | some e =>
        simp only [hr, Option.map_some, Option.some.injEq, Prod.mk.injEq] at hm
        have hpm : p = me := hm.1.symm
        subst hpm
        exact a ins (by rw [hp]; exact List.mem_cons_self) k hi

end Rbgp.Monitor
